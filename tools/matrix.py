#!/usr/bin/env python3
"""Detection matrix: run checks against seeded changes / catalogue mutants on a SCRATCH copy
(never /repo): a detached worktree of /repo's HEAD plus a copy of the committed /verif under
/tmp/mx-<tag>/, driven through NQV_REPO. Self-test tooling only; nothing registered in
MANIFEST.json depends on it.

  tools/matrix.py --tag a --seeded [ID-x ...]      all (or the named) seeded changes vs their property's check
  tools/matrix.py --tag b --mutants [Mid ...]      catalogue / extra mutants
  tools/matrix.py --tag c --pristine C01 C02 ...   the named checks on the unchanged scratch copy
  options: --tier quick|thorough   --props C01,C02 (override which checks to run)   --keep
Results: one JSON line per (change, check) appended to /verif/mutants/results/<tag>.jsonl
"""
import json, os, subprocess, sys, shutil, time, glob

def sh(cmd, **k):
    return subprocess.run(cmd, **k)

def main():
    a = sys.argv[1:]
    tag = "x"; mode = None; names = []; tier = "quick"; props = None; keep = False
    i = 0
    while i < len(a):
        if a[i] == "--tag": tag = a[i+1]; i += 2
        elif a[i] in ("--seeded", "--mutants", "--pristine"): mode = a[i][2:]; i += 1
        elif a[i] == "--tier": tier = a[i+1]; i += 2
        elif a[i] == "--props": props = a[i+1].split(","); i += 2
        elif a[i] == "--keep": keep = True; i += 1
        else: names.append(a[i]); i += 1
    root = f"/tmp/mx-{tag}"
    repo = f"{root}/repo"; verif = f"{root}/verif"
    sh(["git", "-C", "/repo", "worktree", "remove", "--force", repo], capture_output=True)
    shutil.rmtree(root, ignore_errors=True)
    os.makedirs(root)
    r = sh(["git", "-C", "/repo", "worktree", "add", "--detach", repo, "HEAD"], capture_output=True, text=True)
    if r.returncode: print(r.stderr); sys.exit(3)
    # the committed /verif plus uncommitted edits to tracked files (so a check under development can be tried)
    os.makedirs(verif)
    files = sh(["git", "-C", "/verif", "ls-files"], capture_output=True, text=True).stdout.split()
    for f in files:
        if f.startswith(("evidence/", "seeded/", "mutants/results/")): continue
        src = os.path.join("/verif", f)
        if not os.path.exists(src): continue
        dst = os.path.join(verif, f); os.makedirs(os.path.dirname(dst), exist_ok=True); shutil.copy2(src, dst)
    env = dict(os.environ); env["NQV_REPO"] = repo
    os.makedirs("/verif/mutants/results", exist_ok=True)
    out_path = f"/verif/mutants/results/{tag}.jsonl"
    out = open(out_path, "a")
    cat = {m["id"]: m for m in json.load(open("/verif/mutants/catalogue.json"))}
    items = []  # (label, kind, payload, [props])
    if mode == "seeded":
        dirs = sorted(glob.glob("/verif/seeded/*/patch.diff"))
        for d in dirs:
            label = os.path.basename(os.path.dirname(d))
            if names and label not in names: continue
            meta = json.load(open(os.path.join(os.path.dirname(d), "meta.json")))
            if meta.get("status") == "retired" and label not in names: continue
            items.append((label, "patch", d, props or [meta["property"]]))
    elif mode == "mutants":
        for mid, m in cat.items():
            if names and mid not in names: continue
            p = m["property"]
            # C01 / C02 are two sides of one denotation: a change labelled with one may only be visible to the other
            items.append((mid, "cat", m, props or (["C01", "C02"] if p in ("C01", "C02") else [p] if p.startswith("C") else ["C11", "C17"])))
        for d in sorted(glob.glob("/verif/mutants/extra/*.diff")):
            label = os.path.basename(d)[:-5]
            if names and label not in names: continue
            if not names and False: continue
            pid = "C" + label[1:3]
            items.append((label, "patch", d, props or [pid]))
    elif mode == "pristine":
        items.append(("pristine", "none", None, names))
    # first build on the pristine scratch copy (also proves the scratch setup works)
    t0 = time.time()
    r = sh([f"{verif}/check", "--setup"], env=env, capture_output=True, text=True)
    if r.returncode:
        print("setup failed", r.stdout[-2000:], r.stderr[-2000:]); sys.exit(3)
    print(f"scratch setup ok in {time.time()-t0:.0f}s", flush=True)
    for label, kind, payload, ps in items:
        applied = True
        if kind == "patch":
            r = sh(["git", "-C", repo, "apply", payload], capture_output=True, text=True)
            if r.returncode: applied = False; err = r.stderr
        elif kind == "cat":
            p = os.path.join(repo, payload["file"]); s = open(p).read()
            if s.count(payload["old"]) != 1: applied = False; err = f"old text occurs {s.count(payload['old'])} times"
            else: open(p, "w").write(s.replace(payload["old"], payload["new"]))
        if not applied:
            rec = {"change": label, "applied": False, "error": err[:300], "ts": round(time.time())}
            print(json.dumps(rec), flush=True); out.write(json.dumps(rec) + "\n"); out.flush()
            continue
        for prop in ps:
            t = time.time()
            r = sh([f"{verif}/check", prop, "--tier", tier], env=env, capture_output=True, text=True)
            lines = [l for l in r.stdout.splitlines() if l.startswith("VIOLATION")]
            rec = {"change": label, "check": prop, "tier": tier, "rc": r.returncode, "violations": len(lines), "secs": round(time.time() - t, 1),
                   "first": [l[:260] for l in lines[:3]], "ts": round(time.time()), "verif_commit": sh(["git", "-C", "/verif", "log", "--format=%h", "-1"], capture_output=True, text=True).stdout.strip()}
            if r.returncode == 2: rec["stderr"] = r.stderr[-600:]
            print(json.dumps(rec)[:500], flush=True); out.write(json.dumps(rec) + "\n"); out.flush()
        sh(["git", "-C", repo, "checkout", "--", "."]); sh(["git", "-C", repo, "clean", "-fdq"])
    if not keep:
        sh(["git", "-C", "/repo", "worktree", "remove", "--force", repo], capture_output=True)
        shutil.rmtree(root, ignore_errors=True)
    print("done ->", out_path)

main()
