#!/usr/bin/env python3
"""Regenerates MANIFEST.json from tools/manifest_src.json (single source of truth for per-check texts)."""
import json, os
src = json.load(open("/verif/tools/manifest_src.json"))
props = [json.loads(l)["id"] for l in open("/verif/properties.jsonl")]
checks = []
for pid in props:
    c = src["checks"].get(pid)
    if not c: continue
    checks.append({
        "property_id": pid,
        "quick_cmd": f"./check {pid} --tier quick",
        "thorough_cmd": f"./check {pid} --tier thorough",
        "evidence_file": f"/verif/evidence/{pid}.json",
        "replay_cmd_template": f"./check {pid} --replay {{path}}",
        "engine": c.get("engine", "nqv"),
        "level_claimed": {"category": "model_checking", "text": c["text"], "design_ref": c.get("design_ref", f"DESIGN.md §4 {pid}")},
        "level_note": c["note"],
        "technique": c["technique"],
    })
na = [{"property_id": pid, "reason": src["not_applicable"].get(pid, "check not built yet in this session; see DESIGN.md §9 for the construction order")} for pid in props if pid not in src["checks"]]
m = {
    "version": 1,
    "setup_cmd": "./check --setup",
    "hooks": {"guard": "nitrogql_verif", "enable": "no hooks are needed: the harness links /repo/crates/* by path and reaches the bin-only loader through a generated shadow package (DESIGN.md §1.4)", "baseline_off_cmd": "cd /repo && cargo test --workspace --no-fail-fast --offline", "source_commits": [], "add_only": True},
    "engines": src["engines"],
    "checks": checks,
    "notes": src["notes"],
    "not_applicable": na,
}
json.dump(m, open("/verif/MANIFEST.json", "w"), indent=1)
print("checks:", [c["property_id"] for c in checks], "na:", len(na))
