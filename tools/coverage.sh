#!/bin/bash
# coverage.sh [tier] [checks...]: which lines of the repository's crates do the checks execute at all?
# Self-test tooling (vacuity guard at code level), nothing in MANIFEST.json depends on it.
# Builds the harness and nitrogql-cli with -C instrument-coverage (nightly, offline) into
# /verif/.build/cov-*, runs the named checks (default: all, quick tier) with the profile files
# pooled per binary, and writes
#   /verif/.build/cov/report.txt      per-file line coverage of /repo/crates (harness process + CLI process)
#   /verif/.build/cov/uncovered.txt   every uncovered line range of the non-test sources
set -u
TIER=${1:-quick}; shift || true
CHECKS=${*:-C01 C02 C03 C04 C05 C06 C07 C08 C09 C10 C11 C12 C13 C14 C15 C16 C17 C18 C19 C20}
V=/verif; B=$V/.build; COV=$B/cov
LLVM=$(dirname "$(find ~/.rustup/toolchains/nightly-x86_64-unknown-linux-gnu -name llvm-profdata | head -1)")
export CARGO_NET_OFFLINE=true
mkdir -p $COV; rm -f $COV/*.profraw $COV/*.profdata
python3 - <<'E'
import importlib.util, importlib.machinery
l = importlib.machinery.SourceFileLoader("chk", "/verif/check"); s = importlib.util.spec_from_loader("chk", l); m = importlib.util.module_from_spec(s); l.exec_module(m)
m.gen_shadow_loader(); m.build_shim()
E
export LLVM_PROFILE_FILE=$B/cov-build-%p.profraw
echo "building instrumented harness"; (cd $V/harness && CARGO_TARGET_DIR=$B/cov-target RUSTFLAGS="-C instrument-coverage" cargo +nightly build --release --offline --quiet --bin nqv) || exit 3
echo "building instrumented CLI"; (cd /repo && CARGO_TARGET_DIR=$B/cov-cli-target RUSTFLAGS="-C instrument-coverage" cargo +nightly build --release --offline --quiet -p nitrogql-cli) || exit 3
mkdir -p $B/evidence-backup; cp $V/evidence/*.json $B/evidence-backup/
export NQV_CLI=$B/cov-cli-target/release/nitrogql-cli NQV_SHIM=$B/libnqseed.so NQV_TMP=$B/tmp NQV_ROOT=$V NQV_ASAN_EXE=/nonexistent
rm -f $B/cov-build-*.profraw
export LLVM_PROFILE_FILE="$COV/p-%8m.profraw"
# profile counters are plain memory cells shared by all threads of a process: many threads on one check thrash
# the same cache lines, so each check gets two threads and eight checks run side by side
echo $CHECKS | tr ' ' '\n' | xargs -P 8 -I{} sh -c '/usr/bin/time -f "{} %es" '$B'/cov-target/release/nqv {} --tier '$TIER' --threads 2 2>&1 | grep -v "^KNOWN-FINDING" | cut -c1-200' 
cp $B/evidence-backup/*.json $V/evidence/
$LLVM/llvm-profdata merge -sparse $COV/*.profraw -o $COV/all.profdata || exit 3
ARGS="-instr-profile=$COV/all.profdata $B/cov-target/release/nqv -object $B/cov-cli-target/release/nitrogql-cli"
$LLVM/llvm-cov report $ARGS -ignore-filename-regex='(registry|rustc|/verif/harness/src|tests?/|tests\.rs)' 2>/dev/null | grep -E "crates/|TOTAL" > $COV/report.txt
$LLVM/llvm-cov export $ARGS -format=lcov -ignore-filename-regex='(registry|rustc|/verif/harness/src|tests?/|tests\.rs)' 2>/dev/null > $COV/all.lcov
python3 - <<'E'
import re, collections
cur = None; un = collections.defaultdict(list)
for l in open("/verif/.build/cov/all.lcov"):
    l = l.strip()
    if l.startswith("SF:"): cur = l[3:]
    elif l.startswith("DA:") and cur and "crates/" in cur:
        n, h = l[3:].split(",")[:2]
        if h == "0": un[cur].append(int(n))
out = open("/verif/.build/cov/uncovered.txt", "w")
for f in sorted(un):
    xs = sorted(un[f]); rs = []; a = b = xs[0]
    for x in xs[1:]:
        if x == b + 1: b = x
        else: rs.append((a, b)); a = b = x
    rs.append((a, b))
    out.write(f"{f[f.index('crates/'):]}: {len(xs)} lines: " + " ".join(f"{a}-{b}" if a != b else str(a) for a, b in rs) + "\n")
E
tail -1 $COV/report.txt; echo "see $COV/report.txt and $COV/uncovered.txt"
