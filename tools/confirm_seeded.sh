#!/bin/bash
# confirm_seeded.sh <ID> <x> <demo-dest-dir-relative-to-repo or -> <demo command (run in worktree root)>
# Confirms in scratch worktree /tmp/wt/<ID>: demo passes pristine; with patch: full suite green, demo fails.
# On success copies deliverables to /verif/seeded/<ID>-<x>/ with a confirmation log.
set -u
ID=$1; X=$2; DEST=$3; CMD=$4
WT=/tmp/wt/$ID; SRC=/tmp/seeded-out/$ID/$X
export CARGO_TARGET_DIR=$WT/target CARGO_NET_OFFLINE=true
cd $WT || exit 3
git checkout -q -- . ; git clean -fdq -e target
LOG=/tmp/seeded-out/$ID/$X/confirm.log; : > $LOG
copy_demo() { if [ "$DEST" != "-" ]; then mkdir -p $WT/$DEST; cp $SRC/demo/*.rs $WT/$DEST/ 2>/dev/null; fi; }
rm_demo() { git clean -fdq -e target; }
copy_demo
echo "== demo on pristine" >> $LOG
( eval "$CMD" ) >> $LOG 2>&1; A=$?
rm_demo
git apply $SRC/patch.diff || { echo "patch does not apply" >> $LOG; exit 3; }
echo "== full suite with patch" >> $LOG
cargo test --workspace --no-fail-fast --offline 2>&1 | grep -E "^test result|FAILED|failed|error(\[|:)" >> $LOG; 
PASSN=$(sed -n '/== full suite/,$p' $LOG | grep -E "^test result: ok" | sed -E 's/.* ([0-9]+) passed.*/\1/' | paste -sd+ | bc)
FAILN=$(sed -n '/== full suite/,$p' $LOG | grep -cE "^test result: FAILED")
copy_demo
echo "== demo with patch" >> $LOG
( eval "$CMD" ) >> $LOG 2>&1; B=$?
rm_demo; git checkout -q -- .
echo "demo_pristine_rc=$A suite_passed=$PASSN suite_failed_groups=$FAILN demo_patched_rc=$B" | tee -a $LOG
if [ $A -eq 0 ] && [ "$PASSN" = "215" ] && [ $FAILN -eq 0 ] && [ $B -ne 0 ]; then
  D=/verif/seeded/$ID-$X; mkdir -p $D; cp -r $SRC/patch.diff $SRC/demo $D/; cp $LOG $D/confirm.log
  python3 - <<PY
import json
m=json.load(open("$SRC/meta.json"))
m["confirmed_by_me"]={"demo_pristine_rc":$A,"suite_passed_with_patch":$PASSN,"demo_patched_rc":$B,"demo_cmd":"""$CMD""","demo_dest":"$DEST"}
json.dump(m,open("$D/meta.json","w"),indent=1)
PY
  echo CONFIRMED $ID-$X
else
  echo NOT-CONFIRMED $ID-$X
fi
