#!/bin/bash
# runs the repository's own suite on /repo's working tree; exit 0 iff 215 passed and 0 failed
cd /repo && out=$(CARGO_NET_OFFLINE=true cargo test --workspace --no-fail-fast --offline 2>&1)
p=$(echo "$out" | awk '/^test result/{p+=$4} END{print p+0}'); f=$(echo "$out" | awk '/^test result/{f+=$6} END{print f+0}')
echo "passed $p failed $f"
if [ "$p" = "215" ] && [ "$f" = "0" ]; then exit 0; fi
echo "$out" | grep -E "^test .* FAILED|^error" | head -20
git -C /repo clean -fdq crates >/dev/null 2>&1
exit 1
