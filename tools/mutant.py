#!/usr/bin/env python3
"""Apply a catalogue mutant (or a patch file) to /repo, run a check, revert. For framework self-testing only.
   tools/mutant.py M20a [C20] [--tier quick]    |   tools/mutant.py path/to/patch.diff C20
"""
import json, subprocess, sys, os
cat = {m["id"]: m for m in json.load(open("/verif/mutants/catalogue.json"))}
mid = sys.argv[1]
rest = sys.argv[2:]
def sh(*a, **k): return subprocess.run(*a, **k)
if sh(["git","-C","/repo","status","--porcelain","--untracked-files=no"],capture_output=True,text=True).stdout.strip():
    print("repo dirty; refusing"); sys.exit(3)
evidence_backup = {}
import glob
for f in glob.glob("/verif/evidence/*.json"): evidence_backup[f] = open(f).read()
try:
    if mid in cat:
        m = cat[mid]
        p = os.path.join("/repo", m["file"])
        s = open(p).read()
        if s.count(m["old"]) != 1:
            print("old text occurs", s.count(m["old"]), "times"); sys.exit(3)
        open(p,"w").write(s.replace(m["old"], m["new"]))
        prop = rest[0] if rest and not rest[0].startswith("-") else m["property"]
        extra = [a for a in rest if a != prop]
    else:
        r = sh(["git","-C","/repo","apply",os.path.abspath(mid)])
        if r.returncode: sys.exit(3)
        prop = rest[0]; extra = rest[1:]
    r = sh(["/verif/check", prop] + extra, capture_output=True, text=True)
    out = r.stdout
    lines = [l for l in out.splitlines() if l.startswith(("VIOLATION","KNOWN-FINDING"))]
    print(f"{mid} -> {prop} rc={r.returncode} violations={sum(l.startswith('VIOLATION') for l in lines)}")
    for l in lines[:6]: print("   ", l[:300])
    if r.returncode == 2: print(r.stderr[-2000:])
finally:
    sh(["git","-C","/repo","checkout","--","."]); sh(["git","-C","/repo","clean","-fdq","--","crates","packages"])
    # evidence is only ever what a run against the unchanged tree wrote
    for f, t in evidence_backup.items(): open(f, "w").write(t)
