#!/usr/bin/env python3
"""Markdown tables for DESIGN.md §12 from mutants/results/*.jsonl (latest record per (change, check) wins)."""
import json, glob, os, sys
recs = {}
allrecs = []
for f in glob.glob("/verif/mutants/results/*.jsonl"):
    for n, l in enumerate(open(f)):
        l = l.strip()
        if not l: continue
        r = json.loads(l)
        allrecs.append((r.get("ts", 0), n, r))
# the latest run of a (change, check) pair wins; records written before runs were time-stamped are oldest
for _, _, r in sorted(allrecs, key=lambda x: (x[0], x[1])):
    if True:
        if r.get("applied") is False:
            recs[(r["change"], "-")] = r
        else:
            recs[(r["change"], r["check"])] = r
            recs.pop((r["change"], "-"), None)
def key_of(first):
    if not first: return ""
    s = first[0]
    i = s.find("key=")
    return s[i+4:].split(" ")[0][:70] if i >= 0 else ""
seeded = sorted(d for d in os.listdir("/verif/seeded") if os.path.isdir(os.path.join("/verif/seeded", d)))
print("| change | property | what it needs (short) | caught by (quick tier) | first violation key |")
print("|---|---|---|---|---|")
caught = missed = 0
for s in seeded:
    mp = f"/verif/seeded/{s}/meta.json"
    if not os.path.exists(mp): continue
    m = json.load(open(mp))
    if m.get("status") == "retired":
        print(f"| {s} | {m['property']} | *retired*: {m['retired']['why'][:110]}… | - | - |"); continue
    rs = [(c, r) for (ch, c), r in recs.items() if ch == s]
    hits = [c for c, r in rs if r.get("violations", 0) > 0]
    needs = m.get("needs", "").replace("|", "/").replace("\n", " ")[:120]
    if hits:
        caught += 1
        k = key_of([r for c, r in rs if c == hits[0]][0].get("first"))
        print(f"| {s} | {m['property']} | {needs}… | {', '.join(hits)} | `{k}` |")
    elif rs:
        missed += 1
        print(f"| {s} | {m['property']} | {needs}… | **missed** | |")
    else:
        print(f"| {s} | {m['property']} | {needs}… | (not run) | |")
print(f"\nseeded changes caught: {caught}, missed: {missed}", file=sys.stderr)
cat = {m["id"]: m for m in json.load(open("/verif/mutants/catalogue.json"))}
print("\n| mutant | labelled | repo tests | caught by | note |")
print("|---|---|---|---|---|")
for mid, m in cat.items():
    rs = [(c, r) for (ch, c), r in recs.items() if ch == mid]
    hits = [c for c, r in rs if r.get("violations", 0) > 0]
    na = [r for c, r in rs if r.get("applied") is False]
    note = "does not apply any more (a fix: commit rewrote the site)" if na else ""
    print(f"| {mid} | {m['property']} | {m['repo_tests'][:22]} | {', '.join(hits) if hits else ('-' if na else ('**none**' if rs else '(not run)'))} | {note} |")
