#!/bin/bash
# reconfirm.sh [ID-x ...]: re-confirm seeded changes against /repo's CURRENT HEAD in one scratch worktree
# (/tmp/wt/ALL, removed at the end): demo passes pristine, with the patch the full suite is green and the demo fails.
set -u
ALL=/tmp/wt/ALL
mkdir -p /tmp/wt
git -C /repo worktree remove --force $ALL 2>/dev/null; rm -rf $ALL
git -C /repo worktree add --detach $ALL HEAD >/dev/null 2>&1 || exit 3
LIST="$@"; [ -z "$LIST" ] && LIST=$(ls /verif/seeded)
for S in $LIST; do
  ID=${S%-*}; X=${S#*-}
  [ -f /verif/seeded/$S/patch.diff ] || continue
  rm -rf /tmp/seeded-out/$ID/$X; mkdir -p /tmp/seeded-out/$ID; cp -r /verif/seeded/$S /tmp/seeded-out/$ID/$X
  ln -sfn $ALL /tmp/wt/$ID
  if ! git -C $ALL apply --check /verif/seeded/$S/patch.diff 2>/dev/null; then echo "DOES-NOT-APPLY $S"; continue; fi
  DEST=$(python3 -c "import json;print(json.load(open('/verif/seeded/$S/meta.json'))['confirmed_by_me']['demo_dest'])")
  CMD=$(python3 -c "import json;print(json.load(open('/verif/seeded/$S/meta.json'))['confirmed_by_me']['demo_cmd'])")
  CMD=${CMD//\/tmp\/wt\/$ID\/target/$ALL\/target}
  /verif/tools/confirm_seeded.sh $ID $X "$DEST" "$CMD" 2>&1 | tail -2
  rm -f /tmp/wt/$ID
done
git -C /repo worktree remove --force $ALL; rm -rf /tmp/seeded-out /tmp/wt
