#!/bin/bash
# adopt.sh <ID> <x> [<srcdir>]: confirm a candidate seeded change (default source /tmp/sa/<ID>/out/<x>) against /repo's HEAD
# in the shared scratch worktree /tmp/wt/ALL and, if confirmed, store it as /verif/seeded/<ID>-<x>/.
set -u
ID=$1; X=$2; SRC=${3:-/tmp/sa/$ID/out/$X}
ALL=/tmp/wt/ALL
mkdir -p /tmp/wt
if [ ! -d $ALL ]; then git -C /repo worktree prune; git -C /repo worktree add --detach $ALL HEAD >/dev/null 2>&1 || exit 3; fi
git -C $ALL checkout -q --detach $(git -C /repo rev-parse HEAD) 2>/dev/null
rm -rf /tmp/seeded-out/$ID/$X; mkdir -p /tmp/seeded-out/$ID; cp -r $SRC /tmp/seeded-out/$ID/$X
ln -sfn $ALL /tmp/wt/$ID
if ! git -C $ALL apply --check /tmp/seeded-out/$ID/$X/patch.diff; then echo "DOES-NOT-APPLY $ID-$X"; exit 1; fi
DEST=$(python3 -c "import json;m=json.load(open('/tmp/seeded-out/$ID/$X/meta.json'));print(m.get('demo_dest') or m.get('confirmed_by_me',{}).get('demo_dest','-'))")
CMD=$(python3 -c "import json;m=json.load(open('/tmp/seeded-out/$ID/$X/meta.json'));print(m.get('demo_cmd') or m.get('confirmed_by_me',{}).get('demo_cmd'))")
# candidates name their own scratch paths; run everything in the shared worktree
CMD=${CMD//\/tmp\/sa\/$ID\/repo/$ALL}; CMD=${CMD//\/tmp\/wt\/$ID\/target/$ALL\/target}; CMD=${CMD//\/tmp\/sa\/$ID\/out\/$X/\/tmp\/seeded-out\/$ID\/$X}
/verif/tools/confirm_seeded.sh $ID $X "$DEST" "$CMD" 2>&1 | tail -2
rm -f /tmp/wt/$ID
