//! C12 — runtime documents are the source operation plus exactly the fragments it needs.
//! C14 — declared exports match what the loader exports (second half of this file).
//!
//! R-GJS reads the graphql-js AST JSON embedded after `const X =` (loader JS, standalone .graphql.ts)
//! back into R-MODEL; it must equal [X] ++ the fragments transitively spread from X, each once.

use crate::c03::{subject_check, subject_schema};
use crate::explore::{Chooser, DistinctSet, ExploreCfg, explore, fnv};
use crate::gen_sem::*;
use crate::gql::*;
use crate::pipeline;
use crate::render::exec_text;
use crate::report::{Args as RunArgs, Reporter, Violation, stats_json};
use crate::rts::{Decl, parse_module};
use crate::util::catch;
use crate::valid_op;
use serde_json::{Value as J, json};
use std::collections::{BTreeMap, BTreeSet};
use std::path::PathBuf;
use std::sync::Mutex;
use std::sync::atomic::{AtomicU64, Ordering};
use std::time::Duration;

// ------------------------------------------------------------------ R-GJS

fn name_of(v: &J) -> Result<Name, String> {
    if v["kind"] != "Name" {
        return Err(format!("expected Name, found {}", v["kind"]));
    }
    Ok(nm(v["value"].as_str().ok_or("Name without value")?))
}
fn gjs_value(v: &J) -> Result<Value, String> {
    let p = P::default();
    Ok(match v["kind"].as_str().unwrap_or("") {
        "Variable" => Value::Var(p, name_of(&v["name"])?.s),
        "IntValue" => Value::Int(p, v["value"].as_str().ok_or("IntValue.value must be a string")?.to_string()),
        "FloatValue" => Value::Float(p, v["value"].as_str().ok_or("FloatValue.value must be a string")?.to_string()),
        "StringValue" => Value::Str(p, v["value"].as_str().ok_or("StringValue.value must be a string")?.to_string()),
        "BooleanValue" => Value::Bool(p, v["value"].as_bool().ok_or("BooleanValue.value must be a boolean")?),
        "NullValue" => Value::Null(p),
        "EnumValue" => Value::Enum(p, v["value"].as_str().ok_or("EnumValue.value")?.to_string()),
        "ListValue" => Value::List(p, v["values"].as_array().ok_or("ListValue.values")?.iter().map(gjs_value).collect::<Result<_, _>>()?),
        "ObjectValue" => {
            let mut fs = vec![];
            for f in v["fields"].as_array().ok_or("ObjectValue.fields")? {
                if f["kind"] != "ObjectField" {
                    return Err("ObjectValue.fields item is not an ObjectField".into());
                }
                fs.push((name_of(&f["name"])?, gjs_value(&f["value"])?));
            }
            Value::Obj(p, fs)
        }
        k => return Err(format!("unknown value kind {k:?}")),
    })
}
fn gjs_type(v: &J) -> Result<Ty, String> {
    Ok(match v["kind"].as_str().unwrap_or("") {
        "NamedType" => Ty::Named(name_of(&v["name"])?),
        "ListType" => Ty::list(gjs_type(&v["type"])?),
        "NonNullType" => Ty::nn(gjs_type(&v["type"])?),
        k => return Err(format!("unknown type kind {k:?}")),
    })
}
fn gjs_args(v: &J) -> Result<Option<Args>, String> {
    let Some(a) = v.as_array() else { return if v.is_null() { Ok(None) } else { Err("arguments must be an array".into()) } };
    if a.is_empty() {
        return Ok(None);
    }
    let mut items = vec![];
    for x in a {
        if x["kind"] != "Argument" {
            return Err("arguments item is not an Argument".into());
        }
        items.push((name_of(&x["name"])?, gjs_value(&x["value"])?));
    }
    Ok(Some(Args { p: P::default(), items }))
}
fn gjs_dirs(v: &J) -> Result<Vec<Dir>, String> {
    let Some(a) = v.as_array() else { return if v.is_null() { Ok(vec![]) } else { Err("directives must be an array".into()) } };
    let mut out = vec![];
    for d in a {
        if d["kind"] != "Directive" {
            return Err("directives item is not a Directive".into());
        }
        out.push(Dir { p: P::default(), name: name_of(&d["name"])?, args: gjs_args(&d["arguments"])? });
    }
    Ok(out)
}
fn gjs_selset(v: &J) -> Result<SelSet, String> {
    if v["kind"] != "SelectionSet" {
        return Err(format!("expected SelectionSet, found {}", v["kind"]));
    }
    let mut items = vec![];
    for s in v["selections"].as_array().ok_or("SelectionSet.selections")? {
        items.push(match s["kind"].as_str().unwrap_or("") {
            "Field" => Sel::Field {
                alias: if s["alias"].is_null() { None } else { Some(name_of(&s["alias"])?) },
                name: name_of(&s["name"])?,
                args: gjs_args(&s["arguments"])?,
                dirs: gjs_dirs(&s["directives"])?,
                sel: if s["selectionSet"].is_null() { None } else { Some(gjs_selset(&s["selectionSet"])?) },
            },
            "FragmentSpread" => Sel::Spread { p: P::default(), name: name_of(&s["name"])?, dirs: gjs_dirs(&s["directives"])? },
            "InlineFragment" => Sel::Inline {
                p: P::default(),
                cond: if s["typeCondition"].is_null() { None } else { Some(match gjs_type(&s["typeCondition"])? { Ty::Named(n) => n, _ => return Err("typeCondition must be a NamedType".into()) }) },
                dirs: gjs_dirs(&s["directives"])?,
                sel: gjs_selset(&s["selectionSet"])?,
            },
            k => return Err(format!("unknown selection kind {k:?}")),
        });
    }
    Ok(SelSet { p: P::default(), items })
}
pub fn gjs_document(v: &J) -> Result<ExecDoc, String> {
    if v["kind"] != "Document" {
        return Err(format!("expected Document, found {}", v["kind"]));
    }
    let mut defs = vec![];
    for d in v["definitions"].as_array().ok_or("Document.definitions")? {
        defs.push(match d["kind"].as_str().unwrap_or("") {
            "OperationDefinition" => {
                let kind = match d["operation"].as_str() {
                    Some("query") => OpKind::Query,
                    Some("mutation") => OpKind::Mutation,
                    Some("subscription") => OpKind::Subscription,
                    o => return Err(format!("bad operation {o:?}")),
                };
                let mut vars = vec![];
                for vd in d["variableDefinitions"].as_array().map(|a| a.as_slice()).unwrap_or(&[]) {
                    if vd["kind"] != "VariableDefinition" || vd["variable"]["kind"] != "Variable" {
                        return Err("bad VariableDefinition".into());
                    }
                    vars.push(VarDef {
                        p: P::default(),
                        name: name_of(&vd["variable"]["name"])?,
                        ty: gjs_type(&vd["type"])?,
                        default: if vd["defaultValue"].is_null() { None } else { Some(gjs_value(&vd["defaultValue"])?) },
                        dirs: gjs_dirs(&vd["directives"])?,
                    });
                }
                ExecDef::Op {
                    p: P::default(),
                    kind,
                    name: if d["name"].is_null() { None } else { Some(name_of(&d["name"])?) },
                    vars: if vars.is_empty() { None } else { Some((P::default(), vars)) },
                    dirs: gjs_dirs(&d["directives"])?,
                    sel: gjs_selset(&d["selectionSet"])?,
                }
            }
            "FragmentDefinition" => ExecDef::Frag {
                p: P::default(),
                name: name_of(&d["name"])?,
                cond: match gjs_type(&d["typeCondition"])? {
                    Ty::Named(n) => n,
                    _ => return Err("typeCondition must be a NamedType".into()),
                },
                dirs: gjs_dirs(&d["directives"])?,
                sel: gjs_selset(&d["selectionSet"])?,
            },
            k => return Err(format!("unknown definition kind {k:?}")),
        });
    }
    Ok(ExecDoc { defs })
}

// ------------------------------------------------------------------ expected documents

fn spreads(sel: &SelSet, out: &mut Vec<String>) {
    for s in &sel.items {
        match s {
            Sel::Field { sel: Some(x), .. } => spreads(x, out),
            Sel::Inline { sel: x, .. } => spreads(x, out),
            Sel::Spread { name, .. } => out.push(name.s.clone()),
            _ => {}
        }
    }
}

/// [X] ++ transitive closure of spreads (names), in discovery order
pub fn expected_for(doc: &ExecDoc, di: usize) -> (ExecDef, BTreeSet<String>) {
    let frags: BTreeMap<String, &SelSet> = doc
        .defs
        .iter()
        .filter_map(|d| match d {
            ExecDef::Frag { name, sel, .. } => Some((name.s.clone(), sel)),
            _ => None,
        })
        .collect();
    let (sel, me) = match &doc.defs[di] {
        ExecDef::Op { sel, .. } => (sel, None),
        ExecDef::Frag { name, sel, .. } => (sel, Some(name.s.clone())),
        _ => unreachable!(),
    };
    let mut need = BTreeSet::new();
    let mut stack = vec![];
    spreads(sel, &mut stack);
    while let Some(n) = stack.pop() {
        if Some(&n) == me.as_ref() || !need.insert(n.clone()) {
            continue;
        }
        if let Some(s) = frags.get(&n) {
            spreads(s, &mut stack);
        }
    }
    (doc.defs[di].clone(), need)
}

/// value-level constant declarations with an object initialiser, in order
pub fn const_documents(text: &str) -> Result<Vec<(String, J, bool)>, String> {
    let decls = parse_module(text)?;
    let mut out = vec![];
    for d in &decls {
        if let Decl::Const { name, init: Some(v), exported, .. } = d {
            out.push((name.clone(), v.clone(), *exported));
        }
    }
    Ok(out)
}

fn compare(doc: &ExecDoc, di: usize, got: &ExecDoc) -> Result<(), (String, String)> {
    let (want_first, want_frags) = expected_for(doc, di);
    let Some(first) = got.defs.first() else { return Err(("empty_document".into(), "the embedded document has no definitions".into())) };
    // ExecDef equality ignores positions
    if *first != want_first {
        let path = first_diff_path(&want_first, first);
        let comps: Vec<&str> = path.split('/').collect();
        let short = comps[comps.len().saturating_sub(2)..].join("/");
        return Err((format!("definition_differs:{short}"), format!("the first definition differs from the source at {path}")));
    }
    let mut seen = BTreeSet::new();
    for d in &got.defs[1..] {
        match d {
            ExecDef::Frag { name, .. } => {
                if !seen.insert(name.s.clone()) {
                    return Err(("fragment_twice".into(), format!("fragment {} is included twice", name.s)));
                }
                if !want_frags.contains(&name.s) {
                    return Err(("fragment_not_needed".into(), format!("fragment {} is included but not (transitively) spread", name.s)));
                }
                let src = doc.defs.iter().find(|x| matches!(x, ExecDef::Frag { name: n, .. } if n.s == name.s)).unwrap();
                if d != src {
                    let path = first_diff_path(src, d);
                    return Err(("fragment_differs".into(), format!("fragment {} differs from its source at {path}", name.s)));
                }
            }
            _ => return Err(("extra_operation".into(), "an additional operation is embedded".into())),
        }
    }
    if let Some(m) = want_frags.iter().find(|n| !seen.contains(*n)) {
        return Err(("fragment_missing".into(), format!("fragment {m} is spread (transitively) but not included")));
    }
    Ok(())
}

/// Exhaustive product over SEM_SCHEMA argument locations x variable type (as declared / non-null) x
/// default value (none, null, each literal form of the type) x directive on the definition.
/// Documents whose fragment closure is reached in an order that meets one fragment twice before a new one: every
/// ordered triple of spreads drawn from four fragments (two of which spread others) in one selection set, the same
/// split over two sibling fields, and under a fragment definition of its own.
pub fn fragment_closure_docs() -> Vec<String> {
    let defs = [
        ("P", "fragment P on User { id }\n"),
        ("C", "fragment C on User { name }\n"),
        ("N", "fragment N on User { age ...P }\n"),
        ("M", "fragment M on User { kind ...P ...C }\n"),
    ];
    let mut out = vec![];
    for a in 0..4 {
        for b in 0..4 {
            for c in 0..4 {
                let (x, y, z) = (defs[a].0, defs[b].0, defs[c].0);
                let bodies = [
                    format!("query Q {{ u {{ ...{x} ...{y} ...{z} }} }}\n"),
                    format!("query Q {{ u {{ ...{x} }} maybe {{ ...{y} ...{z} }} }}\n"),
                    format!("query Q {{ u {{ ...W }} }}\nfragment W on User {{ ...{x} best {{ ...{y} ...{z} }} }}\n"),
                ];
                for body in bodies {
                    // the definitions the document reaches (an unused fragment would make it invalid)
                    let mut need: Vec<&str> = vec![];
                    for n in [x, y, z] {
                        for m in match n { "N" => vec!["N", "P"], "M" => vec!["M", "P", "C"], o => vec![o] } {
                            if !need.contains(&m) {
                                need.push(m);
                            }
                        }
                    }
                    let mut t = body;
                    for (n, d) in defs {
                        if need.contains(&n) {
                            t.push_str(d);
                        }
                    }
                    out.push(t);
                }
            }
        }
    }
    out
}

pub fn var_matrix_docs() -> Vec<String> {
    // (selection using $v, location type, literal defaults of that type)
    let locs: [(&str, &str, &[&str]); 10] = [
        ("users(first: $v, ids: []) { id }", "Int", &["0", "-7"]),
        ("users(f: $v, ids: []) { id }", "Float", &["1.5", "2", "1e3"]),
        ("users(filter: $v, ids: []) { id }", "Filter", &["{req: true}", "{req: false, kind: B, name: \"n\", ids: [\"a\", 2], nested: {req: true, min: 3}}"]),
        ("users(kinds: $v, ids: []) { id }", "[Kind!]", &["[]", "[A, B]", "A"]),
        ("users(ids: $v) { id }", "[ID!]!", &["[]", "[\"x\", 1]"]),
        ("users(opt: $v, ids: []) { id }", "[String]", &["[null, \"s\"]", "\"single\"", "[\"a\\n\\\"q\\\" \\\\ é 😀\"]"]),
        ("users(mat: $v, ids: []) { id }", "[[Int]]", &["[[1, null], null, []]", "[[]]"]),
        ("users(at: $v, ids: []) { id }", "Stamp", &["\"2020\"", "12", "{a: 1}"]),
        ("node(id: $v) { id }", "ID!", &["\"id\"", "5"]),
        ("s @skip(if: $v)", "Boolean!", &["true", "false"]),
    ];
    let mut out = vec![];
    for (sel, ty, lits) in locs {
        let nullable = !ty.ends_with('!');
        let mut types = vec![ty.to_string()];
        if nullable {
            types.push(format!("{ty}!"));
        }
        for t in &types {
            let mut defaults: Vec<Option<String>> = vec![None];
            if !t.ends_with('!') {
                defaults.push(Some("null".into()));
            }
            defaults.extend(lits.iter().map(|l| Some(l.to_string())));
            for d in &defaults {
                for dirs in ["", " @tag(name: \"v\")", " @once @tag(name: \"a\") @tag(name: \"b\")"] {
                    let def = d.as_ref().map_or(String::new(), |d| format!(" = {d}"));
                    out.push(format!("query Q($v: {t}{def}{dirs}) {{ {sel} }}\n"));
                }
            }
        }
    }
    out
}

/// Small projects with imported fragments: (files [(path, text)], root first).
pub fn import_projects() -> Vec<Vec<(String, String)>> {
    let mut out = vec![];
    let main_imports = ["#import A from \"./lib/a.graphql\"\n", "#import * from \"./lib/a.graphql\"\n", "#import A, A2 from \"./lib/a.graphql\"\n", "#import A2 from \"./lib/a.graphql\"\n#import A from \"lib/../lib/a.graphql\"\n"];
    for mi in main_imports {
        for import_b in [false, true] {
            for a_spreads_b in [false, true] {
                for local in [false, true] {
                    for twice in [false, true] {
                        for mask in 0..8u8 {
                            let (sa, sb, sl) = (mask & 1 != 0, mask & 2 != 0, mask & 4 != 0);
                            if (sb && !import_b) || (sl && !local) {
                                continue;
                            }
                            let mut main = String::from(mi);
                            if import_b {
                                main.push_str("#import B from \"./lib/b.graphql\"\n");
                            }
                            let mut body = String::from("id");
                            if sa {
                                body.push_str(" ...A");
                            }
                            if sb {
                                body.push_str(" friends { ...B }");
                            }
                            if sl {
                                body.push_str(" ...L");
                            }
                            main.push_str(&format!("query Q {{ u {{ {body} }} }}\n"));
                            if twice {
                                // a second operation reaching the imported fragment through a nested selection
                                main.push_str("query R { users(ids: []) { best { ...A } } }\n");
                            }
                            if local {
                                main.push_str("fragment L on User { kind ...A }\n");
                            }
                            let a = format!("{}fragment A on User {{ name{} }}\nfragment A2 on User {{ age }}\n", if a_spreads_b { "#import B from \"./b.graphql\"\n" } else { "" }, if a_spreads_b { " best { ...B }" } else { "" });
                            let b = "fragment B on User { born }\nfragment Unused on User { id }\n".to_string();
                            out.push(vec![("/p/main.graphql".to_string(), main), ("/p/lib/a.graphql".to_string(), a), ("/p/lib/b.graphql".to_string(), b)]);
                        }
                    }
                }
            }
        }
    }
    out
}

/// Fragments the root (files[0]) imports, transitively: for every import line of every reached file the
/// named (or all) fragments of the file its path leads to from the importing file's directory.
/// None when a line names a missing file or fragment (not an accepted project).
pub fn ref_import_closure(files: &[(String, String)]) -> Option<Vec<ExecDef>> {
    let docs: Vec<ExecDoc> = files.iter().map(|f| crate::rparse::parse_exec(&f.1).ok()).collect::<Option<_>>()?;
    let mut out: Vec<ExecDef> = vec![];
    let mut taken: BTreeSet<(usize, String)> = BTreeSet::new();
    let mut visited: BTreeSet<usize> = BTreeSet::new();
    let mut stack = vec![0usize];
    while let Some(fi) = stack.pop() {
        if !visited.insert(fi) {
            continue;
        }
        let dir = files[fi].0.rsplit_once('/').map_or("", |x| x.0);
        for d in &docs[fi].defs {
            let ExecDef::Import { targets, path, .. } = d else { continue };
            let target = crate::cli::norm_path(&format!("{dir}/{}", path.1));
            let ti = files.iter().position(|f| f.0 == target)?;
            stack.push(ti);
            let frags: Vec<&ExecDef> = docs[ti].defs.iter().filter(|d| matches!(d, ExecDef::Frag { .. })).collect();
            let name_of = |d: &ExecDef| if let ExecDef::Frag { name, .. } = d { name.s.clone() } else { String::new() };
            for t in targets {
                match t {
                    None => {
                        for f in &frags {
                            if ti != 0 && taken.insert((ti, name_of(f))) {
                                out.push((*f).clone());
                            }
                        }
                    }
                    Some(n) => {
                        let f = frags.iter().find(|f| name_of(f) == n.s)?;
                        if ti != 0 && taken.insert((ti, n.s.clone())) {
                            out.push((*f).clone());
                        }
                    }
                }
            }
        }
    }
    Some(out)
}

/// the same specifier text in two directories: four-file projects
pub fn same_specifier_projects() -> Vec<Vec<(String, String)>> {
    let mut out = vec![];
    for card_first in [false, true] {
        for spelling in ["./shared.graphql", "shared.graphql"] {
            for wildcard in [false, true] {
                for root_takes_shared in [false, true] {
                    // the root takes `Local` (or `Shared` itself, then the nested file takes `Inner`) from ITS ./shared.graphql
                    let (root_name, nested_name) = if root_takes_shared { ("Shared", "Inner") } else { ("Local", "Shared") };
                    let l1 = format!("#import {root_name} from \"{spelling}\"\n");
                    let l2 = "#import Card from \"./card/card.graphql\"\n".to_string();
                    let main = format!("{}query Q {{ u {{ ...{root_name} friends {{ ...Card }} }} }}\n", if card_first { format!("{l2}{l1}") } else { format!("{l1}{l2}") });
                    let root_shared = "fragment Local on User { id }\nfragment Shared on User { name }\nfragment Inner on User { born }\n".to_string();
                    let card = format!("#import {} from \"{spelling}\"\nfragment Card on User {{ kind ...{nested_name} }}\n", if wildcard { "*" } else { nested_name });
                    let card_shared = if wildcard { format!("fragment {nested_name} on User {{ age }}\n") } else { "fragment Shared on User { age }\nfragment Inner on User { age kind }\nfragment Local on User { age id }\n".to_string() };
                    out.push(vec![("/p/main.graphql".to_string(), main), ("/p/shared.graphql".to_string(), root_shared), ("/p/card/card.graphql".to_string(), card), ("/p/card/shared.graphql".to_string(), card_shared)]);
                }
            }
        }
    }
    out
}

/// One file importing differently named fragments from same-named files in its own directory and in two ancestor
/// directories (every file defines every name, with different fields): the specifiers differ only in how far they climb.
pub fn climb_projects() -> Vec<Vec<(String, String)>> {
    let spellings = [("./frags.graphql", 0), ("frags.graphql", 0), ("../frags.graphql", 1), ("../../frags.graphql", 2)];
    let mut out = vec![];
    for (s1, f1) in spellings {
        for (s2, f2) in spellings {
            if f1 == f2 {
                continue;
            }
            for (n1, n2) in [("A", "B"), ("B", "A"), ("C", "A")] {
                let main = format!("#import {n1} from \"{s1}\"\n#import {n2} from \"{s2}\"\nquery Q {{ u {{ ...{n1} friends {{ ...{n2} }} }} }}\n");
                out.push(vec![
                    ("/p/src/admin/main.graphql".to_string(), main),
                    ("/p/src/admin/frags.graphql".to_string(), "fragment A on User { id }\nfragment B on User { age }\nfragment C on User { kind }\n".to_string()),
                    ("/p/src/frags.graphql".to_string(), "fragment A on User { name }\nfragment B on User { kind }\nfragment C on User { id }\n".to_string()),
                    ("/p/frags.graphql".to_string(), "fragment A on User { born }\nfragment B on User { id }\nfragment C on User { name }\n".to_string()),
                ]);
            }
        }
    }
    out
}

pub fn run(args: &RunArgs) -> i32 {
    let rep = Reporter::new("C12", &args.tier);
    crate::util::install_hook();
    let (_, sch) = sem_schema();
    let _ = subject_schema();
    let docs = AtomicU64::new(0);
    let checked = AtomicU64::new(0);
    let compared = AtomicU64::new(0);
    let distinct = DistinctSet::new();
    let pool = crate::worker::Pool::new("c12-loader", args.threads);
    let slot = std::sync::atomic::AtomicUsize::new(0);
    let sample: Mutex<Option<String>> = Mutex::new(None);
    let (dev, budget) = if args.quick() { (3, 50) } else { (4, 2400) };
    thread_local! { static SLOT: std::cell::Cell<usize> = const { std::cell::Cell::new(usize::MAX) }; }
    let matrix_docs = AtomicU64::new(0);
    let check_doc = |doc: ExecDoc, picks: Vec<u16>, deviations: usize| {
        let text = exec_text(&doc);
        if !distinct.insert(fnv(text.as_bytes())) {
            return;
        }
        docs.fetch_add(1, Ordering::Relaxed);
        if !valid_op::validate(&sch, &doc).is_empty() {
            return;
        }
        if !matches!(subject_check(&text), Ok(Ok(()))) {
            return;
        }
        checked.fetch_add(1, Ordering::Relaxed);
        if deviations == 3 {
            let mut s = sample.lock().unwrap();
            if s.is_none() {
                *s = Some(text.clone());
            }
        }
        let case = |route: &str, extra: J| json!({"text": text, "route": route, "picks": picks, "detail": extra});
        let s = subject_schema();
        let ops = vec![(PathBuf::from("/p/a.graphql"), text.clone())];
        // route 1: the JS printer (what the loaders emit); route 2: standalone .graphql.ts
        let outs = catch(|| {
            let loaded = pipeline::load_operations(&ops, 1).map_err(|f| format!("{:?}", f.diags))?;
            let js = pipeline::operation_js(&loaded[0].1, &pipeline::default_config());
            let mut cfg = crate::c01::config_with_date();
            cfg.generate.mode = nitrogql_config_file::GenerateMode::StandaloneTS4_0;
            let cfg = pipeline::via_config_text(&cfg);
            let ts = pipeline::operation_dts(&s.schema, &loaded[0].1, &cfg, "./schema.js").buffer;
            Ok::<_, String>((js, ts))
        });
        let (js, ts) = match outs {
            Err(p) => return rep.report(Violation { key: format!("panic@{}", p.key()), what: format!("panic at {}: {}", p.site, p.msg), case: case("printer", json!({})) }),
            Ok(Err(e)) => return rep.report(Violation { key: "machinery.load".into(), what: e, case: case("printer", json!({})) }),
            Ok(Ok(x)) => x,
        };
        // route 3: the loader ABI in a worker
        let my = SLOT.with(|x| {
            if x.get() == usize::MAX {
                x.set(slot.fetch_add(1, Ordering::Relaxed));
            }
            x.get()
        });
        let loader_js = match pool.ask(my, &json!({"text": text})) {
            crate::worker::Answer::Done(v) => v["js"].as_str().map(|s| s.to_string()),
            crate::worker::Answer::Died { panic, status } => {
                rep.report(Violation { key: "loader_trap".into(), what: format!("loader died: {panic:?} {status}"), case: case("loader", json!({})) });
                None
            }
        };
        let mut routes = vec![("js-printer", js), ("standalone-ts", ts)];
        if let Some(l) = loader_js {
            routes.push(("loader-abi", l));
        }
        for (route, out) in routes {
            let consts = match const_documents(&out) {
                Ok(c) => c,
                Err(e) => {
                    rep.report(Violation { key: format!("unreadable_output:{route}"), what: format!("cannot read the emitted module: {e}"), case: case(route, json!({"output": out})) });
                    continue;
                }
            };
            let ndefs = doc.defs.len();
            if consts.len() != ndefs {
                rep.report(Violation { key: format!("const_count:{route}"), what: format!("{} document constants for {ndefs} definitions", consts.len()), case: case(route, json!({"output": out})) });
                continue;
            }
            for (di, (cname, v, _)) in consts.iter().enumerate() {
                compared.fetch_add(1, Ordering::Relaxed);
                let r = gjs_document(v).map_err(|e| ("not_a_graphql_js_document".to_string(), e)).and_then(|g| compare(&doc, di, &g));
                if let Err((k, w)) = r {
                    rep.report(Violation { key: format!("{k}[{route}]"), what: format!("{cname}: {w}"), case: case(route, json!({"constant": cname, "json": v})) });
                }
            }
        }
    };
    let stats = explore(&ExploreCfg { max_dev: dev, threads: args.threads, budget: Duration::from_secs(budget) }, |c: &mut Chooser| {
        let mut doc = gen_doc(c, &sch, 2, true);
        // variable defaults and directives on variable definitions, every value kind
        if let ExecDef::Op { vars: Some((_, vs)), .. } = &mut doc.defs[0] {
            match c.choose("c12.var_extra", 3) {
                0 => {}
                1 => vs[0].dirs.push(dir("tag", vec![("name", Value::Str(P::default(), "a\n\"b\"\\ é 😀".into()))])),
                _ => {
                    if vs[0].default.is_none() && !vs[0].ty.is_nonnull() {
                        vs[0].default = Some(Value::Null(P::default()));
                    }
                }
            }
        }
        check_doc(doc, c.picks(), c.deviations());
    });
    // the variable-definition matrix: every (location, variable type, default, directive) combination
    let mut vm = var_matrix_docs();
    // fragment closures: a fragment met again (in a later sibling field, through another fragment, at an outer level)
    // followed in the same selection set by a fragment not met before
    vm.extend(fragment_closure_docs());
    crate::explore::par_for(vm.len(), args.threads, |i| {
        match crate::rparse::parse_exec(&vm[i]) {
            Ok(doc) => {
                matrix_docs.fetch_add(1, Ordering::Relaxed);
                check_doc(doc, vec![], 0);
            }
            Err(e) => rep.report(Violation { key: "machinery.var_matrix".into(), what: format!("R-PARSE cannot read {:?}: {e}", vm[i]), case: json!({}) }),
        }
    });
    // projects with imported fragments (in-process printers with imports resolved, and the loader's multi-file protocol)
    let import_cases = AtomicU64::new(0);
    let import_docs = AtomicU64::new(0);
    let mut projects = import_projects();
    projects.extend(same_specifier_projects());
    projects.extend(climb_projects());
    let own_js: Mutex<BTreeMap<usize, String>> = Mutex::new(BTreeMap::new());
    let interleaved: Mutex<BTreeMap<usize, String>> = Mutex::new(BTreeMap::new());
    crate::explore::par_for(projects.len(), args.threads, |i| {
        let files = &projects[i];
        let case = |route: &str, extra: J| json!({"files": files, "route": route, "detail": extra});
        // reference: the root's own definitions + the fragments its import lines (and those of every
        // file reached through them) name, each (file, name) once, as one document
        let mut combined = ExecDoc::default();
        let Ok(root_doc) = crate::rparse::parse_exec(&files[0].1) else { return };
        let own: Vec<ExecDef> = root_doc.defs.iter().filter(|d| !matches!(d, ExecDef::Import { .. })).cloned().collect();
        combined.defs.extend(own.iter().cloned());
        let Some(imported) = ref_import_closure(files) else { return };
        combined.defs.extend(imported);
        let s = subject_schema();
        let ops: Vec<(PathBuf, String)> = files.iter().map(|(p, t)| (PathBuf::from(p), t.clone())).collect();
        let outs = catch(|| {
            let loaded = pipeline::load_operations(&ops, 1).map_err(|f| format!("{:?}", f.diags))?;
            pipeline::check_operations(&s.schema, &loaded).map_err(|f| format!("rejected: {:?}", f.diags.iter().map(|d| d.kind.clone()).collect::<Vec<_>>()))?;
            let js = pipeline::operation_js(&loaded[0].1, &pipeline::default_config());
            let mut cfg = crate::c01::config_with_date();
            cfg.generate.mode = nitrogql_config_file::GenerateMode::StandaloneTS4_0;
            let cfg = pipeline::via_config_text(&cfg);
            let ts = pipeline::operation_dts(&s.schema, &loaded[0].1, &cfg, "./schema.js").buffer;
            Ok::<_, String>((js, ts))
        });
        let (js, ts) = match outs {
            Err(p) => return rep.report(Violation { key: format!("imports.panic@{}", p.key()), what: format!("panic at {}: {}", p.site, p.msg), case: case("printer", json!({})) }),
            Ok(Err(_)) => return, // not an accepted project (C13 / C04 own that)
            Ok(Ok(x)) => x,
        };
        import_cases.fetch_add(1, Ordering::Relaxed);
        let my = i;
        // the loader drives this project interleaved with the next one on the same task table (the next one's module is
        // cross-checked after the loop), supplying files by one of three strategies
        let partner = &projects[(i + 1) % projects.len()];
        let as_pairs = |fs: &Vec<(String, String)>| fs.iter().map(|(p, t)| json!([p, t])).collect::<Vec<_>>();
        let loader_js = match pool.ask(my, &json!({"text": "", "files": as_pairs(files), "other_files": as_pairs(partner), "strategy": i % 3})) {
            crate::worker::Answer::Done(v) => match v["js"].as_str() {
                Some(s) => {
                    if v["again_js"].as_str() != Some(s) {
                        rep.report(Violation { key: "imports.loader_second_task_differs".into(), what: "a second task for the same files, created after the first one was freed and while another task waited, emits a different module".into(), case: case("loader-abi", json!({"first": s, "again": v["again_js"]})) });
                    }
                    interleaved.lock().unwrap().insert((i + 1) % projects.len(), v["other_js"].as_str().unwrap_or("").to_string());
                    own_js.lock().unwrap().insert(i, s.to_string());
                    Some(s.to_string())
                }
                None => {
                    rep.report(Violation { key: "imports.loader_fails".into(), what: format!("the loader fails on a project the CLI pipeline accepts: {}", v["error"]), case: case("loader-abi", json!({})) });
                    None
                }
            },
            crate::worker::Answer::Died { panic, status } => {
                rep.report(Violation { key: "imports.loader_trap".into(), what: format!("loader died: {panic:?} {status}"), case: case("loader-abi", json!({})) });
                None
            }
        };
        let mut routes = vec![("js-printer", js), ("standalone-ts", ts)];
        if let Some(l) = loader_js {
            routes.push(("loader-abi", l));
        }
        for (route, out) in routes {
            let consts = match const_documents(&out) {
                Ok(c) => c,
                Err(e) => {
                    rep.report(Violation { key: format!("imports.unreadable_output:{route}"), what: format!("cannot read the emitted module: {e}"), case: case(route, json!({"output": out})) });
                    continue;
                }
            };
            // one constant per definition of the resolved document: the file's own definitions and the
            // imported fragments; each constant is identified by the definition its document starts with
            let ident = |d: &ExecDef| match d {
                ExecDef::Op { kind, name, .. } => format!("{} {}", kind.kw(), name.as_ref().map_or("", |n| n.s.as_str())),
                ExecDef::Frag { name, .. } => format!("fragment {}", name.s),
                _ => "import".into(),
            };
            let mut seen_defs = BTreeSet::new();
            for (cname, v, _) in consts.iter() {
                import_docs.fetch_add(1, Ordering::Relaxed);
                let g = match gjs_document(v) {
                    Ok(g) => g,
                    Err(e) => {
                        rep.report(Violation { key: format!("imports.not_a_graphql_js_document[{route}]"), what: format!("{cname}: {e}"), case: case(route, json!({"constant": cname, "json": v})) });
                        continue;
                    }
                };
                let Some(first) = g.defs.first() else {
                    rep.report(Violation { key: format!("imports.empty_document[{route}]"), what: format!("{cname}: no definitions"), case: case(route, json!({"constant": cname})) });
                    continue;
                };
                let id = ident(first);
                let Some(di) = combined.defs.iter().position(|d| ident(d) == id) else {
                    rep.report(Violation { key: format!("imports.constant_for_unknown_definition[{route}]"), what: format!("{cname} starts with `{id}`, which no file of the project defines"), case: case(route, json!({"constant": cname})) });
                    continue;
                };
                if !seen_defs.insert(id.clone()) {
                    rep.report(Violation { key: format!("imports.definition_emitted_twice[{route}]"), what: format!("two constants start with `{id}`"), case: case(route, json!({"output": out})) });
                }
                if let Err((k, w)) = compare(&combined, di, &g) {
                    rep.report(Violation { key: format!("imports.{k}[{route}]"), what: format!("{cname}: {w}"), case: case(route, json!({"constant": cname, "json": v})) });
                }
            }
            for d in &own {
                if !seen_defs.contains(&ident(d)) {
                    rep.report(Violation { key: format!("imports.definition_without_constant[{route}]"), what: format!("no constant for `{}` of the file itself", ident(d)), case: case(route, json!({"output": out})) });
                }
            }
        }
    });
    // the module a project's task emitted while it was the waiting task of its predecessor's request must be the module
    // it emits when driven first
    let mut interleaved_compared = 0u64;
    {
        let (own, inter) = (own_js.lock().unwrap(), interleaved.lock().unwrap());
        for (i, js) in inter.iter() {
            if let Some(mine) = own.get(i) {
                interleaved_compared += 1;
                if mine != js {
                    rep.report(Violation { key: "imports.loader_interleaved_task_differs".into(), what: "a task that waited for its files while another task was emitted and freed and a third one was created emits a module that differs from the one the same files give when driven alone".into(), case: json!({"files": projects[*i], "alone": mine, "interleaved": js}) });
                }
            }
        }
    }
    let cov = json!({
        "states": distinct.len(),
        "transitions": stats.choice_edges,
        "traces_validated_against_impl": compared.load(Ordering::Relaxed),
        "evaluations": docs.load(Ordering::Relaxed),
        "distinct_nontrivial": checked.load(Ordering::Relaxed),
        "rule": "E1 type-directed documents (with custom directives at every location, variable defaults/directives, every value kind), distinct by text; non-trivial = spec-valid and accepted; every embedded document constant of three routes (JS printer, standalone .graphql.ts, loader ABI) is read back by R-GJS and compared with [X] ++ spread closure",
        "exhaustive": true,
        "explorer": stats_json(&stats),
        "documents_checked": checked.load(Ordering::Relaxed),
        "variable_definition_matrix_documents": matrix_docs.load(Ordering::Relaxed),
        "import_projects": projects.len(),
        "import_projects_accepted_and_compared": import_cases.load(Ordering::Relaxed),
        "import_project_documents_compared": import_docs.load(Ordering::Relaxed),
        "loader_modules_of_interleaved_tasks_compared": interleaved_compared,
        "embedded_documents_compared": compared.load(Ordering::Relaxed),
        "samples": [sample.lock().unwrap().clone().unwrap_or_default()],
    });
    rep.finish(cov, vec!["R-GJS: independent reader of the graphql-js AST JSON shape; values compared verbatim, positions ignored, fragment order ignored".into(), "imported fragments: explicit enumeration of three-file projects (import forms x transitive import x local fragment x spread subsets x second operation) and of four-file projects in which two directories use the same specifier text for different files, judged against a reference import closure, through the printers with imports resolved and through the loader's multi-file protocol".into()])
}

/// worker: emit_js for a single-file task
pub fn child_loader() -> i32 {
    crate::worker::serve(|req| {
        let text = req["text"].as_str().unwrap_or("");
        let cfg = req["config"].as_str();
        let abi = |s: &str| {
            let p = graphql_loader::alloc_string(s.len());
            unsafe { std::ptr::copy_nonoverlapping(s.as_ptr(), p, s.len()) };
            (p, s.len())
        };
        let res = || unsafe { String::from_utf8_lossy(std::slice::from_raw_parts(graphql_loader::get_result_ptr(), graphql_loader::get_result_size())).into_owned() };
        let text = text.to_string();
        let cfg = cfg.map(|s| s.to_string());
        // multi-file request: [[path, text], ...], the first one is the root
        let pairs = |v: &J| -> Vec<(String, String)> { v.as_array().map(|a| a.iter().map(|f| (f[0].as_str().unwrap_or("").to_string(), f[1].as_str().unwrap_or("").to_string())).collect()).unwrap_or_default() };
        let files: Vec<(String, String)> = pairs(&req["files"]);
        let other_files: Vec<(String, String)> = pairs(&req["other_files"]);
        let strategy_of_request = req["strategy"].as_u64().unwrap_or(0);
        // One loader instance serves every request of this worker, as one wasm instance serves a whole build: the
        // configuration is (re)loaded per request, tasks come and go, and whatever the loader keeps between calls
        // (thread-locals) is carried from module to module.
        (move || {
            {
                let c = cfg.unwrap_or_else(|| "schema: ./schema.graphql\n".to_string());
                let (p, l) = abi(&c);
                let ok = graphql_loader::load_config(p, l);
                unsafe { graphql_loader::free_string(p, l) };
                if !ok {
                    return json!({"config_error": true});
                }
            }
            let initiate = |files: &[(String, String)], text: &str| -> Result<usize, String> {
                let root = files.first().map(|f| f.0.clone()).unwrap_or_else(|| "/p/a.graphql".to_string());
                let root_text = files.first().map(|f| f.1.clone()).unwrap_or(text.to_string());
                let (fp, fl) = abi(&root);
                let (sp, sl) = abi(&root_text);
                let id = graphql_loader::initiate_task(fp, fl, sp, sl);
                unsafe {
                    graphql_loader::free_string(fp, fl);
                    graphql_loader::free_string(sp, sl);
                }
                if id == 0 { Err(res()) } else { Ok(id) }
            };
            // the bundler loaders' protocol: supply the files the task asks for until it asks for none.
            // strategy 0: everything it asks for per round; 1: one file per round; 2: ask twice, then one file per round
            let feed = |id: usize, files: &[(String, String)], strategy: u64| -> Result<(), String> {
                for _ in 0..32 {
                    if !graphql_loader::get_required_files(id) {
                        return Err(res());
                    }
                    if strategy == 2 && !graphql_loader::get_required_files(id) {
                        return Err(res());
                    }
                    let mut wanted: Vec<String> = res().split('\n').filter(|s| !s.is_empty()).map(|s| s.to_string()).collect();
                    if wanted.is_empty() {
                        return Ok(());
                    }
                    if strategy != 0 {
                        wanted.truncate(1);
                    }
                    for w in wanted {
                        let Some((_, t)) = files.iter().find(|f| f.0 == w) else {
                            return Err(format!("the loader asks for {w}, which the project does not have"));
                        };
                        let (fp, fl) = abi(&w);
                        let (sp, sl) = abi(t);
                        let ok = graphql_loader::load_file(id, fp, fl, sp, sl);
                        unsafe {
                            graphql_loader::free_string(fp, fl);
                            graphql_loader::free_string(sp, sl);
                        }
                        if !ok {
                            return Err(res());
                        }
                    }
                }
                Err("the task still asks for files after 32 rounds".into())
            };
            let emit = |id: usize| -> Result<String, String> {
                let ok = graphql_loader::emit_js(id);
                let out = res();
                if ok { Ok(out) } else { Err(out) }
            };
            let strategy = strategy_of_request;
            if other_files.is_empty() {
                let id = match initiate(&files, &text) {
                    Ok(i) => i,
                    Err(e) => return json!({"error": e}),
                };
                let r = feed(id, &files, strategy).and_then(|_| emit(id));
                graphql_loader::free_task(id);
                return match r {
                    Ok(js) => json!({"js": js}),
                    Err(e) => json!({"error": e}),
                };
            }
            // two projects interleaved on one task table: the first is emitted and freed while the second still
            // waits for its files, then a third task (the first project again) is created before the second emits
            let run = || -> Result<(String, String, String), String> {
                let t1 = initiate(&files, &text)?;
                let t2 = initiate(&other_files, &text)?;
                feed(t1, &files, strategy)?;
                let js1 = emit(t1)?;
                graphql_loader::free_task(t1);
                let t3 = initiate(&files, &text)?;
                feed(t2, &other_files, strategy)?;
                let js2 = emit(t2)?;
                feed(t3, &files, strategy)?;
                let js3 = emit(t3)?;
                graphql_loader::free_task(t2);
                graphql_loader::free_task(t3);
                Ok((js1, js2, js3))
            };
            match run() {
                Ok((a, b, c)) => json!({"js": a, "other_js": b, "again_js": c}),
                Err(e) => json!({"error": e}),
            }
        })()
    })
}

pub fn replay(case: &J) -> i32 {
    println!("{}\nroute: {}\n{}", case["text"].as_str().unwrap_or(""), case["route"], serde_json::to_string_pretty(&case["detail"]).unwrap_or_default());
    0
}
