//! R-EXEC — abstract executor: spec CollectFields / MergeSelectionSets / CompleteValue over
//! *data choices* (concrete type per abstract position, null per nullable position, list length,
//! enum member), producing abstract JSON. Choices come from a Chooser so that the data space is
//! explored with the same deviation-bounded explorer as inputs.

use crate::explore::Chooser;
use crate::gql::*;
use crate::rts::Val;
use crate::schema::Sch;
use std::collections::{BTreeMap, BTreeSet};

pub struct Exec<'a> {
    pub sch: &'a Sch,
    pub frags: BTreeMap<String, (&'a Name, &'a SelSet)>,
    /// values of Boolean variables
    pub sigma: BTreeMap<String, bool>,
    /// representative value per custom scalar name (output side)
    pub scalars: BTreeMap<String, Val>,
}

pub fn frag_map(doc: &ExecDoc) -> BTreeMap<String, (&Name, &SelSet)> {
    let mut m = BTreeMap::new();
    for d in &doc.defs {
        if let ExecDef::Frag { name, cond, sel, .. } = d {
            m.insert(name.s.clone(), (cond, sel));
        }
    }
    m
}

/// Boolean variables used in @skip/@include anywhere in the document
pub fn bool_vars(doc: &ExecDoc) -> Vec<String> {
    fn dirs(ds: &[Dir], out: &mut BTreeSet<String>) {
        for d in ds {
            if (d.name.s == "skip" || d.name.s == "include")
                && let Some(a) = &d.args
            {
                for (k, v) in &a.items {
                    if k.s == "if"
                        && let Value::Var(_, n) = v
                    {
                        out.insert(n.clone());
                    }
                }
            }
        }
    }
    fn sel(s: &SelSet, out: &mut BTreeSet<String>) {
        for it in &s.items {
            match it {
                Sel::Field { dirs: d, sel: sub, .. } => {
                    dirs(d, out);
                    if let Some(x) = sub {
                        sel(x, out);
                    }
                }
                Sel::Spread { dirs: d, .. } => dirs(d, out),
                Sel::Inline { dirs: d, sel: x, .. } => {
                    dirs(d, out);
                    sel(x, out);
                }
            }
        }
    }
    let mut out = BTreeSet::new();
    for d in &doc.defs {
        match d {
            ExecDef::Op { sel: s, .. } | ExecDef::Frag { sel: s, .. } => sel(s, &mut out),
            _ => {}
        }
    }
    out.into_iter().collect()
}

impl<'a> Exec<'a> {
    fn included(&self, dirs: &[Dir]) -> bool {
        for d in dirs {
            let arg = d.args.as_ref().and_then(|a| a.items.iter().find(|(k, _)| k.s == "if")).map(|(_, v)| v);
            let val = match arg {
                Some(Value::Bool(_, b)) => *b,
                Some(Value::Var(_, n)) => *self.sigma.get(n).unwrap_or(&false),
                _ => continue,
            };
            if d.name.s == "skip" && val {
                return false;
            }
            if d.name.s == "include" && !val {
                return false;
            }
        }
        true
    }

    /// spec CollectFields: response key -> fields (in order of first appearance)
    pub fn collect_fields(&self, object: &str, sel: &'a SelSet, visited: &mut BTreeSet<String>, out: &mut Vec<(String, Vec<&'a Sel>)>) {
        for s in &sel.items {
            match s {
                Sel::Field { alias, name, dirs, .. } => {
                    if !self.included(dirs) {
                        continue;
                    }
                    let key = alias.as_ref().unwrap_or(name).s.clone();
                    match out.iter_mut().find(|(k, _)| *k == key) {
                        Some((_, v)) => v.push(s),
                        None => out.push((key, vec![s])),
                    }
                }
                Sel::Spread { name, dirs, .. } => {
                    if !self.included(dirs) || !visited.insert(name.s.clone()) {
                        continue;
                    }
                    if let Some((cond, fsel)) = self.frags.get(&name.s)
                        && self.sch.type_applies(object, &cond.s)
                    {
                        self.collect_fields(object, fsel, visited, out);
                    }
                }
                Sel::Inline { cond, dirs, sel: isel, .. } => {
                    if !self.included(dirs) {
                        continue;
                    }
                    if cond.as_ref().is_none_or(|c| self.sch.type_applies(object, &c.s)) {
                        self.collect_fields(object, isel, visited, out);
                    }
                }
            }
        }
    }

    /// ExecuteSelectionSet on an object of concrete type `object`
    pub fn execute(&self, c: &mut Chooser, object: &str, sels: &[&'a SelSet]) -> Val {
        let mut grouped: Vec<(String, Vec<&'a Sel>)> = vec![];
        let mut visited = BTreeSet::new();
        for s in sels {
            self.collect_fields(object, s, &mut visited, &mut grouped);
        }
        let mut rec = BTreeMap::new();
        for (key, fields) in grouped {
            let Sel::Field { name, .. } = fields[0] else { unreachable!() };
            let v = if name.s == "__typename" {
                Val::Str(object.to_string())
            } else {
                match self.sch.field(object, &name.s) {
                    Some(fd) => {
                        let ty = fd.ty.clone();
                        let subs: Vec<&'a SelSet> = fields
                            .iter()
                            .filter_map(|f| match f {
                                Sel::Field { sel: Some(s), .. } => Some(s),
                                _ => None,
                            })
                            .collect();
                        self.complete(c, &ty, &subs)
                    }
                    None => continue, // invalid documents are not executed by callers
                }
            };
            rec.insert(key, v);
        }
        Val::Rec(rec)
    }

    fn complete(&self, c: &mut Chooser, ty: &Ty, subs: &[&'a SelSet]) -> Val {
        match ty {
            Ty::NonNull(inner) => self.complete_inner(c, inner, subs),
            other => {
                if c.flag("data.null") {
                    Val::Null
                } else {
                    self.complete_inner(c, other, subs)
                }
            }
        }
    }
    fn complete_inner(&self, c: &mut Chooser, ty: &Ty, subs: &[&'a SelSet]) -> Val {
        match ty {
            Ty::NonNull(inner) => self.complete_inner(c, inner, subs),
            Ty::List(_, item) => {
                let n = [1usize, 0, 2][c.choose("data.len", 3)];
                Val::List((0..n).map(|_| self.complete(c, item, subs)).collect())
            }
            Ty::Named(n) => match self.sch.kind(&n.s) {
                Some(TsKind::Enum) => {
                    let vals = &self.sch.types[&n.s].values;
                    Val::Str(vals[c.choose("data.enum", vals.len())].name.s.clone())
                }
                Some(TsKind::Object | TsKind::Interface | TsKind::Union) => {
                    let poss = self.sch.possible_types(&n.s);
                    if poss.is_empty() {
                        return Val::Null;
                    }
                    let obj = poss[c.choose("data.type", poss.len())].clone();
                    self.execute(c, &obj, subs)
                }
                _ => match n.s.as_str() {
                    "Int" | "Float" => Val::Num,
                    "Boolean" => Val::Bool(true),
                    "String" | "ID" => Val::Str("§".into()),
                    other => self.scalars.get(other).cloned().unwrap_or(Val::Str("§".into())),
                },
            },
        }
    }
}
