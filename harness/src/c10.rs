//! C10 — schema and resolver declaration files describe exactly the schema.
//!
//! E1 over schema variations (C05's valid-variation generator: every kind/relation, hostile
//! descriptions, splits) x scalar configurations (single / send-receive / separate / directive,
//! name clashes between schema types and identifiers of scalar mappings) x options. Oracles:
//! (i) both emitted files parse under the emitted-subset TypeScript grammar; (ii) for every type and
//! each of the four targets the exported alias denotes exactly the reference type; (iii) the
//! Resolvers type has exactly one resolver per object field with reference argument and result
//! types, and a type resolver per abstract type over exactly its possible types.

use crate::c05;
use crate::explore::{Chooser, DistinctSet, ExploreCfg, explore, fnv};
use crate::gql::*;
use crate::pipeline;
use crate::refts::*;
use crate::refts::ModelUse;
use crate::render::ts_text;
use crate::report::{Args as RunArgs, Reporter, Violation, stats_json};
use crate::rts::{Decl, T, Te, World, parse_module, show_t};
use crate::schema::Sch;
use crate::util::catch;
use crate::valid_ts;
use nitrogql_config_file::{Config, ScalarTypeConfig, SendReceiveScalarTypeConfig, SeparateScalarTypeConfig};
use serde_json::{Value as J, json};
use std::collections::{BTreeMap, BTreeSet};
use std::sync::Mutex;
use std::sync::atomic::{AtomicU64, Ordering};
use std::time::Duration;

pub struct Case {
    pub model: Option<ModelUse>,
    pub files: Vec<TsDoc>,
    pub scalars: BTreeMap<String, [String; 4]>,
    /// the intended configuration (read by the reference)
    pub cfg: Config,
    /// the same configuration rendered as configuration-file text and read back by the subject's parse_config
    pub subject_cfg: Config,
    /// plugin names in configuration order
    pub plugins: Vec<&'static str>,
    /// what the scalars plugin is told about a scalar of a JavaScript schema
    pub scalar_ext: Option<(String, serde_yaml::Value)>,
    /// how the plugin hears of it: 0 one module; 1 a second module without scalars follows; 2 one precedes; 3 the module is reported twice
    pub plugin_calls: usize,
    pub tags: Vec<String>,
}

fn builtin_scalars() -> BTreeMap<String, [String; 4]> {
    let mut m = BTreeMap::new();
    let four = |s: &str| [s.to_string(), s.to_string(), s.to_string(), s.to_string()];
    m.insert("Int".into(), four("number"));
    m.insert("Float".into(), four("number"));
    m.insert("String".into(), four("string"));
    m.insert("Boolean".into(), four("boolean"));
    // send = operation input / resolver output; receive = operation output / resolver input
    m.insert("ID".into(), ["string | number".into(), "string".into(), "string".into(), "string | number".into()]);
    m
}

pub fn gen_case(c: &mut Chooser) -> Case {
    let base = c05::gen_valid(c);
    let mut files = base.files;
    let mut tags = base.tags;
    let mut scalars = builtin_scalars();
    let mut cfg = pipeline::default_config();
    let four = |s: &str| [s.to_string(), s.to_string(), s.to_string(), s.to_string()];
    // scalars that structural additions of the base generator bring along
    for f in &files {
        for d in f.defs.iter().filter(|d| d.kind == TsKind::Scalar && !d.ext && !["Version", "Int", "Float", "String", "Boolean", "ID"].contains(&d.name_str())) {
            cfg.generate.r#type.scalar_types.insert(d.name_str().to_string(), ScalarTypeConfig::Single("string".into()));
            scalars.insert(d.name_str().to_string(), four("string"));
        }
    }
    // the base schema's `scalar Version`
    let mut scalar_ext: Option<(String, serde_yaml::Value)> = None;
    let mut plugin_calls = 0;
    match c.choose("scalar.Version", 6) {
        5 => {
            // through the graphql-scalars plugin: the scalar's JavaScript definition carries `codegenScalarType`
            let (y, t): (&str, [&str; 4]) = match c.choose("scalar.plugin-form", 4) {
                0 => ("\"string\"", ["string", "string", "string", "string"]),
                1 => ("{send: \"string | number\", receive: \"bigint\"}", ["string | number", "bigint", "bigint", "string | number"]),
                // graphql-codegen's spelling, read like send / receive
                2 => ("{input: \"PI\", output: \"PO\"}", ["PI", "PO", "PO", "PI"]),
                _ => ("{resolverInput: \"RI\", resolverOutput: \"RO\", operationInput: \"OI\", operationOutput: \"OO\"}", ["OI", "OO", "RI", "RO"]),
            };
            scalar_ext = Some(("Version".to_string(), serde_yaml::from_str(y).unwrap()));
            scalars.insert("Version".into(), [t[0].to_string(), t[1].to_string(), t[2].to_string(), t[3].to_string()]);
            tags.push("scalar-by-plugin".into());
            plugin_calls = c.choose("scalar.plugin-calls", 4);
        }
        0 => {
            cfg.generate.r#type.scalar_types.insert("Version".into(), ScalarTypeConfig::Single("string".into()));
            scalars.insert("Version".into(), four("string"));
        }
        1 => {
            cfg.generate.r#type.scalar_types.insert("Version".into(), ScalarTypeConfig::SendReceive(SendReceiveScalarTypeConfig { send: "string | number".into(), receive: "bigint".into() }));
            scalars.insert("Version".into(), ["string | number".into(), "bigint".into(), "bigint".into(), "string | number".into()]);
        }
        2 => {
            cfg.generate.r#type.scalar_types.insert(
                "Version".into(),
                ScalarTypeConfig::Separate(SeparateScalarTypeConfig { operation_input: "OI".into(), operation_output: "OO".into(), resolver_input: "RI".into(), resolver_output: "RO".into() }),
            );
            scalars.insert("Version".into(), ["OI".into(), "OO".into(), "RI".into(), "RO".into()]);
        }
        k @ 4 => {
            // both a directive on the scalar and a scalarTypes entry: the configuration option takes
            // precedence (documented in the printer: "scalarTypes option takes precedence")
            let d = files.iter_mut().flat_map(|f| f.defs.iter_mut()).find(|d| d.kind == TsKind::Scalar && d.name_str() == "Version" && !d.ext);
            if let Some(d) = d {
                d.dirs.push(dir(
                    "nitrogql_ts_type",
                    vec![
                        ("resolverInput", Value::Str(P::default(), "DRI".into())),
                        ("resolverOutput", Value::Str(P::default(), "DRO".into())),
                        ("operationInput", Value::Str(P::default(), "DOI".into())),
                        ("operationOutput", Value::Str(P::default(), "DOO".into())),
                    ],
                ));
            }
            if k == 4 {
                cfg.generate.r#type.scalar_types.insert("Version".into(), ScalarTypeConfig::Single("string".into()));
                scalars.insert("Version".into(), four("string"));
            } else {
                cfg.generate.r#type.scalar_types.insert("Version".into(), ScalarTypeConfig::SendReceive(SendReceiveScalarTypeConfig { send: "string | number".into(), receive: "bigint".into() }));
                scalars.insert("Version".into(), ["string | number".into(), "bigint".into(), "bigint".into(), "string | number".into()]);
            }
            tags.push("scalar-by-directive-and-config".into());
        }
        _ => {
            // through the directive; the config has no entry
            let d = files.iter_mut().flat_map(|f| f.defs.iter_mut()).find(|d| d.kind == TsKind::Scalar && d.name_str() == "Version" && !d.ext);
            if let Some(d) = d {
                d.dirs.push(dir(
                    "nitrogql_ts_type",
                    vec![
                        ("resolverInput", Value::Str(P::default(), "RI".into())),
                        ("resolverOutput", Value::Str(P::default(), "RO".into())),
                        ("operationInput", Value::Str(P::default(), "OI".into())),
                        ("operationOutput", Value::Str(P::default(), "OO".into())),
                    ],
                ));
            }
            scalars.insert("Version".into(), ["OI".into(), "OO".into(), "RI".into(), "RO".into()]);
            tags.push("scalar-by-directive".into());
        }
    }
    // name clashes between schema type names and identifiers used in scalar mappings
    // schema types named like identifiers the generated files use themselves (type parameters, helper aliases,
    // imports), like TypeScript's predefined type names, or like reserved words
    const HELPER_NAMES: [&str; 14] = ["Context", "Schema", "Omit", "Promise", "Resolvers", "ResolverOutput", "GraphQLResolveInfo", "Pick", "Parent", "string", "object", "never", "class", "delete"];
    match c.choose("clash", 5 + HELPER_NAMES.len()) {
        k if k >= 5 => {
            let n = HELPER_NAMES[k - 5];
            let mut f = TsDef::new(TsKind::Object, Some(n));
            f.fields = vec![FieldDef { desc: None, name: nm("x"), args: None, ty: Ty::named("Int"), dirs: vec![] }, FieldDef { desc: None, name: nm("self"), args: None, ty: Ty::named(n), dirs: vec![] }];
            files[0].defs.push(f);
            add_field(&mut files, "Post", "helper", Ty::named(n));
            tags.push(format!("clash:type-named-{n}"));
        }
        0 => {}
        1 => {
            // scalar Date mapped to the global Date
            let mut d = TsDef::new(TsKind::Scalar, Some("Date"));
            d.desc = None;
            files[0].defs.push(d);
            add_field(&mut files, "Post", "at", Ty::named("Date"));
            cfg.generate.r#type.scalar_types.insert("Date".into(), ScalarTypeConfig::Single("Date".into()));
            scalars.insert("Date".into(), four("Date"));
            tags.push("clash:scalar-named-like-its-ts-type".into());
        }
        2 => {
            // scalar Upload mapped to File, and an object type called File
            files[0].defs.push(TsDef::new(TsKind::Scalar, Some("Upload")));
            let mut f = TsDef::new(TsKind::Object, Some("File"));
            f.fields = vec![FieldDef { desc: None, name: nm("size"), args: None, ty: Ty::named("Int"), dirs: vec![] }];
            files[0].defs.push(f);
            add_field(&mut files, "Post", "upload", Ty::named("Upload"));
            add_field(&mut files, "Post", "file", Ty::named("File"));
            cfg.generate.r#type.scalar_types.insert("Upload".into(), ScalarTypeConfig::Single("File".into()));
            scalars.insert("Upload".into(), four("File"));
            tags.push("clash:object-named-like-a-scalar-ts-type".into());
        }
        3 => {
            // an enum and an input object whose names occur in a scalar mapping
            files[0].defs.push(TsDef::new(TsKind::Scalar, Some("Json")));
            let mut e = TsDef::new(TsKind::Enum, Some("Record"));
            e.values = vec![EnumValDef { desc: None, name: nm("R1"), dirs: vec![] }];
            files[0].defs.push(e);
            add_field(&mut files, "Post", "json", Ty::named("Json"));
            add_field(&mut files, "Post", "rec", Ty::named("Record"));
            cfg.generate.r#type.scalar_types.insert("Json".into(), ScalarTypeConfig::Single("Record<string, unknown>".into()));
            scalars.insert("Json".into(), four("Record<string, unknown>"));
            tags.push("clash:enum-named-like-a-scalar-ts-type".into());
        }
        _ => {
            // a built-in scalar name used by another scalar's mapping: scalar Str2 = "String" where String is the schema scalar
            files[0].defs.push(TsDef::new(TsKind::Scalar, Some("Wrapped")));
            add_field(&mut files, "Post", "w", Ty::named("Wrapped"));
            cfg.generate.r#type.scalar_types.insert("Wrapped".into(), ScalarTypeConfig::Single("String".into()));
            scalars.insert("Wrapped".into(), four("String"));
            tags.push("clash:mapping-mentions-builtin-scalar-name".into());
        }
    }
    if c.flag("opt.allowUndefinedAsOptionalInput=false") {
        cfg.generate.r#type.allow_undefined_as_optional_input = false;
        tags.push("optional-input-off".into());
    }
    if c.flag("opt.emitSchemaRuntime") {
        cfg.generate.emit_schema_runtime = true;
    }
    match c.choose("deprecation", 3) {
        0 => {}
        1 => {
            add_field_dir(&mut files, "Post", "title", dir("deprecated", vec![]));
        }
        _ => {
            add_field_dir(&mut files, "Post", "title", dir("deprecated", vec![("reason", Value::Str(P::default(), "use */ `x` ${y} \"z\"\nnext".into()))]));
            tags.push("hostile-deprecation-reason".into());
        }
    }
    // the model plugin (resolver side only): @model on fields of one object type, or on a whole object type
    let model = match c.choose("plugin.model", 4) {
        0 => None,
        k => {
            let mut m = ModelUse::default();
            let mut d = TsDef::new(TsKind::Directive, Some("model"));
            d.locations = vec![nm("OBJECT"), nm("FIELD_DEFINITION")];
            d.dir_args = Some(vec![InputValueDef { desc: None, p: P::default(), name: nm("type"), ty: Ty::named("String"), default: None, dirs: vec![] }]);
            files[0].defs.push(d);
            if k >= 2 {
                add_field_dir(&mut files, "Post", "id", dir("model", vec![]));
                add_field_dir(&mut files, "Post", "author", dir("model", vec![]));
                m.fields.insert("Post".into(), vec!["id".into(), "author".into()]);
            }
            if k == 3 {
                for f in files.iter_mut() {
                    if let Some(d) = f.defs.iter_mut().find(|d| d.name_str() == "User" && d.kind == TsKind::Object && !d.ext) {
                        d.dirs.push(dir("model", vec![("type", Value::Str(P::default(), "ModelUser".into()))]));
                    }
                }
                m.object_types.insert("User".into(), "ModelUser".into());
            }
            tags.push(format!("model-plugin:{k}"));
            Some(m)
        }
    };
    // the plugin list: the model plugin alone, or together with a plugin that has nothing to say about
    // this schema, in either order
    let plugins: Vec<&'static str> = if model.is_some() {
        match c.choose("plugin.list", 3) {
            0 => vec!["nitrogql:model-plugin"],
            1 => {
                tags.push("plugins:model,scalars".into());
                vec!["nitrogql:model-plugin", "nitrogql:graphql-scalars-plugin"]
            }
            _ => {
                tags.push("plugins:scalars,model".into());
                vec!["nitrogql:graphql-scalars-plugin", "nitrogql:model-plugin"]
            }
        }
    } else {
        vec![]
    };
    let mut plugins = plugins;
    if scalar_ext.is_some() && !plugins.contains(&"nitrogql:graphql-scalars-plugin") {
        plugins.insert(0, "nitrogql:graphql-scalars-plugin");
    }
    let subject_cfg = pipeline::via_config_text(&cfg);
    Case { model, files, scalars, cfg, subject_cfg, plugins, scalar_ext, plugin_calls, tags }
}

fn add_field(files: &mut [TsDoc], ty: &str, name: &str, t: Ty) {
    for f in files.iter_mut() {
        if let Some(d) = f.defs.iter_mut().find(|d| d.name_str() == ty && d.kind == TsKind::Object && !d.ext) {
            d.fields.push(FieldDef { desc: None, name: nm(name), args: None, ty: t, dirs: vec![] });
            return;
        }
    }
}
fn add_field_dir(files: &mut [TsDoc], ty: &str, field: &str, dr: Dir) {
    for f in files.iter_mut() {
        for d in f.defs.iter_mut().filter(|d| d.name_str() == ty) {
            if let Some(fl) = d.fields.iter_mut().find(|x| x.name.s == field) {
                fl.dirs.push(dr);
                return;
            }
        }
    }
}

struct Cnt {
    cases: AtomicU64,
    checked: AtomicU64,
    aliases: AtomicU64,
    resolvers: AtomicU64,
    skipped: Mutex<BTreeMap<String, u64>>,
}

fn check_case(rep: &Reporter, case: &Case, texts: &[String], c: &Chooser, cnt: &Cnt) {
    // a schema type named like an identifier of the generated files is a cause of its own
    crate::report::set_key_suffix(case.tags.iter().find(|t| t.starts_with("clash:type-named-")).cloned());
    check_case_inner(rep, case, texts, c, cnt);
    crate::report::set_key_suffix(None);
}

fn check_case_inner(rep: &Reporter, case: &Case, texts: &[String], c: &Chooser, cnt: &Cnt) {
    let mut whole = TsDoc::default();
    for f in &case.files {
        whole.defs.extend(f.defs.iter().cloned());
    }
    // `@nitrogql_ts_type` is nitrogql's own directive: give the reference validator its definition
    let mut for_validation = whole.clone();
    let mut nd = TsDef::new(TsKind::Directive, Some("nitrogql_ts_type"));
    nd.locations = vec![nm("SCALAR")];
    nd.dir_args = Some(
        ["resolverInput", "resolverOutput", "operationInput", "operationOutput"]
            .iter()
            .map(|n| InputValueDef { desc: None, p: P::default(), name: nm(n), ty: Ty::nn(Ty::named("String")), default: None, dirs: vec![] })
            .collect(),
    );
    for_validation.defs.push(nd);
    let findings = valid_ts::validate(&for_validation);
    if !findings.is_empty() {
        *cnt.skipped.lock().unwrap().entry(format!("not-valid:{}", findings[0].rule)).or_insert(0) += 1;
        return;
    }
    // the same schema as the introspection result a conforming server gives for it, when nothing of the case lives in
    // what introspection does not carry (directive applications other than @deprecated / @specifiedBy, plugins)
    let json_eligible = case.plugins.is_empty() && case.model.is_none() && case.scalar_ext.is_none() && !whole.defs.iter().any(|d| d.dirs.iter().any(|x| x.name.s == "nitrogql_ts_type"));
    let clash = case.tags.iter().find(|t| t.starts_with("clash:type-named-")).cloned();
    // identifier hygiene (types named like generated identifiers) is the SDL route's business: one route, one key
    // (quick tier: up to two deviations, so that the SDL route still completes its third level within the time cap)
    let json_eligible = json_eligible && clash.is_none() && (rep.tier != "quick" || c.deviations() <= 2);
    for route in if json_eligible { &["sdl", "json"][..] } else { &["sdl"][..] } {
        if *route == "json" {
            crate::report::set_key_suffix(Some(match &clash {
                Some(t) => format!("{t},schema-read-from-introspection-json"),
                None => "schema-read-from-introspection-json".to_string(),
            }));
        }
        check_route(rep, case, texts, c, cnt, &whole, route);
        crate::report::set_key_suffix(clash.clone());
    }
}

fn check_route(rep: &Reporter, case: &Case, texts: &[String], c: &Chooser, cnt: &Cnt, whole: &TsDoc, route: &str) {
    let case_json = |extra: J| json!({"files": texts, "tags": case.tags, "route": route, "picks": c.picks(), "detail": extra});
    let generated = catch(|| {
        if route == "json" {
            let sch = Sch::from_doc(whole).map_err(|e| format!("rejected: reference schema: {e}"))?;
            // without the `__Schema`, `__Type`, ... entries: the reference schema the outputs are judged against is the SDL's,
            // which does not list them (with them listed the subject declares them like any other type of the schema)
            let json_text = crate::introspect::introspection_json(&sch, crate::introspect::IntroOpts { meta_types: false, ..Default::default() }).to_string();
            let out = crate::c15::route_json(&json_text, "query Q { __typename }\n", &case.subject_cfg, true).map_err(|e| if e.starts_with("schema_dts") || e.starts_with("resolvers_dts") { e } else { format!("rejected: {e}") })?;
            if let Some(k) = out.rejected {
                return Err(format!("rejected: {k:?}"));
            }
            return Ok((out.schema_dts, out.resolvers_dts));
        }
        let parsed = pipeline::parse_schema_files(texts).map_err(|f| format!("{:?}", f.diags))?;
        // the plugin objects as the CLI holds them: the scalars plugin has been told the schema's extensions
        let plugins: Vec<nitrogql_plugin::Plugin<'static>> = case
            .plugins
            .iter()
            .map(|n| match (*n, &case.scalar_ext) {
                ("nitrogql:graphql-scalars-plugin", Some(e)) => pipeline::scalars_plugin_with_calls(&match case.plugin_calls {
                    0 => vec![vec![e.clone()]],
                    1 => vec![vec![e.clone()], vec![]],
                    2 => vec![vec![], vec![e.clone()]],
                    _ => vec![vec![e.clone()], vec![e.clone()]],
                }),
                _ => pipeline::make_plugins(&[n]).pop().unwrap(),
            })
            .collect();
        // only the scalars plugin's addition: the model plugin's `directive @model` is already written into the files
        let additions = pipeline::plugin_additions(&plugins).map_err(|e| format!("resolvers_dts: {e}"))?.into_iter().zip(case.plugins.iter()).filter(|(_, n)| **n == "nitrogql:graphql-scalars-plugin").map(|(a, _)| a).collect::<Vec<_>>();
        let doc = pipeline::resolve_and_check_schema_with(parsed, additions).map_err(|f| format!("rejected: {:?}", f.diags.iter().map(|d| d.kind.clone()).collect::<Vec<_>>()))?;
        let s = pipeline::schema_dts(&doc, &case.subject_cfg).map_err(|e| format!("schema_dts: {e}"))?;
        let r = pipeline::resolvers_dts_with_plugins(&doc, &case.subject_cfg, "./schema.js", &plugins).map_err(|e| format!("resolvers_dts: {e}"))?;
        Ok::<_, String>((s.buffer, r.buffer))
    });
    let (schema_text, resolvers_text) = match generated {
        Err(p) => {
            rep.report(Violation { key: format!("panic@{}", p.key()), what: format!("panic at {}: {}", p.site, p.msg), case: case_json(json!({})) });
            return;
        }
        Ok(Err(e)) => {
            // check rejecting a valid schema is C05's business; a printer error on a checked schema is ours
            if e.starts_with("schema_dts") || e.starts_with("resolvers_dts") {
                rep.report(Violation { key: format!("printer_error:{}", e.split(':').next().unwrap_or("")), what: e, case: case_json(json!({})) });
            } else {
                *cnt.skipped.lock().unwrap().entry("rejected-by-check".into()).or_insert(0) += 1;
            }
            return;
        }
        Ok(Ok(x)) => x,
    };
    cnt.checked.fetch_add(1, Ordering::Relaxed);
    // (i) well-formedness
    let mut world = World::new();
    if let Err(e) = world.load("schema", &schema_text, &BTreeMap::new()) {
        let cause = if case.tags.iter().any(|t| t.starts_with("clash:type-named-")) && (e.contains("reserved word") || e.contains("predefined type name")) { "declared-name".to_string() } else { case.tags.iter().find(|t| t.contains("hostile") || t.contains("desc")).cloned().unwrap_or_else(|| if schema_text.contains("*/ `") || texts.iter().any(|t| t.contains("*/")) { "description-with-comment-terminator".into() } else { "other".into() }) };
        rep.report(Violation { key: format!("malformed_ts:schema[{cause}]"), what: format!("the schema declaration file is not well-formed TypeScript: {e}"), case: case_json(json!({"schema_dts": schema_text})) });
        return;
    }
    let mut imports = BTreeMap::new();
    imports.insert("./schema.js".to_string(), "schema".to_string());
    if let Err(e) = world.load("resolvers", &resolvers_text, &imports) {
        rep.report(Violation { key: "malformed_ts:resolvers".into(), what: format!("the resolvers declaration file is not well-formed TypeScript: {e}"), case: case_json(json!({"resolvers_dts": resolvers_text})) });
        return;
    }
    let sch = match Sch::from_doc(whole) {
        Ok(s) => s,
        Err(_) => return,
    };
    let listed_in_json: Option<BTreeSet<String>> = (route == "json").then(|| {
        let j = crate::introspect::introspection_json(&sch, crate::introspect::IntroOpts { meta_types: false, ..Default::default() });
        j["__schema"]["types"].as_array().into_iter().flatten().filter_map(|t| t["name"].as_str().map(|s| s.to_string())).collect()
    });
    // (ii) every type in every target
    for target in Target::ALL {
        let rs = RefSchema { sch: &sch, scalars: case.scalars.clone(), optional_input: case.cfg.generate.r#type.allow_undefined_as_optional_input, omit_typename: false, model: None };
        let names: Vec<String> = crate::schema::BUILTIN_SCALARS.iter().map(|s| s.to_string()).chain(sch.order.iter().cloned()).collect();
        for name in names {
            // an introspection result lists the standard scalars the schema uses; the others are not types of that schema
            if let Some(l) = &listed_in_json
                && !l.contains(&name)
            {
                continue;
            }
            if !rs.exists_in(&name, target) {
                continue;
            }
            cnt.aliases.fetch_add(1, Ordering::Relaxed);
            let kind = sch.kind(&name).unwrap();
            let alias = match world.exported("schema", &[target.ns(), &name]) {
                Ok(a) => a,
                Err(e) => {
                    rep.report(Violation { key: format!("alias_missing:{}:{:?}", target.ns(), kind), what: format!("{}.{name} is not exported: {e}", target.ns()), case: case_json(json!({"schema_dts": schema_text})) });
                    continue;
                }
            };
            let mut cmp = Cmp::new(&world, &rs, target);
            if let Err(e) = cmp.eq(&alias, &RT::Named(name.clone())) {
                let clash = case.tags.iter().find(|t| t.starts_with("clash:")).cloned().unwrap_or_default();
                let opt = if case.tags.iter().any(|t| t == "optional-input-off") && e.contains("optional") { "[optional-input-off]" } else { "" };
                rep.report(Violation {
                    key: format!("alias_differs:{}:{:?}{}{}", target.ns(), kind, if clash.is_empty() || !e.contains("members differ") && !e.contains("shape differs") { String::new() } else { format!("[{clash}]") }, opt),
                    what: format!("{}.{name} does not denote the schema type: {e}", target.ns()),
                    case: case_json(json!({"alias": format!("{}.{name}", target.ns()), "difference": e, "emitted": world.canon(&alias, 3).map(|t| show_t(&t)).unwrap_or_default(), "schema_dts": schema_text})),
                });
            }
        }
        // the top-level alias of each type denotes the operation output (or resolver input for input objects)
    }
    // (iii) resolvers
    check_resolvers(rep, case, &sch, &world, &resolvers_text, &case_json, cnt);
}

fn check_resolvers(rep: &Reporter, case: &Case, sch: &Sch, world: &World, text: &str, case_json: &dyn Fn(J) -> J, cnt: &Cnt) {
    let decls = match parse_module(text) {
        Ok(d) => d,
        Err(_) => return,
    };
    let Some(Decl::Type { body: Te::Obj(types), params: resolvers_params, .. }) = decls.iter().find(|d| matches!(d, Decl::Type { name, .. } if name == "Resolvers")) else {
        rep.report(Violation { key: "resolvers.no_resolvers_type".into(), what: "no `Resolvers` object type found".into(), case: case_json(json!({"resolvers_dts": text})) });
        return;
    };
    let scope = world.modules["resolvers"];
    // the helper aliases lean on globals and imports: a declaration of the same name in this module captures them
    for (helper, uses) in [("__Resolver", ["Promise", "GraphQLResolveInfo"]), ("__TypeResolver", ["Promise", "GraphQLResolveInfo"])] {
        for u in uses {
            if u == "Promise" && world.declares_type(scope, u) {
                rep.report(Violation { key: format!("resolvers.helper_identifier_captured:{u}"), what: format!("{helper} uses the global `{u}`, but the module declares a type of that name"), case: case_json(json!({"resolvers_dts": text})) });
            }
        }
    }
    let rs_out = RefSchema { sch, scalars: case.scalars.clone(), optional_input: case.cfg.generate.r#type.allow_undefined_as_optional_input, omit_typename: false, model: case.model.clone() };
    let rs_in = RefSchema { sch, scalars: case.scalars.clone(), optional_input: case.cfg.generate.r#type.allow_undefined_as_optional_input, omit_typename: false, model: case.model.clone() };
    // expected keys: every object type and every abstract type
    let mut expected: Vec<String> = sch.order.iter().filter(|n| matches!(sch.kind(n), Some(TsKind::Object | TsKind::Interface | TsKind::Union))).cloned().collect();
    expected.sort();
    let mut got: Vec<String> = types.iter().map(|p| p.key.clone()).collect();
    got.sort();
    if expected != got {
        rep.report(Violation { key: "resolvers.type_set".into(), what: format!("Resolvers has keys {got:?}, expected {expected:?}"), case: case_json(json!({"resolvers_dts": text})) });
        return;
    }
    let bad = |key: String, what: String| rep.report(Violation { key, what, case: case_json(json!({"resolvers_dts": text})) });
    for tp in types {
        let Te::Obj(fields) = &tp.ty else {
            bad("resolvers.shape".into(), format!("Resolvers.{} is not an object type", tp.key));
            continue;
        };
        let def = &sch.types[&tp.key];
        if def.kind == TsKind::Object {
            // fields marked @model are served by the model object itself: no resolver is required for them
            let excluded: Vec<String> = case.model.as_ref().filter(|m| !m.object_types.contains_key(&tp.key)).and_then(|m| m.fields.get(&tp.key).cloned()).unwrap_or_default();
            let want: Vec<&String> = def.fields.iter().map(|f| &f.name.s).filter(|n| !excluded.contains(n)).collect();
            let have: Vec<&String> = fields.iter().map(|f| &f.key).collect();
            let (mut w2, mut h2) = (want.clone(), have.clone());
            w2.sort();
            h2.sort();
            if w2 != h2 {
                bad("resolvers.field_set".into(), format!("Resolvers.{} has fields {have:?}, the object type has {want:?}", tp.key));
                continue;
            }
            for f in fields {
                cnt.resolvers.fetch_add(1, Ordering::Relaxed);
                let fd = def.fields.iter().find(|x| x.name.s == f.key).unwrap();
                let Te::Ref(path, args) = &f.ty else {
                    bad("resolvers.shape".into(), format!("{}.{} is not a __Resolver<...>", tp.key, f.key));
                    continue;
                };
                if path != &["__Resolver".to_string()] || args.len() != 4 || f.optional {
                    bad("resolvers.shape".into(), format!("{}.{} is not a required __Resolver<Parent, Args, Context, Result>", tp.key, f.key));
                    continue;
                }
                // Parent
                match world.eval_in_with_params(scope, &args[0], resolvers_params) {
                    Err(e) => bad("machinery.resolver_eval".into(), e),
                    Ok(t) => {
                        if let Err(e) = Cmp::new(world, &rs_out, Target::ResolverOutput).eq(&t, &RT::Local(tp.key.clone())) {
                            bad("resolvers.parent".into(), format!("{}.{}: Parent differs: {e}", tp.key, f.key));
                        }
                    }
                }
                // Args
                let mut am = BTreeMap::new();
                for a in fd.args.iter().flatten() {
                    am.insert(a.name.s.clone(), (rs_in.wrap(&a.ty, true), false, true));
                }
                match world.eval_in_with_params(scope, &args[1], resolvers_params) {
                    Err(e) => bad("machinery.resolver_eval".into(), e),
                    Ok(t) => {
                        if let Err(e) = Cmp::new(world, &rs_in, Target::ResolverInput).eq(&t, &RT::Obj(am)) {
                            bad("resolvers.args".into(), format!("{}.{}: Args differ: {e}", tp.key, f.key));
                        }
                    }
                }
                if args[2] != Te::Ref(vec!["Context".into()], vec![]) {
                    bad("resolvers.context".into(), format!("{}.{}: third argument is not Context", tp.key, f.key));
                }
                match world.eval_in_with_params(scope, &args[3], resolvers_params) {
                    Err(e) => bad("machinery.resolver_eval".into(), e),
                    Ok(t) => {
                        if let Err(e) = Cmp::new(world, &rs_out, Target::ResolverOutput).eq(&t, &rs_out.wrap_local(&fd.ty)) {
                            bad("resolvers.result".into(), format!("{}.{}: Result differs: {e}", tp.key, f.key));
                        }
                    }
                }
            }
        } else {
            // abstract type: exactly __resolveType over the possible types
            if fields.len() != 1 || fields[0].key != "__resolveType" {
                bad("resolvers.abstract_shape".into(), format!("Resolvers.{} should have exactly __resolveType", tp.key));
                continue;
            }
            cnt.resolvers.fetch_add(1, Ordering::Relaxed);
            let Te::Ref(path, args) = &fields[0].ty else {
                bad("resolvers.abstract_shape".into(), format!("{}.__resolveType is not a __TypeResolver<...>", tp.key));
                continue;
            };
            if path != &["__TypeResolver".to_string()] || args.len() != 3 {
                bad("resolvers.abstract_shape".into(), format!("{}.__resolveType is not a __TypeResolver<Obj, Context, Result>", tp.key));
                continue;
            }
            let poss = sch.possible_types(&tp.key);
            match world.eval_in_with_params(scope, &args[0], resolvers_params) {
                Err(e) => bad("machinery.resolver_eval".into(), e),
                Ok(t) => {
                    if let Err(e) = Cmp::new(world, &rs_out, Target::ResolverOutput).eq(&t, &RT::Union(poss.iter().cloned().map(RT::Local).collect())) {
                        bad("resolvers.type_resolver_parent".into(), format!("{}: object argument differs: {e}", tp.key));
                    }
                }
            }
            match world.eval_in(scope, &args[2]) {
                Err(e) => bad("machinery.resolver_eval".into(), e),
                Ok(t) => {
                    let want = crate::rts::mk_union(poss.iter().map(|p| T::Lit(p.clone())).collect());
                    let got = world.canon(&t, 3).unwrap_or(T::Never);
                    if got != want {
                        bad("resolvers.type_resolver_result".into(), format!("{}: result is {}, expected {}", tp.key, show_t(&got), show_t(&want)));
                    }
                }
            }
        }
    }
}

pub fn run(args: &RunArgs) -> i32 {
    let rep = Reporter::new("C10", &args.tier);
    crate::util::install_hook();
    let cnt = Cnt { cases: AtomicU64::new(0), checked: AtomicU64::new(0), aliases: AtomicU64::new(0), resolvers: AtomicU64::new(0), skipped: Mutex::new(BTreeMap::new()) };
    let distinct = DistinctSet::new();
    let sample: Mutex<Option<J>> = Mutex::new(None);
    let (dev, budget) = if args.quick() { (3, 50) } else { (4, 3000) };
    let stats = explore(&ExploreCfg { max_dev: dev, threads: args.threads, budget: Duration::from_secs(budget) }, |c: &mut Chooser| {
        let case = gen_case(c);
        let texts: Vec<String> = case.files.iter().map(ts_text).collect();
        let key = format!("{}|{:?}|{}|{}|{}|{:?}", texts.join("\u{1}"), case.scalars, case.cfg.generate.r#type.allow_undefined_as_optional_input, case.cfg.generate.emit_schema_runtime, case.model.is_some(), (&case.plugins, &case.scalar_ext, case.plugin_calls));
        if !distinct.insert(fnv(key.as_bytes())) {
            return;
        }
        cnt.cases.fetch_add(1, Ordering::Relaxed);
        if c.deviations() == 2 {
            let mut s = sample.lock().unwrap();
            if s.is_none() {
                *s = Some(json!({"files": texts, "tags": case.tags}));
            }
        }
        check_case(&rep, &case, &texts, c, &cnt);
    });
    let cov = json!({
        "states": distinct.len(),
        "transitions": stats.choice_edges,
        "traces_validated_against_impl": cnt.aliases.load(Ordering::Relaxed) + cnt.resolvers.load(Ordering::Relaxed),
        "evaluations": cnt.cases.load(Ordering::Relaxed),
        "distinct_nontrivial": cnt.checked.load(Ordering::Relaxed),
        "rule": "E1 over (schema variation, scalar configuration, name clash, options); distinct by (schema text, scalar table, options); non-trivial = valid per R-VALID-TS, accepted by check, both files generated and compared",
        "exhaustive": true,
        "explorer": stats_json(&stats),
        "cases_checked": cnt.checked.load(Ordering::Relaxed),
        "type_aliases_compared": cnt.aliases.load(Ordering::Relaxed),
        "resolver_entries_compared": cnt.resolvers.load(Ordering::Relaxed),
        "skipped": *cnt.skipped.lock().unwrap(),
        "samples": [sample.lock().unwrap().clone().unwrap_or(J::Null)],
    });
    rep.finish(
        cov,
        vec![
            "R-TS reads the emitted files; equality of denotations is decided structurally and coinductively against the reference (flattened unions as sets, optional k?: T == k?: T | undefined)".into(),
            "send = operation input / resolver output, receive = operation output / resolver input; resolver arguments are required readonly properties".into(),
        ],
    )
}

pub fn replay(case: &J) -> i32 {
    for (i, f) in case["files"].as_array().unwrap_or(&vec![]).iter().enumerate() {
        println!("--- schema file {i} ---\n{}", f.as_str().unwrap_or(""));
    }
    println!("tags: {}", case["tags"]);
    println!("detail: {}", serde_json::to_string_pretty(&case["detail"]).unwrap_or_default().replace("\\n", "\n"));
    0
}
