//! C17 — generation is deterministic and independent of incidental ordering.
//!
//! (a) Permutations: for several families of 4-8 schema definitions / extensions, ALL
//!     permutations x splits into two files are pushed through parse -> merge -> check -> generate;
//!     the verdict must equal the base arrangement's and every exported alias (schema, resolvers,
//!     operation declaration files, server schema) must keep its denotation.
//! (b) Hash seeds: the real CLI is run on whole projects in fresh processes under the getrandom seam
//!     (LD_PRELOAD shim, NQ_SEED = 0..N): exit status, stdout, stderr and every written file must be
//!     byte-identical to seed 0. The seam is shown to drive the subject's own tables (canary: the
//!     logged Debug of the config's scalar map changes order with the seed) and the set of
//!     iteration orders the explored seeds induce is measured by a probe run under the same shim.
//! (c) The library entry points called in-process (no CLI code) must produce the bytes the CLI wrote.

use crate::outcmp::{Out, diff_digests, digest};
use crate::c18;
use crate::cli::{self, Project};
use crate::explore::{DistinctSet, fnv, par_for};
use crate::pipeline;
use crate::report::{Args as RunArgs, Reporter, Violation};
use crate::schema::Sch;
use crate::util::catch;
use nitrogql_config_file::{Config, ScalarTypeConfig};
use serde_json::{Value as J, json};
use std::collections::{BTreeMap, BTreeSet};
use std::path::PathBuf;
use std::sync::Mutex;
use std::sync::atomic::{AtomicU64, Ordering};
use std::time::Duration;

// ------------------------------------------------------------------------------------------ (a) permutations

pub struct Family {
    pub name: &'static str,
    pub items: &'static [&'static str],
    pub doc: &'static str,
    pub valid: bool,
}

pub const FAMILIES: &[Family] = &[
    Family {
        name: "objects-interface-union-extension",
        items: &[
            "type Query { node(id: ID!): Node search: [SearchResult!] kind: Kind me: User }",
            "interface Node { id: ID! }",
            "type User implements Node { id: ID! name: String }",
            "type Post implements Node { id: ID! title: String author: User }",
            "union SearchResult = User | Post",
            "extend type User { posts: [Post!] }",
            "enum Kind { A B }",
        ],
        doc: "query Q { node(id: \"1\") { __typename id ... on User { name posts { title } } } search { ... on Post { title } ... on User { name } } kind me { id } }\n",
        valid: true,
    },
    Family {
        name: "directives-scalars-inputs",
        items: &[
            "type Query { at: Date big(x: In = {a: 1}): BigInt @paginated(limit: 3) }",
            "scalar Date",
            "scalar BigInt",
            "directive @range(min: Int) on ARGUMENT_DEFINITION",
            "directive @paginated(limit: Int @range(min: 1)) on FIELD_DEFINITION",
            "input In { a: Int b: Date }",
            "extend input In { c: [In!] }",
        ],
        doc: "query Q($i: In) { at big(x: $i) }\n",
        valid: true,
    },
    Family {
        name: "extension-chains",
        items: &[
            "type Query { k: Kind u: U }",
            "enum Kind { A }",
            "extend enum Kind { B }",
            "union U = A1",
            "extend union U = A2",
            "type A1 { x: Int }",
            "type A2 { y: Int k: Kind }",
        ],
        doc: "query Q { k u { __typename ... on A1 { x } ... on A2 { y k } } }\n",
        valid: true,
    },
    Family {
        name: "schema-definition-and-extension",
        items: &["schema { query: Q }", "type Q { a: Int m: M }", "extend schema { mutation: M }", "type M { b: Int }", "type Query { never: Int }", "interface I { b: Int }", "extend type M implements I"],
        doc: "mutation X { b }\n",
        valid: true,
    },
    Family {
        name: "interface-chain",
        items: &[
            "type Query { n: Node named: Named }",
            "interface Node { id: ID! }",
            "interface Named implements Node { id: ID! name: String }",
            "type A implements Node & Named { id: ID! name: String a: Int }",
            "type B implements Node { id: ID! b: Int }",
            "extend interface Named { nick: String }",
            "extend type A { nick: String }",
        ],
        doc: "query Q { n { id ... on Named { name nick } ... on B { b } } named { __typename name } }\n",
        valid: true,
    },
    Family { name: "invalid:duplicate-type", items: &["type Query { a: A }", "type A { x: Int }", "type A { y: Int }", "scalar S", "extend type A { z: Int }"], doc: "query Q { a { x } }\n", valid: false },
    Family { name: "invalid:orphan-extension", items: &["type Query { a: Int }", "extend type Nope { x: Int }", "enum E { A }", "scalar S", "extend enum E { B }"], doc: "query Q { a }\n", valid: false },
    Family { name: "invalid:unknown-type", items: &["type Query { a: Missing }", "interface I { x: Int }", "type T implements I { x: Int }", "scalar S", "extend type T { y: S }"], doc: "query Q { a }\n", valid: false },
    Family { name: "invalid:interface-not-implemented", items: &["type Query { a: T }", "interface I { x: Int }", "type T implements I { y: Int }", "extend type T { z: Int }", "scalar S"], doc: "query Q { a { y } }\n", valid: false },
    Family {
        name: "invalid:directive-recursion",
        items: &["type Query { a: Int }", "directive @a(x: Int @b) on ARGUMENT_DEFINITION", "directive @b(y: Int @a) on ARGUMENT_DEFINITION", "scalar S", "directive @c(z: Int @a) on ARGUMENT_DEFINITION"],
        doc: "query Q { a }\n",
        valid: false,
    },
];

fn cfg_a() -> Config {
    let mut cfg = pipeline::default_config();
    for s in ["Date", "BigInt", "S"] {
        cfg.generate.r#type.scalar_types.insert(s.into(), ScalarTypeConfig::Single("string".into()));
    }
    pipeline::via_config_text(&cfg)
}

/// run one arrangement (files of definition texts) through the SDL pipeline
fn arrange_run(files: &[String], doc: &str) -> Result<Result<Out, String>, crate::util::Panic> {
    let cfg = cfg_a();
    catch(|| crate::c15::route_sdl(files, doc, &cfg, true))
}

fn next_permutation(p: &mut [usize]) -> bool {
    let n = p.len();
    if n < 2 {
        return false;
    }
    let mut i = n - 1;
    while i > 0 && p[i - 1] >= p[i] {
        i -= 1;
    }
    if i == 0 {
        return false;
    }
    let mut j = n - 1;
    while p[j] <= p[i - 1] {
        j -= 1;
    }
    p.swap(i - 1, j);
    p[i..].reverse();
    true
}

struct PA {
    arrangements: AtomicU64,
    compared: AtomicU64,
    aliases: AtomicU64,
    rejected_consistently: AtomicU64,
}

fn part_a(args: &RunArgs, rep: &Reporter) -> J {
    let pa = PA { arrangements: AtomicU64::new(0), compared: AtomicU64::new(0), aliases: AtomicU64::new(0), rejected_consistently: AtomicU64::new(0) };
    let mut per_family = vec![];
    for fam in FAMILIES {
        let n = fam.items.len();
        // base arrangement: given order, one file
        let base_files = vec![fam.items.join("\n") + "\n"];
        let base = match arrange_run(&base_files, fam.doc) {
            Ok(b) => b,
            Err(p) => {
                rep.report(Violation { key: format!("machinery.base_panics:{}", fam.name), what: format!("base arrangement panics at {}: {}", p.site, p.msg), case: json!({"family": fam.name}) });
                continue;
            }
        };
        // schema-level rejection shows as Err(text), operation-level as Out.rejected
        let base_verdict: Result<(), String> = match &base {
            Ok(o) => match &o.rejected {
                None => Ok(()),
                Some(k) => Err(format!("operation:{}", k.first().cloned().unwrap_or_default())),
            },
            Err(e) => Err(e.split(':').next().unwrap_or("").to_string()),
        };
        if base_verdict.is_ok() != fam.valid {
            rep.report(Violation { key: format!("machinery.family_expectation:{}", fam.name), what: format!("family {} was expected to be {} but the base arrangement gives {:?}", fam.name, if fam.valid { "accepted" } else { "rejected" }, base_verdict), case: json!({"family": fam.name, "files": base_files}) });
            continue;
        }
        let whole = crate::rparse::parse_ts(&base_files[0]).ok();
        let sch = whole.as_ref().and_then(|w| Sch::from_doc(w).ok()).unwrap_or_else(|| Sch::new(&[]));
        let base_digest = match &base {
            Ok(o) if o.rejected.is_none() => Some(digest(&sch, o)),
            _ => None,
        };
        // all permutations
        let mut perms: Vec<Vec<usize>> = vec![];
        let mut p: Vec<usize> = (0..n).collect();
        loop {
            perms.push(p.clone());
            if !next_permutation(&mut p) {
                break;
            }
        }
        // splits: bit i set = the i-th item of the permuted sequence goes to file 2
        let splits: Vec<u32> = if args.quick() {
            let mut s = vec![0u32];
            let all = (1u32 << n) - 1;
            s.push(all & 0xAAAA_AAAA); // alternating
            s.push(all & !((1u32 << (n / 2)) - 1)); // second half
            s.push(1); // only the first definition in file 2
            s.push(1 << (n - 1)); // only the last definition in file 2
            s.sort();
            s.dedup();
            s
        } else {
            (0..(1u32 << n)).collect()
        };
        let before = pa.arrangements.load(Ordering::Relaxed);
        let verdict_hist: Mutex<BTreeMap<String, u64>> = Mutex::new(BTreeMap::new());
        par_for(perms.len(), args.threads, |pi| {
            let perm = &perms[pi];
            for &mask in &splits {
                if mask == (1u32 << n) - 1 {
                    continue; // everything in file 2 = everything in file 1
                }
                let (mut f0, mut f1) = (String::new(), String::new());
                for (k, &it) in perm.iter().enumerate() {
                    let tgt = if mask & (1 << k) != 0 { &mut f1 } else { &mut f0 };
                    tgt.push_str(fam.items[it]);
                    tgt.push('\n');
                }
                let files: Vec<String> = if f1.is_empty() { vec![f0] } else if f0.is_empty() { vec![f1] } else { vec![f0, f1] };
                pa.arrangements.fetch_add(1, Ordering::Relaxed);
                let case = || json!({"part": "a", "family": fam.name, "permutation": perm, "files": files, "base_files": base_files, "document": fam.doc});
                let got = match arrange_run(&files, fam.doc) {
                    Ok(g) => g,
                    Err(p) => {
                        rep.report(Violation { key: format!("a.panic@{}", p.key()), what: format!("panic at {} for a rearranged schema: {}", p.site, p.msg), case: case() });
                        continue;
                    }
                };
                let verdict: Result<(), String> = match &got {
                    Ok(o) => match &o.rejected {
                        None => Ok(()),
                        Some(k) => Err(format!("operation:{}", k.first().cloned().unwrap_or_default())),
                    },
                    Err(e) => Err(e.split(':').next().unwrap_or("").to_string()),
                };
                *verdict_hist.lock().unwrap().entry(format!("{verdict:?}")).or_insert(0) += 1;
                if verdict.is_ok() != base_verdict.is_ok() {
                    let detail = match &got {
                        Err(e) => e.clone(),
                        Ok(o) => format!("{:?}", o.rejected),
                    };
                    rep.report(Violation {
                        key: format!("a.verdict_changes_with_order:{}:{}", fam.name, if verdict.is_ok() { "accepted" } else { "rejected" }),
                        what: format!("family {}: the base arrangement is {} but this arrangement of the same definitions is {} ({detail})", fam.name, if base_verdict.is_ok() { "accepted" } else { "rejected" }, if verdict.is_ok() { "accepted" } else { "rejected" }),
                        case: case(),
                    });
                    continue;
                }
                let (Ok(b), Ok(g)) = (&base, &got) else {
                    pa.rejected_consistently.fetch_add(1, Ordering::Relaxed);
                    continue;
                };
                if b.rejected.is_some() {
                    pa.rejected_consistently.fetch_add(1, Ordering::Relaxed);
                    continue;
                }
                let _ = b;
                match diff_digests(base_digest.as_ref().unwrap(), &digest(&sch, g), "base", "rearranged") {
                    Err(e) => rep.report(Violation { key: "machinery.rts".into(), what: e, case: case() }),
                    Ok((diffs, k)) => {
                        pa.compared.fetch_add(1, Ordering::Relaxed);
                        pa.aliases.fetch_add(k, Ordering::Relaxed);
                        for d in diffs {
                            rep.report(Violation { key: format!("a.{}", d.key), what: format!("family {}: {}", fam.name, d.what), case: case() });
                        }
                    }
                }
            }
        });
        per_family.push(json!({"family": fam.name, "definitions": n, "permutations": perms.len(), "splits_per_permutation": splits.len(), "arrangements": pa.arrangements.load(Ordering::Relaxed) - before, "base_verdict": format!("{base_verdict:?}"), "verdicts": *verdict_hist.lock().unwrap()}));
    }
    json!({
        "families": per_family,
        "arrangements": pa.arrangements.load(Ordering::Relaxed),
        "arrangements_with_outputs_compared": pa.compared.load(Ordering::Relaxed),
        "arrangements_rejected_like_the_base": pa.rejected_consistently.load(Ordering::Relaxed),
        "aliases_compared": pa.aliases.load(Ordering::Relaxed),
        "splits": if args.quick() { "one file, alternating, second half / first / last definition in file 2" } else { "all 2^n assignments of definitions to two files" },
    })
}

// ------------------------------------------------------------------------------------------ (b) hash seeds through the CLI

#[derive(Clone, Debug)]
pub struct ProjCfg {
    pub name: &'static str,
    pub mode: usize,
    pub runtime: bool,
    pub model_plugin: bool,
    pub faults: &'static [&'static str],
    pub commands: &'static [&'static str],
    pub format: &'static str,
    /// schema/documents given as two glob patterns each instead of one
    pub multi_glob: bool,
}

const MODES: [(&str, &str); 3] = [("with-loader-ts-5.0", "d.graphql.ts"), ("with-loader-ts-4.0", "graphql.d.ts"), ("standalone-ts-4.0", "graphql.ts")];

pub const EXTRA_SCHEMA: &str = "scalar Url\nscalar Json\nscalar Big\nextend type User {\n  site: Url\n  meta: Json\n  big: Big\n}\ntype Bot implements Node & Named {\n  id: ID!\n  name: String\n  model: String\n}\ntype Org implements Node & Named {\n  id: ID!\n  name: String\n  members: [User!]!\n}\nextend union SearchResult = Bot | Org\n";
pub const EXTRA_OP: &str = "#import * from \"../frags.graphql\"\nquery Flags($a: Boolean!, $b: Boolean!, $c: Boolean! = true, $d: Boolean!) {\n  me { id @skip(if: $a) name @include(if: $b) kind @skip(if: $c) age @include(if: $d) ... on User @skip(if: $b) { born } }\n}\nquery Orgs {\n  search(text: \"o\") { __typename ... on Org { members { ...UserBits site meta big } } ... on Bot { model } }\n  node(id: \"2\") { ... on Named { name } ... on Bot { model } ... on Org { id } }\n}\n";

pub fn project_configs(quick: bool) -> Vec<ProjCfg> {
    let mut v = vec![
        ProjCfg { name: "valid:ts5+resolvers+server", mode: 0, runtime: false, model_plugin: false, faults: &[], commands: &["check", "generate"], format: "json", multi_glob: false },
        ProjCfg { name: "valid:standalone+runtime", mode: 2, runtime: true, model_plugin: false, faults: &[], commands: &["generate"], format: "human", multi_glob: false },
        ProjCfg { name: "valid:ts4+model-plugin+multi-glob", mode: 1, runtime: false, model_plugin: true, faults: &[], commands: &["check", "generate"], format: "json", multi_glob: true },
        ProjCfg { name: "faulty:three-operation-files", mode: 0, runtime: false, model_plugin: false, faults: &["op.unknown-field.simple", "op.unknown-field.other", "op.two-diagnostics-at-one-position.other", "op.scalar-selection.spaced", "op.variable-type-mismatch.main"], commands: &["check"], format: "json", multi_glob: false },
        ProjCfg { name: "faulty:schema-three-errors", mode: 0, runtime: false, model_plugin: false, faults: &["schema.unknown-type.main", "schema.unknown-type.ext", "schema.unknown-directive.main"], commands: &["check"], format: "rdjson", multi_glob: false },
    ];
    if !quick {
        v.push(ProjCfg { name: "faulty:operations-human", mode: 0, runtime: false, model_plugin: false, faults: &["op.unknown-field.simple", "op.unknown-field.other", "op.unknown-field.frags"], commands: &["check", "generate"], format: "human", multi_glob: true });
        v.push(ProjCfg { name: "faulty:import", mode: 0, runtime: false, model_plugin: false, faults: &["op.import-unknown-fragment.main"], commands: &["check"], format: "json", multi_glob: false });
        v.push(ProjCfg { name: "faulty:two-syntax-errors", mode: 0, runtime: false, model_plugin: false, faults: &["op.syntax.unclosed-at-eof.simple", "op.syntax.double-brace.main"], commands: &["check"], format: "rdjson", multi_glob: false });
        v.push(ProjCfg { name: "valid:ts5+runtime+model", mode: 0, runtime: true, model_plugin: true, faults: &[], commands: &["generate"], format: "rdjson", multi_glob: false });
    }
    v
}

pub struct BuiltProject {
    pub project: Project,
    pub args: Vec<String>,
    pub schema_files: Vec<String>,
    pub op_files: Vec<String>,
    pub schema_out: String,
}

pub fn build_project(pc: &ProjCfg) -> Option<BuiltProject> {
    let mut files: BTreeMap<String, String> = c18::base_files().into_iter().map(|(k, v)| (k.to_string(), v)).collect();
    files.insert("schema/zextra.graphql".into(), EXTRA_SCHEMA.into());
    // an import cycle whose closing file points back into two files that are still being resolved,
    // and a chain a -> b -> c
    files.insert("src/cyc/main.graphql".into(), "#import A1 from \"./a.graphql\"\nquery CycMain { me { ...A1 } }\n".into());
    files.insert("src/cyc/a.graphql".into(), "#import B1 from \"./b.graphql\"\nfragment A1 on User { id ...B1 }\nfragment A2 on User { name }\n".into());
    files.insert("src/cyc/b.graphql".into(), "#import C1 from \"./c.graphql\"\nfragment B1 on User { id ...C1 }\nfragment B2 on User { age }\n".into());
    files.insert("src/cyc/c.graphql".into(), "#import A2 from \"./a.graphql\"\n#import B2 from \"./b.graphql\"\nfragment C1 on User { ...A2 ...B2 }\n".into());
    files.insert("src/deep/orgs.graphql".into(), EXTRA_OP.into());
    // two documents that each define a fragment of their own under one name, at the same line and column (fragment
    // names are scoped to their document): what one of them gets must not depend on the other having been printed
    files.insert("src/twin/card.graphql".into(), "fragment Twin on User {\n  id\n  name\n}\nquery TwinCard {\n  me { ...Twin }\n}\n".into());
    files.insert("src/twin/profile.graphql".into(), "fragment Twin on User {\n  age\n}\nquery TwinProfile {\n  me { ...Twin kind }\n}\n".into());
    for id in pc.faults {
        let ft = c18::FAULTS.iter().find(|f| f.id == *id)?;
        let t = files.get_mut(ft.file)?;
        if t.matches(ft.old).count() != 1 {
            return None;
        }
        *t = t.replace(ft.old, ft.new);
    }
    if pc.model_plugin {
        let t = files.get_mut("schema/main.graphql")?;
        *t = t.replace("type Post implements Node {\n  id: ID!", "type Post implements Node {\n  id: ID! @model");
    }
    let mut project = Project::default();
    let schema_files: Vec<String> = files.keys().filter(|k| k.starts_with("schema/")).cloned().collect();
    let op_files: Vec<String> = files.keys().filter(|k| k.starts_with("src/")).cloned().collect();
    project.files = files;
    let schema_out = if pc.runtime { "generated/schema.ts" } else { "generated/schema.d.ts" };
    let mut y = String::new();
    if pc.multi_glob {
        y.push_str("schema:\n  - ./schema/[a-m]*.graphql\n  - ./schema/[n-z]*.graphql\ndocuments:\n  - ./src/*.graphql\n  - ./src/deep/*.graphql\n");
    } else {
        y.push_str("schema: ./schema/*.graphql\ndocuments:\n  - ./src/**/*.graphql\n");
    }
    y.push_str("extensions:\n  nitrogql:\n");
    if pc.model_plugin {
        y.push_str("    plugins:\n      - \"nitrogql:model-plugin\"\n");
    }
    y.push_str(&format!("    generate:\n      mode: {}\n      schemaOutput: ./{schema_out}\n      resolversOutput: ./generated/resolvers.d.ts\n      serverGraphqlOutput: ./generated/graphql.ts\n", MODES[pc.mode].0));
    if pc.runtime {
        y.push_str("      emitSchemaRuntime: true\n");
    }
    y.push_str("      type:\n        scalarTypes:\n          Date: string\n          Url: string\n          Json: unknown\n          Big: { send: bigint, receive: string }\n");
    project.files.insert("graphql.config.yaml".into(), y);
    let mut args: Vec<String> = vec!["--config-file".into(), "graphql.config.yaml".into(), "--output-format".into(), pc.format.into()];
    args.extend(pc.commands.iter().map(|s| s.to_string()));
    Some(BuiltProject { project, args, schema_files, op_files, schema_out: schema_out.to_string() })
}

fn shim_path() -> String {
    std::env::var("NQV_SHIM").unwrap_or_else(|_| crate::report::machinery("NQV_SHIM is not set (run through /verif/check)"))
}

fn run_seeded(bp: &BuiltProject, seed: u64, extra_env: &[(&str, &str)]) -> cli::CliRun {
    let dir = cli::thread_dir("c17");
    cli::materialize(&dir, &bp.project);
    let shim = shim_path();
    let s = seed.to_string();
    let mut env: Vec<(&str, &str)> = vec![("LD_PRELOAD", shim.as_str()), ("NQ_SEED", s.as_str())];
    env.extend_from_slice(extra_env);
    cli::run(&dir, &bp.args, &env, Duration::from_secs(30))
}

/// everything observable about a run, with the scratch directory name normalised
fn observation(r: &cli::CliRun) -> BTreeMap<String, Vec<u8>> {
    let dir = cli::thread_dir("c17").to_string_lossy().to_string();
    // the JSON formats escape `/` as `\/`
    let dir_json = dir.replace('/', "\\/");
    let norm = |s: &str| s.replace(&dir, "<ROOT>").replace(&dir_json, "<ROOT>").into_bytes();
    let mut m = BTreeMap::new();
    m.insert("<exit>".to_string(), format!("{:?} timed_out={}", r.code, r.timed_out).into_bytes());
    m.insert("<stdout>".to_string(), norm(&r.stdout));
    m.insert("<stderr>".to_string(), norm(&r.stderr));
    for (k, v) in &r.after {
        m.insert(k.clone(), v.clone());
    }
    m
}

fn part_b(args: &RunArgs, rep: &Reporter) -> J {
    let seeds: u64 = if args.quick() { 32 } else { 512 };
    let cfgs = project_configs(args.quick());
    let runs = AtomicU64::new(0);
    let files_compared = AtomicU64::new(0);
    let mut per_project = vec![];
    // ownership of the seam: the same seed twice must give identical observations, and the
    // subject's own tables must react to the seed (canary)
    let canary_cfg = &cfgs[0];
    let Some(cbp) = build_project(canary_cfg) else { crate::report::machinery("C17: canary project does not build") };
    let canary_orders: Mutex<BTreeSet<String>> = Mutex::new(BTreeSet::new());
    par_for(seeds.min(64) as usize, args.threads, |s| {
        let r = run_seeded(&cbp, s as u64, &[("RUST_LOG", "info")]);
        // `Loaded config Config { ... scalar_types: {"Date": ..., ...} ...}`: the order of the scalar names
        if let Some(line) = r.stderr.lines().chain(r.stdout.lines()).find(|l| l.contains("scalar_types: {")) {
            let mut pos: Vec<(usize, &str)> = ["\"Date\"", "\"Url\"", "\"Json\"", "\"Big\""].iter().filter_map(|n| line.find(n).map(|i| (i, *n))).collect();
            pos.sort();
            canary_orders.lock().unwrap().insert(pos.iter().map(|p| p.1).collect::<Vec<_>>().join(">"));
        }
    });
    let canary_n = canary_orders.lock().unwrap().len();
    if canary_n < 2 {
        eprintln!("MACHINERY the hash-seed seam does not drive the subject's tables: the logged scalar map showed {canary_n} distinct order(s) over {} seeds: {:?}", seeds.min(64), canary_orders.lock().unwrap());
        std::process::exit(2);
    }
    for pc in &cfgs {
        let Some(bp) = build_project(pc) else {
            rep.report(Violation { key: format!("machinery.project:{}", pc.name), what: "project does not build".into(), case: json!({}) });
            continue;
        };
        let base = observation(&run_seeded(&bp, 0, &[]));
        let again = observation(&run_seeded(&bp, 0, &[]));
        if base != again {
            // nondeterminism that does not come from the hash seed is still a violation of "byte-identical runs"
            let diff: Vec<&String> = base.keys().chain(again.keys()).filter(|k| base.get(*k) != again.get(*k)).collect();
            rep.report(Violation {
                key: format!("b.same_seed_differs:{}", classify_file(diff.first().map(|s| s.as_str()).unwrap_or(""))),
                what: format!("project {}: two runs under the SAME hash seed differ in {:?}", pc.name, diff),
                case: json!({"part": "b", "project": pc.name, "args": bp.args, "files": bp.project.files}),
            });
        }
        // history independence: the same inputs reached through an earlier generation of slightly different inputs
        // (every GraphQL file had one more comment line on top) must leave the same bytes as the clean run
        if pc.faults.is_empty() {
            let dir = cli::thread_dir("c17");
            let mut prev = bp.project.clone();
            for (k, v) in prev.files.iter_mut() {
                if k.ends_with(".graphql") {
                    *v = format!("# an earlier state of this file\n{v}");
                }
            }
            cli::materialize(&dir, &prev);
            let shim = shim_path();
            let env: Vec<(&str, &str)> = vec![("LD_PRELOAD", shim.as_str()), ("NQ_SEED", "0")];
            let _ = cli::run(&dir, &bp.args, &env, Duration::from_secs(30));
            cli::overwrite(&dir, &bp.project);
            let second = observation(&cli::run(&dir, &bp.args, &env, Duration::from_secs(30)));
            runs.fetch_add(2, Ordering::Relaxed);
            let keys: BTreeSet<&String> = base.keys().chain(second.keys()).filter(|k| base.get(*k) != second.get(*k)).collect();
            for k in keys {
                let show = |m: &BTreeMap<String, Vec<u8>>| m.get(k).map(|b| String::from_utf8_lossy(b).chars().take(3000).collect::<String>());
                rep.report(Violation {
                    key: format!("b.output_depends_on_an_earlier_run:{}", classify_file(k)),
                    what: format!("project {}: {} after (generate on earlier inputs, edit, generate) differs from a run on the same inputs in a clean directory", pc.name, k),
                    case: json!({"part": "b", "project": pc.name, "args": bp.args, "what_differs": k, "clean_run": show(&base), "after_history": show(&second), "files": bp.project.files}),
                });
            }
        }
        let written = base.keys().filter(|k| !k.starts_with('<') && !bp.project.files.contains_key(*k)).count();
        let differing_seeds: Mutex<Vec<u64>> = Mutex::new(vec![]);
        par_for(seeds as usize - 1, args.threads, |i| {
            let seed = i as u64 + 1;
            let o = observation(&run_seeded(&bp, seed, &[]));
            runs.fetch_add(1, Ordering::Relaxed);
            files_compared.fetch_add(o.len() as u64, Ordering::Relaxed);
            if o != base {
                differing_seeds.lock().unwrap().push(seed);
                let keys: BTreeSet<&String> = base.keys().chain(o.keys()).filter(|k| base.get(*k) != o.get(*k)).collect();
                for k in keys {
                    let show = |m: &BTreeMap<String, Vec<u8>>| m.get(k).map(|b| String::from_utf8_lossy(b).chars().take(3000).collect::<String>());
                    rep.report(Violation {
                        key: format!("b.output_depends_on_hash_seed:{}:{}", if pc.faults.is_empty() { "valid" } else { "faulty" }, classify_file(k)),
                        what: format!("project {}: {} differs between hash seed 0 and hash seed {seed}", pc.name, k),
                        case: json!({"part": "b", "project": pc.name, "args": bp.args, "seed_a": 0, "seed_b": seed, "what_differs": k, "with_seed_a": show(&base), "with_seed_b": show(&o), "files": bp.project.files}),
                    });
                }
            }
        });
        per_project.push(json!({"project": pc.name, "commands": pc.commands, "format": pc.format, "seeds": seeds, "exit": String::from_utf8_lossy(&base["<exit>"]), "files_written": written, "seeds_differing_from_seed_0": differing_seeds.lock().unwrap().len()}));
    }
    cli::cleanup("c17");
    // measured order coverage of the explored seeds (probe under the same shim)
    let probe = order_coverage(seeds, args.threads);
    json!({
        "seeds": seeds,
        "projects": per_project,
        "cli_runs": runs.load(Ordering::Relaxed) + 2 * cfgs.len() as u64,
        "observations_compared(files+streams)": files_compared.load(Ordering::Relaxed),
        "canary_distinct_scalar_map_orders_in_the_subject_log": canary_n,
        "canary_orders": *canary_orders.lock().unwrap(),
        "order_coverage_probe": probe,
    })
}

fn classify_file(k: &str) -> &'static str {
    if k == "<stdout>" {
        "stdout"
    } else if k == "<stderr>" {
        "stderr"
    } else if k == "<exit>" {
        "exit-status"
    } else if k.ends_with(".map") {
        "source-map"
    } else if k.ends_with("graphql.ts") && k.starts_with("generated/") {
        "server-schema"
    } else if k.contains("resolvers") {
        "resolvers-declarations"
    } else if k.contains("schema.") {
        "schema-declarations"
    } else {
        "operation-declarations"
    }
}

/// child mode: print the iteration orders std gives two key sets for the first 64 maps of this process
pub fn child_probe() -> i32 {
    use std::collections::HashMap;
    let mut out = vec![];
    for _ in 0..64 {
        let mut m3: HashMap<&str, ()> = HashMap::new();
        for k in ["User", "Post", "Bot"] {
            m3.insert(k, ());
        }
        let mut m4: HashMap<String, ()> = HashMap::new();
        for k in ["Date", "Url", "Json", "Big"] {
            m4.insert(k.to_string(), ());
        }
        out.push(json!([m3.keys().cloned().collect::<Vec<_>>().join(">"), m4.keys().cloned().collect::<Vec<_>>().join(">")]));
    }
    println!("{}", J::Array(out));
    0
}

fn order_coverage(seeds: u64, threads: usize) -> J {
    let exe = std::env::current_exe().expect("current_exe");
    let shim = shim_path();
    // per ordinal: set of orders seen over the seeds
    let acc: Mutex<Vec<(BTreeSet<String>, BTreeSet<String>)>> = Mutex::new(vec![(BTreeSet::new(), BTreeSet::new()); 64]);
    let failed = AtomicU64::new(0);
    par_for(seeds as usize, threads, |s| {
        let o = std::process::Command::new(&exe).arg("CHILD").env("NQV_CHILD", "c17-probe").env("LD_PRELOAD", &shim).env("NQ_SEED", s.to_string()).output();
        let Ok(o) = o else {
            failed.fetch_add(1, Ordering::Relaxed);
            return;
        };
        let Ok(v) = serde_json::from_slice::<J>(&o.stdout) else {
            failed.fetch_add(1, Ordering::Relaxed);
            return;
        };
        let mut g = acc.lock().unwrap();
        for (i, pair) in v.as_array().into_iter().flatten().enumerate().take(64) {
            g[i].0.insert(pair[0].as_str().unwrap_or("").to_string());
            g[i].1.insert(pair[1].as_str().unwrap_or("").to_string());
        }
    });
    let g = acc.lock().unwrap();
    let full3 = g.iter().filter(|x| x.0.len() == 6).count();
    let min3 = g.iter().map(|x| x.0.len()).min().unwrap_or(0);
    let full4 = g.iter().filter(|x| x.1.len() == 24).count();
    let min4 = g.iter().map(|x| x.1.len()).min().unwrap_or(0);
    json!({
        "what": "for each of the first 64 HashMaps a process creates (std increments the key per map), the distinct iteration orders of a 3-key and a 4-key set over the explored seeds",
        "probe_failures": failed.load(Ordering::Relaxed),
        "three_keys": {"ordinals_with_all_6_orders": full3, "of": 64, "fewest_orders_at_an_ordinal": min3},
        "four_keys": {"ordinals_with_all_24_orders": full4, "of": 64, "fewest_orders_at_an_ordinal": min4},
    })
}

// ------------------------------------------------------------------------------------------ (c) in-process == CLI

/// The files `generate` writes, computed with library entry points only (no code of crates/cli
/// except builtins.rs): relative path -> bytes. Mirrors crates/cli/src/generate.rs.
pub fn generate_in_process(root: &std::path::Path, bp: &BuiltProject, pc: &ProjCfg) -> Result<BTreeMap<String, Vec<u8>>, String> {
    use nitrogql_printer::{OperationTypePrinterOptions, ResolverTypePrinter, ResolverTypePrinterOptions, SchemaTypePrinter, SchemaTypePrinterOptions, print_types_for_operation_document};
    use nitrogql_utils::relative_path;
    use sourcemap_writer::{SourceWriter, print_source_map_json};
    let yaml = &bp.project.files["graphql.config.yaml"];
    let cfg = nitrogql_config_file::parse_config(yaml).ok_or("config does not parse")?;
    let schema_paths: Vec<PathBuf> = bp.schema_files.iter().map(|f| root.join(f)).collect();
    let schema_texts: Vec<String> = bp.schema_files.iter().map(|f| bp.project.files[f].clone()).collect();
    let op_inputs: Vec<(PathBuf, String)> = bp.op_files.iter().map(|f| (root.join(f), bp.project.files[f].clone())).collect();
    let parsed = pipeline::parse_schema_files(&schema_texts).map_err(|f| format!("schema parse: {:?}", f.diags))?;
    let doc = pipeline::resolve_and_check_schema(parsed).map_err(|f| format!("schema check: {:?}", f.diags))?;
    let schema = pipeline::to_schema(&doc);
    let ops = pipeline::load_operations(&op_inputs, schema_texts.len()).map_err(|f| format!("operations: {:?}", f.diags))?;
    pipeline::check_operations(&schema, &ops).map_err(|f| format!("check: {:?}", f.diags))?;
    let mut out: BTreeMap<String, Vec<u8>> = BTreeMap::new();
    let n_schema = schema_paths.len();
    let n_all = n_schema + op_inputs.len();
    let mut emit = |rel: &str, buffers: sourcemap_writer::SourceWriterBuffers, sources: Vec<&std::path::Path>| -> Result<(), String> {
        let path = root.join(rel);
        let file_name = path.file_name().unwrap().to_string_lossy().to_string();
        out.insert(rel.to_string(), format!("{}\n//# sourceMappingURL={}.map\n", buffers.buffer, file_name).into_bytes());
        let mut map = String::new();
        print_source_map_json(&path, &sources, &buffers.names, &buffers.source_map, &mut map).map_err(|e| e.to_string())?;
        out.insert(format!("{rel}.map"), map.into_bytes());
        Ok(())
    };
    let schema_only: Vec<usize> = (0..n_all).map(|i| if i < n_schema { i } else { usize::MAX }).collect();
    let schema_sources: Vec<&std::path::Path> = schema_paths.iter().map(|p| p.as_path()).collect();
    {
        let mut w = SourceWriter::new();
        w.set_file_index_mapper(schema_only.clone());
        let mut p = SchemaTypePrinter::new(SchemaTypePrinterOptions::from_config(&cfg), &mut w);
        p.print_document(&doc).map_err(|e| format!("{e:?}"))?;
        emit(&bp.schema_out, w.into_buffers(), schema_sources.clone())?;
    }
    let server_module = pipeline::server_graphql(&doc).into_bytes();
    let schema_out_abs = root.join(&bp.schema_out);
    let to_js = |p: PathBuf| -> String {
        let s = p.to_string_lossy().to_string();
        for (a, b) in [(".d.ts", ".js"), (".ts", ".js")] {
            if let Some(x) = s.strip_suffix(a) {
                return format!("{x}{b}");
            }
        }
        s
    };
    {
        let resolvers_abs = root.join("generated/resolvers.d.ts");
        let mut o = ResolverTypePrinterOptions::from_config(&cfg);
        o.schema_source = to_js(relative_path(&resolvers_abs, &schema_out_abs));
        let mut w = SourceWriter::new();
        w.set_file_index_mapper(schema_only.clone());
        let mut p = ResolverTypePrinter::new(o, &mut w);
        let plugins: Vec<nitrogql_plugin::Plugin> = vec![];
        p.print_document(&doc, &plugins).map_err(|e| format!("{e:?}"))?;
        emit("generated/resolvers.d.ts", w.into_buffers(), schema_sources.clone())?;
    }
    for (i, (path, opdoc, _, idx)) in ops.iter().enumerate() {
        let rel_in = &bp.op_files[i];
        let rel_out = format!("{}.{}", rel_in.strip_suffix(".graphql").unwrap(), MODES[pc.mode].1);
        let decl_abs = root.join(&rel_out);
        let mut o = OperationTypePrinterOptions::from_config(&cfg);
        o.schema_source = to_js(relative_path(&decl_abs, &schema_out_abs));
        // sources of an operation declaration: schema files, then (in input order) the file itself and
        // the files whose fragments it imports
        let _ = path;
        let mut from: Vec<usize> = opdoc.definitions.iter().map(|d| nitrogql_ast::base::HasPos::position(d).file).chain(std::iter::once(*idx)).filter(|k| *k >= n_schema).collect();
        from.sort_unstable();
        from.dedup();
        let mapper: Vec<usize> = (0..n_all).map(|k| if k < n_schema { k } else if let Ok(nth) = from.binary_search(&k) { n_schema + nth } else { usize::MAX }).collect();
        let mut w = SourceWriter::new();
        w.set_file_index_mapper(mapper);
        // on a thread of its own: the bytes this document gets alone (no per-thread state left by earlier documents)
        crate::util::on_fresh_thread(|| print_types_for_operation_document(o, &schema, opdoc, &mut w));
        let mut sources = schema_sources.clone();
        for k in &from {
            sources.push(op_inputs[*k - n_schema].0.as_path());
        }
        emit(&rel_out, w.into_buffers(), sources)?;
    }
    out.insert("generated/graphql.ts".into(), server_module);
    Ok(out)
}

fn part_c(args: &RunArgs, rep: &Reporter) -> J {
    let mut compared = 0u64;
    let mut projects = 0u64;
    for pc in project_configs(args.quick()).iter().filter(|p| p.faults.is_empty() && !p.model_plugin) {
        let Some(bp) = build_project(pc) else { continue };
        let dir = cli::thread_dir("c17");
        cli::materialize(&dir, &bp.project);
        let mut a = bp.args.clone();
        // make sure generate runs
        if !a.iter().any(|x| x == "generate") {
            a.push("generate".into());
        }
        let r = cli::run(&dir, &a, &[], Duration::from_secs(30));
        let expect = match catch(|| generate_in_process(&dir, &bp, pc)) {
            Ok(Ok(m)) => m,
            Ok(Err(e)) => {
                rep.report(Violation { key: "machinery.c_inprocess".into(), what: format!("in-process generation failed: {e}"), case: json!({"project": pc.name}) });
                continue;
            }
            Err(p) => {
                rep.report(Violation { key: format!("c.panic@{}", p.key()), what: format!("library entry points panic at {}: {}", p.site, p.msg), case: json!({"project": pc.name}) });
                continue;
            }
        };
        projects += 1;
        let written: BTreeMap<&String, &Vec<u8>> = r.after.iter().filter(|(k, v)| r.before.get(*k) != Some(v)).collect();
        let names: BTreeSet<&String> = written.keys().copied().chain(expect.keys()).collect();
        for n in names {
            compared += 1;
            let (c, e) = (written.get(n).copied(), expect.get(n));
            if c != e {
                let show = |b: Option<&Vec<u8>>| b.map(|b| String::from_utf8_lossy(b).to_string());
                let kind = match (c, e) {
                    (None, _) => "only_in_process",
                    (_, None) => "only_cli",
                    _ => "bytes_differ",
                };
                rep.report(Violation {
                    key: format!("c.cli_vs_library:{kind}:{}", classify_file(n)),
                    what: format!("project {}: {n}: the CLI and the library entry points called in-process disagree ({kind})", pc.name),
                    case: json!({"part": "c", "project": pc.name, "file": n, "cli": show(c), "in_process": show(e), "cli_exit": r.code, "cli_stdout": r.stdout}),
                });
            }
        }
    }
    cli::cleanup("c17");
    json!({"projects": projects, "files_compared_bytewise": compared})
}

pub fn run(args: &RunArgs) -> i32 {
    let rep = Reporter::new("C17", &args.tier);
    crate::util::install_hook();
    let ja = part_a(args, &rep);
    let jb = part_b(args, &rep);
    let jc = part_c(args, &rep);
    let states = ja["arrangements"].as_u64().unwrap_or(0) + jb["cli_runs"].as_u64().unwrap_or(0);
    let cov = json!({
        "states": states,
        "transitions": ja["aliases_compared"].as_u64().unwrap_or(0) + jb["observations_compared(files+streams)"].as_u64().unwrap_or(0),
        "traces_validated_against_impl": states + jc["projects"].as_u64().unwrap_or(0),
        "evaluations": states,
        "distinct_nontrivial": ja["arrangements_with_outputs_compared"].as_u64().unwrap_or(0) + jb["cli_runs"].as_u64().unwrap_or(0),
        "rule": "(a) every permutation x split of each definition family, non-trivial = accepted and all outputs compared with the base arrangement; (b) one fresh CLI process per (project, hash seed), every observation compared with seed 0; (c) files written by the CLI vs library entry points",
        "exhaustive": true,
        "a_permutations": ja,
        "b_hash_seeds": jb,
        "c_cli_vs_library": jc,
        "samples": [{"family": FAMILIES[0].name, "items": FAMILIES[0].items}],
    });
    let _ = DistinctSet::new();
    let _ = fnv(b"");
    rep.finish(
        cov,
        vec![
            "hash seeds: std's HashMap keys come from getrandom(2), owned by an LD_PRELOAD shim; a seed range is explored (not all 2^128 keys) and the iteration orders it induces are measured by a probe under the same shim".into(),
            "denotations under permutation are compared as R-TS canonical forms; declaration order is free".into(),
            "(c) covers projects without plugins; the in-process side uses only library crates plus crates/cli/src/builtins.rs".into(),
        ],
    )
}

pub fn replay(case: &J) -> i32 {
    crate::util::install_hook();
    match case["part"].as_str() {
        Some("a") => {
            let files: Vec<String> = case["files"].as_array().map(|a| a.iter().map(|x| x.as_str().unwrap_or("").to_string()).collect()).unwrap_or_default();
            let base: Vec<String> = case["base_files"].as_array().map(|a| a.iter().map(|x| x.as_str().unwrap_or("").to_string()).collect()).unwrap_or_default();
            let doc = case["document"].as_str().unwrap_or("");
            for (i, f) in files.iter().enumerate() {
                println!("--- rearranged file {i} ---\n{f}");
            }
            let show = |r: Result<Result<Out, String>, crate::util::Panic>| match r {
                Err(p) => format!("panic at {}: {}", p.site, p.msg),
                Ok(Err(e)) => format!("schema rejected: {e}"),
                Ok(Ok(o)) => format!("operation verdict: {:?}", o.rejected),
            };
            println!("base arrangement: {}", show(arrange_run(&base, doc)));
            println!("this arrangement: {}", show(arrange_run(&files, doc)));
        }
        _ => println!("{}", serde_json::to_string_pretty(case).unwrap_or_default().replace("\\n", "\n")),
    }
    0
}
