//! C11 — schema extensions merge into their definitions without loss or invention.
//!
//! E2: every sequence of <= N items over {definition, extension} x 7 kinds x 2 names
//! (+ directive definitions), each item carrying uniquely tagged components, split over
//! 1-2 files at every cut point. Inputs go through the real parser (so positions are real),
//! then `resolve_schema_extensions`; the result is compared with a reference merge.

use crate::conv;
use crate::explore::{DistinctSet, fnv, par_for};
use crate::gql::*;
use crate::render::{DefaultPlan, R};
use crate::report::{Args, Reporter, Violation};
use crate::util::catch;
use nitrogql_ast::{TypeSystemOrExtensionDocument, set_current_file_of_pos};
use nitrogql_error::PositionedError;
use nitrogql_parser::parse_type_system_document;
use nitrogql_semantics::resolve_schema_extensions;
use serde_json::{Value as J, json};
use std::collections::BTreeMap;
use std::sync::Mutex;
use std::sync::atomic::{AtomicU64, Ordering};

#[derive(Clone, Copy, Debug, PartialEq, Eq, PartialOrd, Ord)]
pub struct Item {
    kind: TsKind,
    ext: bool,
    name: u8,
    /// a definition that carries nothing optional: no directives, no implemented interfaces
    /// (so that every extension adds to an *empty* component)
    bare: bool,
}

fn alphabet() -> Vec<Item> {
    let mut v = vec![];
    for kind in [TsKind::Object, TsKind::Interface, TsKind::Union, TsKind::Enum, TsKind::Input, TsKind::Scalar] {
        for ext in [false, true] {
            for name in 0..2u8 {
                v.push(Item { kind, ext, name, bare: false });
            }
        }
    }
    v.push(Item { kind: TsKind::Schema, ext: false, name: 0, bare: false });
    v.push(Item { kind: TsKind::Schema, ext: true, name: 0, bare: false });
    v.push(Item { kind: TsKind::Directive, ext: false, name: 0, bare: false });
    v.push(Item { kind: TsKind::Directive, ext: false, name: 1, bare: false });
    v
}

/// second family: bare definitions of `A` of every kind, and (tagged) extensions of `A`
fn alphabet_bare() -> Vec<Item> {
    let mut v = vec![];
    for kind in [TsKind::Object, TsKind::Interface, TsKind::Union, TsKind::Enum, TsKind::Input, TsKind::Scalar, TsKind::Schema] {
        v.push(Item { kind, ext: false, name: 0, bare: true });
        v.push(Item { kind, ext: true, name: 0, bare: false });
    }
    v
}

fn alphabet_all() -> Vec<Item> {
    let mut v = alphabet();
    for i in alphabet_bare() {
        if !v.contains(&i) {
            v.push(i);
        }
    }
    v
}

/// the tagged definition for position i in the sequence
fn build(it: Item, i: usize) -> TsDef {
    let name = ["A", "B"][it.name as usize];
    let mut d = TsDef::new(it.kind, if it.kind == TsKind::Schema { None } else { Some(name) });
    d.ext = it.ext;
    if !it.ext && it.kind != TsKind::Directive {
        d.desc = Some((P::default(), format!("d{i}")));
    }
    let tag_dir = dir(&format!("t{i}"), vec![("n", Value::Int(P::default(), i.to_string()))]);
    match it.kind {
        TsKind::Object | TsKind::Interface => {
            d.implements = vec![nm(&format!("I{i}"))];
            d.dirs = vec![tag_dir];
            d.fields = vec![FieldDef {
                desc: None,
                name: nm(&format!("f{i}")),
                args: None,
                ty: Ty::named("Int"),
                dirs: vec![],
            }];
        }
        TsKind::Union => {
            d.dirs = vec![tag_dir];
            d.members = vec![nm(&format!("M{i}"))];
        }
        TsKind::Enum => {
            d.dirs = vec![tag_dir];
            d.values = vec![EnumValDef {
                desc: None,
                name: nm(&format!("V{i}")),
                dirs: vec![],
            }];
        }
        TsKind::Input => {
            d.dirs = vec![tag_dir];
            d.input_fields = vec![InputValueDef {
                desc: None,
                p: P::default(),
                name: nm(&format!("f{i}")),
                ty: Ty::named("Int"),
                default: None,
                dirs: vec![],
            }];
        }
        TsKind::Scalar => d.dirs = vec![tag_dir],
        TsKind::Schema => {
            d.dirs = vec![tag_dir];
            d.roots = vec![(if it.ext { OpKind::Mutation } else { OpKind::Query }, nm(&format!("R{i}")))];
        }
        TsKind::Directive => {
            d.locations = vec![nm("FIELD")];
            d.dir_args = Some(vec![InputValueDef {
                desc: None,
                p: P::default(),
                name: nm(&format!("a{i}")),
                ty: Ty::named("Int"),
                default: None,
                dirs: vec![],
            }]);
        }
    }
    if it.bare {
        d.dirs.clear();
        d.implements.clear();
    }
    d
}

fn render_items(defs: &[TsDef]) -> String {
    let mut out = String::new();
    for d in defs {
        let mut p = DefaultPlan;
        let mut r = R::new(&mut p);
        r.tsdef(d);
        out.push_str(&r.out);
        out.push('\n');
    }
    out
}

#[derive(Debug)]
enum RefOutcome {
    /// merged definitions keyed by (kind, name)
    Ok(BTreeMap<(TsKind, String), TsDef>, Vec<TsDef>),
    /// indices of items at which an error may legitimately be reported
    Err { dup_items: Vec<usize>, orphan_items: Vec<usize> },
}

fn reference(defs: &[TsDef]) -> RefOutcome {
    let mut groups: BTreeMap<(TsKind, String), (Vec<usize>, Vec<usize>)> = BTreeMap::new();
    let mut directives = vec![];
    for (i, d) in defs.iter().enumerate() {
        if d.kind == TsKind::Directive {
            directives.push(d.clone());
            continue;
        }
        let g = groups.entry((d.kind, d.name_str().to_string())).or_default();
        if d.ext {
            g.1.push(i);
        } else {
            g.0.push(i);
        }
    }
    let mut dup_items = vec![];
    let mut orphan_items = vec![];
    for (origs, exts) in groups.values() {
        if origs.len() > 1 {
            dup_items.extend(origs.iter().copied());
        }
        if origs.is_empty() && !exts.is_empty() {
            orphan_items.extend(exts.iter().copied());
        }
    }
    if !dup_items.is_empty() || !orphan_items.is_empty() {
        return RefOutcome::Err { dup_items, orphan_items };
    }
    let mut merged = BTreeMap::new();
    for (key, (origs, exts)) in groups {
        let mut m = defs[origs[0]].clone();
        for e in exts {
            let x = &defs[e];
            m.implements.extend(x.implements.iter().cloned());
            m.dirs.extend(x.dirs.iter().cloned());
            m.fields.extend(x.fields.iter().cloned());
            m.members.extend(x.members.iter().cloned());
            m.values.extend(x.values.iter().cloned());
            m.input_fields.extend(x.input_fields.iter().cloned());
            m.roots.extend(x.roots.iter().cloned());
        }
        merged.insert(key, m);
    }
    RefOutcome::Ok(merged, directives)
}

struct Cnt {
    cases: AtomicU64,
    ok: AtomicU64,
    err: AtomicU64,
    outcomes: Mutex<BTreeMap<String, u64>>,
}

/// seq: items; cut: number of items in file 0 (== len means a single file)
fn check_case(seq: &[Item], cut: usize) -> Result<&'static str, (String, String)> {
    let defs: Vec<TsDef> = seq.iter().enumerate().map(|(i, it)| build(*it, i)).collect();
    let texts: Vec<String> = if cut >= defs.len() {
        vec![render_items(&defs)]
    } else {
        vec![render_items(&defs[..cut]), render_items(&defs[cut..])]
    };
    // positions of every item per file, from the reference parser
    let mut item_pos: Vec<(usize, P, P)> = vec![]; // (file, first, kw)
    for (fi, t) in texts.iter().enumerate() {
        if t.is_empty() {
            continue;
        }
        let r = crate::rparse::parse_ts(t).map_err(|e| ("machinery.refparse".to_string(), e))?;
        for d in &r.defs {
            item_pos.push((fi, d.p_first, d.p_kw));
        }
    }
    if item_pos.len() != defs.len() {
        return Err(("machinery.itemcount".into(), "reference parser found a different number of items".into()));
    }
    let mut docs = vec![];
    for (fi, t) in texts.iter().enumerate() {
        if t.is_empty() {
            continue;
        }
        set_current_file_of_pos(fi);
        match parse_type_system_document(t) {
            Ok(d) => docs.push(d),
            Err(e) => return Err(("parse.rejects".into(), format!("parser rejects {t:?}: {}", e.into_message()))),
        }
    }
    let merged_in = TypeSystemOrExtensionDocument::merge(docs);
    let got = resolve_schema_extensions(merged_in);
    match (reference(&defs), got) {
        (RefOutcome::Ok(want, directives), Ok(doc)) => {
            let out = conv::ts_doc(&doc);
            let mut seen: BTreeMap<(TsKind, String), TsDef> = BTreeMap::new();
            let mut out_dirs = vec![];
            for d in out.defs {
                if d.ext {
                    return Err(("merge.extension_survives".into(), format!("an extension item survives: {:?}", d.name)));
                }
                if d.kind == TsKind::Directive {
                    out_dirs.push(d);
                    continue;
                }
                let k = (d.kind, d.name_str().to_string());
                if seen.insert(k.clone(), d).is_some() {
                    return Err(("merge.duplicate_output".into(), format!("{k:?} appears twice in the result")));
                }
            }
            if out_dirs != directives {
                return Err(("merge.directive_definitions_changed".into(), "directive definitions not passed through unchanged".into()));
            }
            if seen.len() != want.len() {
                return Err(("merge.definition_set".into(), format!("result has {} definitions, reference {}", seen.len(), want.len())));
            }
            for (k, w) in &want {
                let Some(g) = seen.get(k) else {
                    return Err(("merge.definition_set".into(), format!("{k:?} missing from the result")));
                };
                if g != w {
                    let path = first_diff_path(w, g);
                    let comp = path.split('/').nth(1).unwrap_or("?").to_string();
                    return Err((format!("merge.component:{}:{comp}", k.0.kw()), format!("{k:?} differs from reference merge at {path}")));
                }
            }
            Ok("merged")
        }
        (RefOutcome::Err { dup_items, orphan_items }, Err(e)) => {
            let is_dup = format!("{:?}", e.message).starts_with("DuplicateOriginal");
            let pe: PositionedError = e.into();
            let Some(pos) = pe.position() else {
                return Err(("error.no_position".into(), "extension error without a position".into()));
            };
            let cands = if is_dup { &dup_items } else { &orphan_items };
            if cands.is_empty() {
                return Err((
                    "error.wrong_kind".into(),
                    format!("reported {} but the document only has the other kind of fault", if is_dup { "a duplicate" } else { "an orphan extension" }),
                ));
            }
            let hit = cands.iter().any(|i| {
                let (f, pf, pk) = item_pos[*i];
                pos.file == f && ((pos.line as u32 == pf.line && pos.column as u32 == pf.col) || (pos.line as u32 == pk.line && pos.column as u32 == pk.col))
            });
            if !hit {
                return Err((
                    format!("error.position:{}", if is_dup { "duplicate" } else { "orphan" }),
                    format!("diagnostic at file {} {}:{} is not at an offending item", pos.file, pos.line, pos.column),
                ));
            }
            Ok(if is_dup { "err-duplicate" } else { "err-orphan" })
        }
        (RefOutcome::Ok(..), Err(e)) => Err(("verdict.rejects_valid".into(), format!("resolution fails on a mergeable document: {:?}", e.message))),
        (RefOutcome::Err { .. }, Ok(_)) => Err(("verdict.accepts_invalid".into(), "resolution succeeds although a name is defined twice or an extension has no definition".into())),
    }
}

fn seq_json(seq: &[Item]) -> J {
    J::Array(seq.iter().map(|i| json!([format!("{:?}", i.kind), i.ext, i.name])).collect())
}

// ------------------------------------------------------------------------------------------ through the CLI

/// Schema items that keep the project checkable: every sequence of them is placed around a base file
/// (`schema/m.graphql`) in a file sorted before it and/or a file sorted after it. Extensions and
/// re-definitions of the built-in scalars are letters: the built-ins are part of the document the
/// CLI hands to the resolver.
const CLI_BASE: &str = "type Query { a: String t: T i: I u: U e: E d: Date f(x: In): Int }\ntype T implements I { id: ID x: Int }\ninterface I { id: ID }\nunion U = T\nenum E { A }\ninput In { a: Int }\nscalar Date\ndirective @tag(n: Int) repeatable on SCHEMA | SCALAR | OBJECT | INTERFACE | UNION | ENUM | INPUT_OBJECT\n";
const CLI_ITEMS: [&str; 24] = [
    "extend type T { y: Int }",
    "extend type T @tag(n: 1)",
    "extend interface I { k: Int }\nextend type T { k: Int }",
    "extend union U = Query",
    "extend enum E { B }",
    "extend input In { b: Int }",
    "extend scalar Date @tag(n: 2)",
    "extend scalar String @tag(n: 3)",
    "extend scalar ID @tag(n: 4)",
    "extend scalar Boolean @tag(n: 5)",
    "extend scalar Int @tag(n: 6)",
    "extend scalar Float @tag(n: 7)",
    "scalar ID",
    "scalar String",
    "scalar Date",
    "type T { z: Int }",
    "schema { query: Query }",
    "extend schema @tag(n: 8)",
    "extend type Nobody { a: Int }",
    "extend scalar Nothing @tag(n: 9)",
    "type Extra { a: Int }\nextend type Extra { b: Date }",
    "directive @skip(if: Boolean!) on FIELD",
    "directive @tag(n: Int) on SCALAR",
    "enum E { C }",
];

/// does the reference (group by kind and name; built-in scalars count as defined) accept the items?
fn cli_reference_accepts(items: &[usize]) -> Option<bool> {
    let mut text = String::from(CLI_BASE);
    for i in items {
        text.push_str(CLI_ITEMS[*i]);
        text.push('\n');
    }
    let doc = crate::rparse::parse_ts(&text).ok()?;
    let mut defs: Vec<TsDef> = doc.defs;
    for b in ["Int", "Float", "String", "Boolean", "ID"] {
        defs.push(TsDef::new(TsKind::Scalar, Some(b)));
    }
    Some(matches!(reference(&defs), RefOutcome::Ok(..)))
}

fn part_cli(args: &Args, rep: &Reporter) -> J {
    use crate::clilayer::{CProj, run_and_compare};
    let n = CLI_ITEMS.len();
    let depth = if args.quick() { 2 } else { 3 };
    let runs = AtomicU64::new(0);
    let accepted = AtomicU64::new(0);
    let files = AtomicU64::new(0);
    let mut seqs: Vec<Vec<usize>> = vec![vec![]];
    for len in 1..=depth {
        for code in 0..n.pow(len as u32) {
            let mut x = code;
            let seq: Vec<usize> = (0..len).map(|_| { let v = x % n; x /= n; v }).collect();
            // the same item twice only for items that are extensions (a definition twice is covered by the dup letters)
            seqs.push(seq);
        }
    }
    par_for(seqs.len(), args.threads, |si| {
        let seq = &seqs[si];
        // placement of each item: file a (sorted before the base) or file z (after it)
        for place in 0..(1usize << seq.len()) {
            if seq.len() == 3 && !(place == 0 || place == 7 || place == 2 || place == 5) {
                continue;
            }
            let (mut a, mut z) = (String::new(), String::new());
            for (k, it) in seq.iter().enumerate() {
                let dst = if place >> k & 1 == 0 { &mut a } else { &mut z };
                dst.push_str(CLI_ITEMS[*it]);
                dst.push('\n');
            }
            // layout 1: the two item files live in a second directory matched by a second pattern, under names
            // that differ only in letter case (two files on a case-sensitive file system)
            let layouts: &[usize] = if !a.is_empty() && !z.is_empty() && (!args.quick() || place == 2) { &[0, 1] } else { &[0] };
            for &layout in layouts {
            let (a, z) = (a.clone(), z.clone());
            let (na, nz) = if layout == 0 { ("schema/a.graphql", "schema/z.graphql") } else { ("schema/types/Ext.graphql", "schema/types/ext.graphql") };
            let mut schema = vec![("schema/m.graphql".to_string(), CLI_BASE.to_string())];
            if !a.is_empty() {
                schema.push((na.to_string(), a));
            }
            if !z.is_empty() {
                schema.push((nz.to_string(), z));
            }
            let mut p = CProj::new(schema, vec![("src/q.graphql".to_string(), "query Q { a t { id } }\n".to_string())]);
            if layout == 1 {
                p.schema_globs = vec!["./schema/*.graphql".into(), "./schema/types/*.graphql".into()];
            }
            p.extra_generate = "      type:\n        scalarTypes:\n          Date: string\n".into();
            let case = |extra: J| json!({"part": "cli", "layout": layout, "items": seq.iter().map(|i| CLI_ITEMS[*i]).collect::<Vec<_>>(), "placement": place, "project": p.to_json(), "detail": extra});
            runs.fetch_add(1, Ordering::Relaxed);
            match run_and_compare(&p, "c11") {
                Err(pn) => rep.report(Violation { key: format!("cli.library_panic@{}", pn.key()), what: format!("library entry points panic at {}: {}", pn.site, pn.msg), case: case(json!({})) }),
                Ok(Err(e)) => rep.report(Violation { key: "machinery.clilayer".into(), what: e, case: case(json!({})) }),
                Ok(Ok(c)) => {
                    if c.accepted {
                        accepted.fetch_add(1, Ordering::Relaxed);
                    }
                    files.fetch_add(c.files_compared as u64, Ordering::Relaxed);
                    for (k, w) in &c.diffs {
                        rep.report(Violation { key: format!("cli.{k}"), what: format!("items {:?} (placement {place:b}): {w}", seq.iter().map(|i| CLI_ITEMS[*i]).collect::<Vec<_>>()), case: case(json!({"cli_exit": c.cli.code, "cli_stdout": c.cli.stdout.chars().take(3000).collect::<String>(), "library_route": c.expected_summary})) });
                    }
                    // the reference verdict on duplicates / orphans binds both routes
                    if let Some(false) = cli_reference_accepts(seq)
                        && c.cli.code == Some(0)
                    {
                        rep.report(Violation { key: "cli.verdict.accepts_duplicate_or_orphan".into(), what: format!("items {:?}: the CLI accepts a schema in which a name is defined twice within a kind or an extension has no definition", seq.iter().map(|i| CLI_ITEMS[*i]).collect::<Vec<_>>()), case: case(json!({})) });
                    }
                }
            }
            }
        }
    });
    crate::cli::cleanup("c11");
    json!({"item_alphabet": n, "max_items": depth, "placements": "every assignment of items to a file before / after the base file (length 3: all-before, all-after, two alternating)", "layouts": "one pattern, files a / z beside the base; for split placements also two patterns with the item files in a second directory under names differing only in letter case", "cli_runs": runs.load(Ordering::Relaxed), "accepted_and_all_outputs_compared": accepted.load(Ordering::Relaxed), "files_compared_bytewise": files.load(Ordering::Relaxed)})
}

pub fn run(args: &Args) -> i32 {
    let rep = Reporter::new("C11", &args.tier);
    crate::util::install_hook();
    let cli_part = part_cli(args, &rep);
    let all = alphabet_all();
    let depth = if args.quick() { 4 } else { 5 };
    let cnt = Cnt {
        cases: AtomicU64::new(0),
        ok: AtomicU64::new(0),
        err: AtomicU64::new(0),
        outcomes: Mutex::new(BTreeMap::new()),
    };
    let distinct = DistinctSet::new();
    let families: Vec<(Vec<Item>, usize)> = vec![(alphabet(), depth), (alphabet_bare(), depth)];
    let a = families[0].0.len();
    for (alpha, depth) in &families {
    let (alpha, depth, a) = (alpha.clone(), *depth, alpha.len());
    for len in 1..=depth {
        let total = a.pow(len as u32);
        let heads = a.pow(len.min(2) as u32);
        let tail = total / heads;
        par_for(heads, args.threads, |h| {
            let mut local: BTreeMap<String, u64> = BTreeMap::new();
            let mut seq = vec![alpha[0]; len];
            let mut hh = h;
            for s in seq.iter_mut().take(len.min(2)) {
                *s = alpha[hh % a];
                hh /= a;
            }
            for t in 0..tail {
                let mut tt = t;
                for s in seq.iter_mut().skip(2) {
                    *s = alpha[tt % a];
                    tt /= a;
                }
                // cut points: every one up to depth 4; for depth 5 only none / first / middle
                let cuts: Vec<usize> = if len <= 4 { (1..=len).collect() } else { vec![len, 1, len / 2] };
                for cut in cuts {
                    cnt.cases.fetch_add(1, Ordering::Relaxed);
                    let r = catch(|| check_case(&seq, cut));
                    match r {
                        Ok(Ok(o)) => {
                            *local.entry(o.to_string()).or_insert(0) += 1;
                            if o == "merged" {
                                cnt.ok.fetch_add(1, Ordering::Relaxed);
                            } else {
                                cnt.err.fetch_add(1, Ordering::Relaxed);
                            }
                            distinct.insert(fnv(format!("{seq:?}{cut}").as_bytes()));
                        }
                        Ok(Err((key, what))) => rep.report(Violation {
                            key,
                            what,
                            case: json!({"seq": seq_json(&seq), "cut": cut, "seq_idx": seq.iter().map(|i| all.iter().position(|x| x == i).unwrap()).collect::<Vec<_>>()}),
                        }),
                        Err(p) => rep.report(Violation {
                            key: format!("panic@{}", p.key()),
                            what: format!("panic at {}: {}", p.site, p.msg),
                            case: json!({"seq": seq_json(&seq), "cut": cut, "seq_idx": seq.iter().map(|i| all.iter().position(|x| x == i).unwrap()).collect::<Vec<_>>()}),
                        }),
                    }
                }
            }
            let mut g = cnt.outcomes.lock().unwrap();
            for (k, v) in local {
                *g.entry(k).or_insert(0) += v;
            }
        });
    }
    }
    let alpha = alphabet();
    let cases = cnt.cases.load(Ordering::Relaxed);
    let sample_seq = [alpha[1 * 0 + 2], alpha[0], alpha[3], alpha[2]];
    let sample_defs: Vec<TsDef> = sample_seq.iter().enumerate().map(|(i, it)| build(*it, i)).collect();
    let cov = json!({
        "states": distinct.len(),
        "transitions": cases * depth as u64,
        "traces_validated_against_impl": cases,
        "evaluations": cases,
        "distinct_nontrivial": cnt.ok.load(Ordering::Relaxed),
        "rule": "every sequence of <= depth items over a 28-letter alphabet ({definition, extension} x {object, interface, union, enum, input, scalar} x {A, B}, schema definition/extension, two directive definitions) x every file cut point; non-trivial = a document that merges (reference and subject both succeed) and was compared component-wise",
        "exhaustive": true,
        "bound": {"depth": depth, "alphabet": a, "second_family": "bare definitions (no directives / interfaces) of A of every kind + extensions of A: 14 letters, same depth", "cuts": "all for length <= 4; none/first/middle for length 5"},
        "outcomes": *cnt.outcomes.lock().unwrap(),
        "error_cases_checked_for_position": cnt.err.load(Ordering::Relaxed),
        "through_the_cli": cli_part,
        "samples": [{"files": [render_items(&sample_defs[..2]), render_items(&sample_defs[2..])]}],
    });
    rep.finish(
        cov,
        vec![
            "reference merge (group by kind and name; original ++ extensions in document order) is the specification".into(),
            "an error may be reported at any offending item (either duplicate, any orphan extension), at its first token or its keyword".into(),
            "through the CLI: verdict, located diagnostics and every written byte of `check generate` must equal what the library entry points give in-process for the same files (built-in definitions appended as the CLI's builtins.rs gives them); the reference merge judges the resolver itself".into(),
        ],
    )
}

pub fn replay(case: &J) -> i32 {
    if case["part"].as_str() == Some("cli") {
        println!("{}", serde_json::to_string_pretty(case).unwrap_or_default().replace("\\n", "\n"));
        return 0;
    }
    let alpha = alphabet_all();
    let seq: Vec<Item> = case["seq_idx"].as_array().unwrap().iter().map(|i| alpha[i.as_u64().unwrap() as usize]).collect();
    let cut = case["cut"].as_u64().unwrap() as usize;
    let defs: Vec<TsDef> = seq.iter().enumerate().map(|(i, it)| build(*it, i)).collect();
    if cut >= defs.len() {
        println!("--- file 0 ---\n{}", render_items(&defs));
    } else {
        println!("--- file 0 ---\n{}--- file 1 ---\n{}", render_items(&defs[..cut]), render_items(&defs[cut..]));
    }
    match check_case(&seq, cut) {
        Ok(o) => {
            println!("passes: {o}");
            0
        }
        Err((k, w)) => {
            println!("FAIL {k}: {w}");
            1
        }
    }
}
