//! C03 + C04 — exactness of `check` on operation documents.
//!
//! C04: E1 over type-directed documents (every spec input coercion, variable forms, fragment
//! applicability between all kinds, directives at all locations); every document the reference
//! validator (R-VALID-OP) accepts must get zero diagnostics.
//! C03: every labelled single-fault mutation of those valid documents at every applicable site
//! (operation, nested, inline fragment, spread fragment, unspread fragment, directive arguments,
//! nested literals), confirmed by R-VALID-OP for that rule, must get a diagnostic of that rule.

use crate::explore::{Chooser, DistinctSet, ExploreCfg, explore, fnv};
use crate::gen_sem::*;
use crate::gql::*;
use crate::pipeline;
use crate::render::exec_text;
use crate::report::{Args as RunArgs, Reporter, Violation, stats_json};
use crate::rparse::parse_exec;
use crate::schema::Sch;
use crate::util::catch;
use crate::valid_op;
use graphql_type_system::Schema;
use nitrogql_ast::base::Pos;
use serde_json::{Value as J, json};
use std::borrow::Cow;
use std::collections::{BTreeMap, BTreeSet};
use std::path::PathBuf;
use std::sync::atomic::{AtomicU64, Ordering};
use std::sync::{Mutex, OnceLock};
use std::time::Duration;

pub struct Subject {
    pub schema: Schema<Cow<'static, str>, Pos>,
    pub doc: nitrogql_ast::TypeSystemDocument<'static>,
    pub text: String,
}

pub fn subject_schema() -> &'static Subject {
    static S: OnceLock<Subject> = OnceLock::new();
    S.get_or_init(|| {
        let texts: &'static Vec<String> = Box::leak(Box::new(vec![SEM_SCHEMA.to_string()]));
        let parsed = pipeline::parse_schema_files(texts).unwrap_or_else(|_| crate::report::machinery("SEM_SCHEMA does not parse"));
        let doc = pipeline::resolve_and_check_schema(parsed).unwrap_or_else(|f| crate::report::machinery(&format!("SEM_SCHEMA rejected by the subject: {:?}", f.diags)));
        let doc: &'static nitrogql_ast::TypeSystemDocument<'static> = Box::leak(Box::new(doc));
        Subject { schema: pipeline::to_schema(doc), doc: doc.clone(), text: SEM_SCHEMA.to_string() }
    })
}

/// run the subject's check on one operation file; Ok(()) or the diagnostics
pub fn subject_check(text: &str) -> Result<Result<(), Vec<pipeline::Diag>>, crate::util::Panic> {
    let s = subject_schema();
    let ops = vec![(PathBuf::from("/p/a.graphql"), text.to_string())];
    catch(|| {
        let loaded = match pipeline::load_operations(&ops, 1) {
            Ok(l) => l,
            Err(f) => return Err(f.diags),
        };
        match pipeline::check_operations(&s.schema, &loaded) {
            Ok(()) => Ok(()),
            Err(f) => Err(f.diags),
        }
    })
}

pub const IMPLEMENTED_OP: [&str; 25] = [
    "op.unique_name", "op.lone_anonymous", "sub.single_root", "field.exists", "field.leaf", "field.composite", "arg.known", "arg.required",
    "value.type", "value.enum", "input.field_known", "input.field_required", "var.unique", "var.input_type", "var.defined", "var.usage",
    "frag.unique_name", "frag.type_exists", "frag.composite", "spread.defined", "spread.cycle", "spread.possible", "dir.defined", "dir.location", "dir.unique",
];

pub fn allowed_kinds(rule: &str) -> &'static [&'static str] {
    match rule {
        "op.unique_name" => &["DuplicateOperationName"],
        "op.lone_anonymous" => &["UnNamedOperationMustBeSingle"],
        "sub.single_root" => &["SubscriptionMustHaveExactlyOneRootField"],
        "field.exists" => &["FieldNotFound"],
        "field.leaf" => &["SelectionOnInvalidType"],
        "field.composite" => &["MustSpecifySelectionSet"],
        "arg.known" => &["UnknownArgument", "ArgumentsNotNeeded"],
        "arg.required" => &["RequiredArgumentNotSpecified"],
        "value.type" => &["TypeMismatch", "UnknownEnumMember"],
        "value.enum" => &["UnknownEnumMember", "TypeMismatch"],
        "input.field_known" => &["UnknownField", "TypeMismatch"],
        "input.field_required" => &["RequiredFieldNotSpecified", "TypeMismatch"],
        "var.unique" => &["DuplicatedVariableName"],
        "var.input_type" => &["NoOutputType", "UnknownType"],
        "var.defined" => &["UnknownVariable"],
        "var.usage" => &["TypeMismatch"],
        "frag.unique_name" => &["DuplicateFragmentName"],
        "frag.type_exists" => &["UnknownType"],
        "frag.composite" => &["InvalidFragmentTarget", "SelectionOnInvalidType"],
        "spread.defined" => &["UnknownFragment"],
        "spread.cycle" => &["RecursingFragmentSpread"],
        "spread.possible" => &["FragmentConditionNeverMatches"],
        "dir.defined" => &["UnknownDirective"],
        "dir.location" => &["DirectiveLocationNotAllowed"],
        "dir.unique" => &["RepeatedDirective"],
        _ => &[],
    }
}

fn p0() -> P {
    P::default()
}
fn field(name: &str) -> Sel {
    Sel::Field { alias: None, name: nm(name), args: None, dirs: vec![], sel: None }
}

/// apply `walk(doc, k)` for k = 0, 1, ... while it reports that site k exists
fn kth(base: &ExecDoc, mut walk: impl FnMut(&mut ExecDoc, usize) -> Option<String>) -> Vec<(String, ExecDoc)> {
    let mut out = vec![];
    for k in 0..200 {
        let mut d = base.clone();
        match walk(&mut d, k) {
            Some(tag) => out.push((tag, d)),
            None => break,
        }
    }
    out
}

fn ctx_tag(ctx: &SelCtx) -> String {
    let place = if ctx.in_fragment.is_some() { "fragment" } else { "operation" };
    format!("{place}:depth{}", ctx.depth.min(2))
}

fn wrong_value_for(sch: &Sch, ty: &Ty) -> Vec<(&'static str, Value)> {
    let mut out = vec![];
    if ty.is_nonnull() {
        out.push(("null-for-nonnull", Value::Null(p0())));
    }
    match ty.nullable() {
        Ty::List(_, item) => {
            // a wrong item inside a list, and a wrong single value coerced to the list
            for (t, v) in wrong_value_for(sch, item) {
                if t != "null-for-nonnull" || item.is_nonnull() {
                    out.push(("list-item", Value::List(p0(), vec![v.clone()])));
                    out.push(("single-for-list", v));
                    break;
                }
            }
        }
        Ty::Named(n) => match sch.kind(&n.s) {
            Some(TsKind::Enum) => {
                out.push(("string-for-enum", Value::Str(p0(), "A".into())));
                out.push(("int-for-enum", Value::Int(p0(), "1".into())));
            }
            Some(TsKind::Input) => {
                out.push(("int-for-input-object", Value::Int(p0(), "1".into())));
                out.push(("list-for-input-object", Value::List(p0(), vec![])));
            }
            _ => match n.s.as_str() {
                "Int" => {
                    out.push(("string-for-Int", Value::Str(p0(), "1".into())));
                    out.push(("float-for-Int", Value::Float(p0(), "1.5".into())));
                    out.push(("bool-for-Int", Value::Bool(p0(), true)));
                }
                "Float" => out.push(("string-for-Float", Value::Str(p0(), "1.5".into()))),
                "String" => {
                    out.push(("int-for-String", Value::Int(p0(), "1".into())));
                    out.push(("enum-for-String", Value::Enum(p0(), "A".into())));
                }
                "Boolean" => {
                    out.push(("int-for-Boolean", Value::Int(p0(), "1".into())));
                    out.push(("string-for-Boolean", Value::Str(p0(), "true".into())));
                }
                "ID" => {
                    out.push(("float-for-ID", Value::Float(p0(), "1.5".into())));
                    out.push(("bool-for-ID", Value::Bool(p0(), true)));
                }
                _ => {}
            },
        },
        Ty::NonNull(_) => {}
    }
    out
}

/// (rule label, site tag, mutant)
pub fn mutants(base: &ExecDoc, sch: &Sch) -> Vec<(&'static str, String, ExecDoc)> {
    let mut out: Vec<(&'static str, String, ExecDoc)> = vec![];
    let mut add = |rule: &'static str, v: Vec<(String, ExecDoc)>| {
        for (t, d) in v {
            out.push((rule, t, d));
        }
    };
    let first_op = base.defs.iter().position(|d| matches!(d, ExecDef::Op { .. })).unwrap_or(0);
    // ---- operations
    if let ExecDef::Op { name: Some(_), .. } = &base.defs[first_op] {
        let mut d = base.clone();
        let c = d.defs[first_op].clone();
        d.defs.push(c);
        add("op.unique_name", vec![("duplicate".into(), d)]);
        let mut d = base.clone();
        d.defs.push(ExecDef::Op { p: p0(), kind: OpKind::Query, name: None, vars: None, dirs: vec![], sel: selset(vec![field("s")]) });
        add("op.lone_anonymous", vec![("anonymous-after-named".into(), d)]);
    } else {
        let mut d = base.clone();
        d.defs.insert(0, ExecDef::Op { p: p0(), kind: OpKind::Query, name: Some(nm("Other")), vars: None, dirs: vec![], sel: selset(vec![field("s")]) });
        add("op.lone_anonymous", vec![("named-before-anonymous".into(), d)]);
        let mut d = base.clone();
        d.defs.push(ExecDef::Op { p: p0(), kind: OpKind::Query, name: None, vars: None, dirs: vec![], sel: selset(vec![field("s")]) });
        add("op.lone_anonymous", vec![("two-anonymous".into(), d)]);
    }
    if let ExecDef::Op { kind: OpKind::Subscription, .. } = &base.defs[first_op] {
        for (tag, extra) in [
            ("second-field", field("tick")),
            ("typename", typename()),
            ("via-inline-fragment", Sel::Inline { p: p0(), cond: Some(nm("Subscription")), dirs: vec![], sel: selset(vec![Sel::Field { alias: Some(nm("t2")), name: nm("tick"), args: None, dirs: vec![], sel: None }]) }),
            ("via-untyped-inline-fragment", Sel::Inline { p: p0(), cond: None, dirs: vec![], sel: selset(vec![Sel::Field { alias: Some(nm("t2")), name: nm("tick"), args: None, dirs: vec![], sel: None }]) }),
            ("via-fragment-spread", Sel::Spread { p: p0(), name: nm("SubExtra"), dirs: vec![] }),
            // fragments on an interface the root type implements / a union it belongs to apply to it as well
            ("via-inline-fragment-on-interface", Sel::Inline { p: p0(), cond: Some(nm("Ticker")), dirs: vec![], sel: selset(vec![Sel::Field { alias: Some(nm("t2")), name: nm("tick"), args: None, dirs: vec![], sel: None }]) }),
            ("via-inline-fragment-on-union", Sel::Inline { p: p0(), cond: Some(nm("Feed")), dirs: vec![], sel: selset(vec![Sel::Inline { p: p0(), cond: Some(nm("Subscription")), dirs: vec![], sel: selset(vec![Sel::Field { alias: Some(nm("t2")), name: nm("tick"), args: None, dirs: vec![], sel: None }]) }]) }),
            ("via-fragment-spread-on-interface", Sel::Spread { p: p0(), name: nm("SubExtraI"), dirs: vec![] }),
        ] {
            let mut d = base.clone();
            if let ExecDef::Op { sel, .. } = &mut d.defs[first_op] {
                // make sure the extra field has a response key of its own
                let e = match extra.clone() {
                    Sel::Field { name, .. } if name.s == "tick" => Sel::Field { alias: Some(nm("t2")), name, args: None, dirs: vec![], sel: None },
                    o => o,
                };
                sel.items.push(e);
            }
            if tag == "via-fragment-spread" {
                d.defs.push(ExecDef::Frag { p: p0(), name: nm("SubExtra"), cond: nm("Subscription"), dirs: vec![], sel: selset(vec![Sel::Field { alias: Some(nm("t3")), name: nm("tick"), args: None, dirs: vec![], sel: None }]) });
            }
            if tag == "via-fragment-spread-on-interface" {
                d.defs.push(ExecDef::Frag { p: p0(), name: nm("SubExtraI"), cond: nm("Ticker"), dirs: vec![], sel: selset(vec![Sel::Field { alias: Some(nm("t3")), name: nm("tick"), args: None, dirs: vec![], sel: None }]) });
            }
            add("sub.single_root", vec![(tag.into(), d)]);
        }
    }
    // ---- selection-set level faults at every selection set
    let selset_faults: Vec<(&'static str, &'static str, Box<dyn Fn(&SelCtx, &Sch) -> Option<Sel>>)> = vec![
        ("field.exists", "unknown-field", Box::new(|_, _| Some(field("nope")))),
        ("spread.defined", "unknown-fragment", Box::new(|_, _| Some(Sel::Spread { p: p0(), name: nm("Nope"), dirs: vec![] }))),
        ("frag.type_exists", "inline-on-unknown-type", Box::new(|_, _| Some(Sel::Inline { p: p0(), cond: Some(nm("Nope")), dirs: vec![], sel: selset(vec![typename()]) }))),
        ("frag.composite", "inline-on-enum", Box::new(|_, _| Some(Sel::Inline { p: p0(), cond: Some(nm("Kind")), dirs: vec![], sel: selset(vec![typename()]) }))),
        ("frag.composite", "inline-on-input", Box::new(|_, _| Some(Sel::Inline { p: p0(), cond: Some(nm("Filter")), dirs: vec![], sel: selset(vec![typename()]) }))),
        // a composite type of each kind (object, interface, union) that shares no possible type with the parent
        ("spread.possible", "disjoint-inline-object", Box::new(|ctx, sch| disjoint_of_kind(sch, ctx.ty, TsKind::Object).map(|n| Sel::Inline { p: p0(), cond: Some(nm(&n)), dirs: vec![], sel: selset(vec![typename()]) }))),
        ("spread.possible", "disjoint-inline-interface", Box::new(|ctx, sch| disjoint_of_kind(sch, ctx.ty, TsKind::Interface).map(|n| Sel::Inline { p: p0(), cond: Some(nm(&n)), dirs: vec![], sel: selset(vec![typename()]) }))),
        ("spread.possible", "disjoint-inline-union", Box::new(|ctx, sch| disjoint_of_kind(sch, ctx.ty, TsKind::Union).map(|n| Sel::Inline { p: p0(), cond: Some(nm(&n)), dirs: vec![], sel: selset(vec![typename()]) }))),
        ("dir.defined", "unknown-directive-on-field", Box::new(|_, _| Some(Sel::Field { alias: Some(nm("zz1")), name: nm("__typename"), args: None, dirs: vec![dir("nope", vec![])], sel: None }))),
        ("dir.location", "query-directive-on-field", Box::new(|_, _| Some(Sel::Field { alias: Some(nm("zz2")), name: nm("__typename"), args: None, dirs: vec![dir("onlyq", vec![])], sel: None }))),
        ("dir.location", "deprecated-on-field", Box::new(|_, _| Some(Sel::Field { alias: Some(nm("zz3")), name: nm("__typename"), args: None, dirs: vec![dir("deprecated", vec![])], sel: None }))),
        ("dir.unique", "once-twice-on-field", Box::new(|_, _| Some(Sel::Field { alias: Some(nm("zz4")), name: nm("__typename"), args: None, dirs: vec![dir("once", vec![]), dir("once", vec![])], sel: None }))),
        ("dir.unique", "skip-twice-on-field", Box::new(|_, _| Some(Sel::Field { alias: Some(nm("zz5")), name: nm("__typename"), args: None, dirs: vec![dir("skip", vec![("if", Value::Bool(p0(), false))]), dir("skip", vec![("if", Value::Bool(p0(), false))])], sel: None }))),
        ("dir.defined", "unknown-directive-on-inline", Box::new(|_, _| Some(Sel::Inline { p: p0(), cond: None, dirs: vec![dir("nope", vec![])], sel: selset(vec![typename()]) }))),
        ("dir.location", "query-directive-on-inline", Box::new(|_, _| Some(Sel::Inline { p: p0(), cond: None, dirs: vec![dir("onlyq", vec![])], sel: selset(vec![typename()]) }))),
        ("dir.unique", "once-twice-on-inline", Box::new(|_, _| Some(Sel::Inline { p: p0(), cond: None, dirs: vec![dir("once", vec![]), dir("once", vec![])], sel: selset(vec![typename()]) }))),
        ("arg.required", "skip-without-if", Box::new(|_, _| Some(Sel::Field { alias: Some(nm("zz6")), name: nm("__typename"), args: None, dirs: vec![dir("skip", vec![])], sel: None }))),
        ("arg.known", "typename-with-args", Box::new(|_, _| Some(Sel::Field { alias: Some(nm("zz7")), name: nm("__typename"), args: Some(Args { p: p0(), items: vec![(nm("x"), Value::Int(p0(), "1".into()))] }), dirs: vec![], sel: None }))),
        ("value.type", "skip-if-int", Box::new(|_, _| Some(Sel::Field { alias: Some(nm("zz8")), name: nm("__typename"), args: None, dirs: vec![dir("skip", vec![("if", Value::Int(p0(), "1".into()))])], sel: None }))),
        ("var.defined", "skip-if-undefined-variable", Box::new(|_, _| Some(Sel::Field { alias: Some(nm("zz9")), name: nm("__typename"), args: None, dirs: vec![dir("skip", vec![("if", Value::Var(p0(), "undefinedVar".into()))])], sel: None }))),
    ];
    for (rule, tag, mk) in &selset_faults {
        add(
            rule,
            kth(base, |d, k| {
                let mut n = 0;
                let mut res = None;
                for_each_selset(d, sch, &mut |sel, ctx| {
                    if n == k
                        && let Some(x) = mk(ctx, sch)
                    {
                        sel.items.push(x);
                        res = Some(format!("{tag}@{}", ctx_tag(ctx)));
                    }
                    n += 1;
                });
                // a variable fault inside a fragment that no operation spreads is not a fault (5.8.3 is per operation)
                res
            }),
        );
    }
    // the same faults inside a fragment that no operation spreads
    for (rule, tag, mk) in &selset_faults {
        if *rule == "var.defined" {
            continue;
        }
        let ctx = SelCtx { ty: "User", op: None, depth: 0, in_fragment: Some("Unspread") };
        if let Some(x) = mk(&ctx, sch) {
            let mut d = base.clone();
            d.defs.push(ExecDef::Frag { p: p0(), name: nm("Unspread"), cond: nm("User"), dirs: vec![], sel: selset(vec![field("id"), x]) });
            add(rule, vec![(format!("{tag}@unspread-fragment"), d)]);
        }
    }
    // ---- per-field faults
    add(
        "field.leaf",
        kth(base, |d, k| {
            let mut n = 0;
            let mut res = None;
            for_each_selset(d, sch, &mut |sel, ctx| {
                for s in sel.items.iter_mut() {
                    if let Sel::Field { name, sel: sub @ None, .. } = s {
                        let leaf = name.s == "__typename" || sch.field(ctx.ty, &name.s).is_some_and(|f| sch.is_leaf(f.ty.base()));
                        if leaf {
                            if n == k {
                                *sub = Some(selset(vec![field("x")]));
                                res = Some(format!("{}@{}", if name.s == "__typename" { "typename" } else { "leaf" }, ctx_tag(ctx)));
                            }
                            n += 1;
                        }
                    }
                }
            });
            res
        }),
    );
    add(
        "field.composite",
        kth(base, |d, k| {
            let mut n = 0;
            let mut res = None;
            for_each_selset(d, sch, &mut |sel, ctx| {
                for s in sel.items.iter_mut() {
                    if let Sel::Field { name, sel: sub @ Some(_), .. } = s {
                        if n == k {
                            let kind = sch.field(ctx.ty, &name.s).and_then(|f| sch.kind(f.ty.base()));
                            *sub = None;
                            res = Some(format!("{:?}@{}", kind.unwrap_or(TsKind::Object), ctx_tag(ctx)));
                        }
                        n += 1;
                    }
                }
            });
            res
        }),
    );
    // field on a union without a fragment
    add(
        "field.exists",
        kth(base, |d, k| {
            let mut n = 0;
            let mut res = None;
            for_each_selset(d, sch, &mut |sel, ctx| {
                if sch.kind(ctx.ty) == Some(TsKind::Union) {
                    if n == k {
                        sel.items.push(field("id"));
                        res = Some(format!("field-on-union@{}", ctx_tag(ctx)));
                    }
                    n += 1;
                }
            });
            res
        }),
    );
    // ---- arguments
    add(
        "arg.known",
        kth(base, |d, k| {
            let mut n = 0;
            let mut res = None;
            for_each_args(d, sch, &mut |args, defs, of| {
                if n == k {
                    let a = args.get_or_insert(Args { p: p0(), items: vec![] });
                    a.items.push((nm("nope"), Value::Int(p0(), "1".into())));
                    res = Some(format!("{of}:{}", if defs.is_empty() { "takes-no-arguments" } else { "has-arguments" }));
                }
                n += 1;
            });
            res
        }),
    );
    add(
        "arg.required",
        kth(base, |d, k| {
            let mut n = 0;
            let mut res = None;
            for_each_args(d, sch, &mut |args, defs, of| {
                for def in defs.iter().filter(|x| x.ty.is_nonnull() && x.default.is_none()) {
                    if let Some(a) = args
                        && let Some(i) = a.items.iter().position(|(kk, _)| kk.s == def.name.s)
                    {
                        if n == k {
                            a.items.remove(i);
                            if a.items.is_empty() {
                                *args = None;
                            }
                            res = Some(of.to_string());
                            n += 1;
                            return;
                        }
                        n += 1;
                    }
                }
            });
            res
        }),
    );
    // ---- values
    for variant in 0..4usize {
        add(
            "value.type",
            kth(base, |d, k| {
                let mut n = 0;
                let mut res = None;
                let mut depth_tag = String::new();
                for_each_value(d, sch, &mut |v, ty| {
                    if matches!(v, Value::Var(..)) {
                        return;
                    }
                    let cands = wrong_value_for(sch, ty);
                    if let Some((tag, w)) = cands.get(variant) {
                        if n == k {
                            *v = w.clone();
                            res = Some(tag.to_string());
                            depth_tag = ty.show();
                        }
                        n += 1;
                    }
                });
                res
            }),
        );
    }
    add(
        "value.enum",
        kth(base, |d, k| {
            let mut n = 0;
            let mut res = None;
            for_each_value(d, sch, &mut |v, ty| {
                if let (Value::Enum(..), Ty::Named(t)) = (&*v, ty.nullable())
                    && sch.kind(&t.s) == Some(TsKind::Enum)
                {
                    if n == k {
                        *v = Value::Enum(p0(), "ZZ".into());
                        res = Some("unknown-member".into());
                    }
                    n += 1;
                }
            });
            res
        }),
    );
    add(
        "input.field_known",
        kth(base, |d, k| {
            let mut n = 0;
            let mut res = None;
            for_each_value(d, sch, &mut |v, ty| {
                if let (Value::Obj(_, fs), Ty::Named(t)) = (v, ty.nullable())
                    && let Some(def) = sch.types.get(&t.s).filter(|x| x.kind == TsKind::Input)
                {
                    if n == k {
                        let optional_omitted = def.input_fields.iter().filter(|f| !(f.ty.is_nonnull() && f.default.is_none())).any(|f| !fs.iter().any(|(kk, _)| kk.s == f.name.s));
                        fs.push((nm("zz"), Value::Int(p0(), "1".into())));
                        res = Some(if optional_omitted { "optional-field-omitted" } else { "all-fields-given" }.to_string());
                    }
                    n += 1;
                }
            });
            res
        }),
    );
    add(
        "input.field_required",
        kth(base, |d, k| {
            let mut n = 0;
            let mut res = None;
            for_each_value(d, sch, &mut |v, ty| {
                if let (Value::Obj(_, fs), Ty::Named(t)) = (v, ty.nullable())
                    && sch.kind(&t.s) == Some(TsKind::Input)
                    && let Some(i) = fs.iter().position(|(kk, _)| kk.s == "req")
                {
                    if n == k {
                        fs.remove(i);
                        res = Some("req-removed".into());
                    }
                    n += 1;
                }
            });
            res
        }),
    );
    // undefined variable at each value site
    add(
        "var.defined",
        kth(base, |d, k| {
            let mut n = 0;
            let mut res = None;
            let mut in_frag_only = false;
            for_each_value(d, sch, &mut |v, _| {
                if n == k {
                    *v = Value::Var(p0(), "undefinedVar".into());
                    res = Some("value-site".into());
                }
                n += 1;
            });
            let _ = &mut in_frag_only;
            res
        }),
    );
    // a nullable variable as an ITEM of a list literal whose items are non-null, at every argument that takes such a
    // list - whether or not the argument has a default value (a default relaxes the location of a variable that
    // stands for the whole argument, never what may stand inside a literal)
    for with_default in [false, true] {
        add(
            "var.usage",
            kth(base, |d, k| {
                let mut n = 0;
                let mut res = None;
                let mut item_ty: Option<String> = None;
                for_each_args(d, sch, &mut |args, defs, what| {
                    for def in defs {
                        let Ty::List(_, item) = def.ty.nullable() else { continue };
                        let Ty::NonNull(inner) = &**item else { continue };
                        let Ty::Named(base_name) = &**inner else { continue };
                        if def.default.is_some() != with_default {
                            continue;
                        }
                        if n == k {
                            let a = args.get_or_insert_with(|| Args { p: p0(), items: vec![] });
                            a.items.retain(|(kk, _)| kk.s != def.name.s);
                            a.items.push((nm(&def.name.s), Value::List(p0(), vec![Value::Var(p0(), "nullableItem".into())])));
                            item_ty = Some(base_name.s.clone());
                            res = Some(format!("nullable-variable-as-list-item:{what}-argument-{}", if with_default { "with-default" } else { "without-default" }));
                        }
                        n += 1;
                    }
                });
                if let Some(t) = item_ty {
                    for def in d.defs.iter_mut() {
                        if let ExecDef::Op { vars, .. } = def {
                            let v = VarDef { p: p0(), name: nm("nullableItem"), ty: Ty::named(&t), default: None, dirs: vec![] };
                            match vars {
                                Some((_, vs)) => vs.push(v),
                                None => *vars = Some((p0(), vec![v])),
                            }
                        }
                    }
                }
                res
            }),
        );
    }
    // ---- variable definitions
    if let ExecDef::Op { vars: Some((_, vs)), .. } = &base.defs[first_op] {
        for i in 0..vs.len() {
            let mut d = base.clone();
            if let ExecDef::Op { vars: Some((_, v)), .. } = &mut d.defs[first_op] {
                let c = v[i].clone();
                v.push(c);
            }
            add("var.unique", vec![("duplicate".into(), d)]);
            for bad in ["User", "Node", "Result", "Nope"] {
                let mut d = base.clone();
                if let ExecDef::Op { vars: Some((_, v)), .. } = &mut d.defs[first_op] {
                    v[i].ty = Ty::named(bad);
                    v[i].default = None;
                }
                add("var.input_type", vec![(format!("type-{bad}"), d)]);
            }
            // incompatible usage: change the declared type
            let orig = vs[i].ty.clone();
            let mut alts: Vec<(&str, Ty, bool)> = vec![];
            let base_name = orig.base().to_string();
            let other = if base_name == "String" { "Int" } else { "String" };
            alts.push(("other-named-type", replace_base(&orig, other), true));
            alts.push(("wrapped-in-list", Ty::list(orig.clone()), true));
            if let Ty::NonNull(inner) = &orig {
                alts.push(("nullable-without-default", (**inner).clone(), true));
            }
            // a non-list variable where a list is expected: input coercion of single values applies to
            // literals only, never to variables
            if let Ty::List(_, item) = orig.nullable() {
                alts.push(("list-item-type-for-list", (**item).clone(), true));
                if !item.is_nonnull() {
                    alts.push(("non-null-list-item-type-for-list", Ty::nn((**item).clone()), true));
                }
            }
            for (tag, ty, drop_default) in alts {
                let mut d = base.clone();
                if let ExecDef::Op { vars: Some((_, v)), .. } = &mut d.defs[first_op] {
                    v[i].ty = ty;
                    if drop_default {
                        v[i].default = None;
                    }
                }
                add("var.usage", vec![(tag.to_string(), d)]);
            }
            // nullable items where non-null items are required: [T] for [T!]
            if let Some(t) = nullable_items(&orig) {
                let mut d = base.clone();
                if let ExecDef::Op { vars: Some((_, v)), .. } = &mut d.defs[first_op] {
                    v[i].ty = t;
                    v[i].default = None;
                }
                add("var.usage", vec![("nullable-list-items".into(), d)]);
            }
            // rename the definition: every use becomes undefined
            let mut d = base.clone();
            if let ExecDef::Op { vars: Some((_, v)), .. } = &mut d.defs[first_op] {
                v[i].name = nm("renamed");
            }
            add("var.defined", vec![("definition-renamed".into(), d)]);
            // directives on the variable definition
            for (rule, tag, ds) in [
                ("dir.defined", "unknown-on-variable-definition", vec![dir("nope", vec![])]),
                ("dir.location", "query-directive-on-variable-definition", vec![dir("onlyq", vec![])]),
                ("dir.unique", "once-twice-on-variable-definition", vec![dir("once", vec![]), dir("once", vec![])]),
            ] {
                let mut d = base.clone();
                if let ExecDef::Op { vars: Some((_, v)), .. } = &mut d.defs[first_op] {
                    v[i].dirs.extend(ds);
                }
                add(rule, vec![(tag.to_string(), d)]);
            }
        }
    }
    // ---- fragments that no operation reaches and that spread each other in a cycle (and a fault inside them)
    for (tag, extra) in [
        ("unreached-self-cycle", vec![("Ua", vec!["Ua"], None)]),
        ("unreached-cycle-of-two", vec![("Ua", vec!["Ub"], None), ("Ub", vec!["Ua"], None)]),
        ("unreached-cycle-of-three", vec![("Ua", vec!["Ub"], None), ("Ub", vec!["Uc"], None), ("Uc", vec!["Ua"], None)]),
    ] {
        let mut d = base.clone();
        for (name, spreads, _) in &extra {
            let mut items = vec![typename()];
            for sp in spreads {
                items.push(Sel::Spread { p: p0(), name: nm(sp), dirs: vec![] });
            }
            d.defs.push(ExecDef::Frag { p: p0(), name: nm(name), cond: nm("User"), dirs: vec![], sel: selset(items) });
        }
        let _: &Vec<(&str, Vec<&str>, Option<()>)> = &extra;
        add("spread.cycle", vec![(tag.to_string(), d)]);
    }
    {
        // an unknown field inside unreached fragments that spread each other (no cycle through the faulty one is needed)
        let mut d = base.clone();
        d.defs.push(ExecDef::Frag { p: p0(), name: nm("Ua"), cond: nm("User"), dirs: vec![], sel: selset(vec![typename(), Sel::Spread { p: p0(), name: nm("Ub"), dirs: vec![] }]) });
        d.defs.push(ExecDef::Frag { p: p0(), name: nm("Ub"), cond: nm("User"), dirs: vec![], sel: selset(vec![field("nope")]) });
        add("field.exists", vec![("inside-unreached-fragment-spread-by-unreached-fragment".into(), d)]);
    }
    // ---- a second operation that reaches the same fragments but defines none of the variables they use
    if let ExecDef::Op { kind, vars: Some(_), sel, .. } = &base.defs[first_op] {
        let mut d = base.clone();
        d.defs.insert(first_op + 1, ExecDef::Op { p: p0(), kind: *kind, name: Some(nm("Second")), vars: None, dirs: vec![], sel: sel.clone() });
        add("var.defined", vec![("second-operation-without-the-variables".into(), d)]);
    }
    // ---- operation-level directives
    for (rule, tag, ds) in [
        ("dir.defined", "unknown-on-operation", vec![dir("nope", vec![])]),
        ("dir.location", "field-directive-on-operation", vec![dir("skip", vec![("if", Value::Bool(p0(), true))])]),
        ("dir.unique", "once-twice-on-operation", vec![dir("once", vec![]), dir("once", vec![])]),
    ] {
        let mut d = base.clone();
        if let ExecDef::Op { dirs, .. } = &mut d.defs[first_op] {
            dirs.extend(ds);
        }
        add(rule, vec![(tag.to_string(), d)]);
    }
    // ---- fragment definitions and spreads
    for (i, def) in base.defs.iter().enumerate() {
        if let ExecDef::Frag { name, .. } = def {
            let mut d = base.clone();
            let c = d.defs[i].clone();
            d.defs.push(c);
            add("frag.unique_name", vec![("duplicate".into(), d)]);
            for (rule, tag, cond) in [("frag.type_exists", "definition-on-unknown-type", "Nope"), ("frag.composite", "definition-on-enum", "Kind"), ("frag.composite", "definition-on-scalar", "Date"), ("frag.composite", "definition-on-input", "Filter")] {
                let mut d = base.clone();
                if let ExecDef::Frag { cond: c, sel, .. } = &mut d.defs[i] {
                    *c = nm(cond);
                    *sel = selset(vec![typename()]);
                }
                add(rule, vec![(tag.to_string(), d)]);
            }
            // cycles of length 1..3 through this fragment
            for len in 1..=3usize {
                let mut d = base.clone();
                let my = name.s.clone();
                let cond_of = |dd: &ExecDoc| match &dd.defs[i] {
                    ExecDef::Frag { cond, .. } => cond.s.clone(),
                    _ => unreachable!(),
                };
                let cnd = cond_of(&d);
                let names: Vec<String> = (0..len).map(|j| if j == 0 { my.clone() } else { format!("Cyc{j}") }).collect();
                for j in 1..len {
                    d.defs.push(ExecDef::Frag { p: p0(), name: nm(&names[j]), cond: nm(&cnd), dirs: vec![], sel: selset(vec![typename(), Sel::Spread { p: p0(), name: nm(&names[(j + 1) % len]), dirs: vec![] }]) });
                }
                if let ExecDef::Frag { sel, .. } = &mut d.defs[i] {
                    sel.items.push(Sel::Spread { p: p0(), name: nm(&names[1 % len]), dirs: vec![] });
                }
                add("spread.cycle", vec![(format!("length-{len}"), d)]);
            }
            for (rule, tag, ds) in [
                ("dir.defined", "unknown-on-fragment-definition", vec![dir("nope", vec![])]),
                ("dir.location", "query-directive-on-fragment-definition", vec![dir("onlyq", vec![])]),
                ("dir.unique", "once-twice-on-fragment-definition", vec![dir("once", vec![]), dir("once", vec![])]),
            ] {
                let mut d = base.clone();
                if let ExecDef::Frag { dirs, .. } = &mut d.defs[i] {
                    dirs.extend(ds);
                }
                add(rule, vec![(tag.to_string(), d)]);
            }
        }
    }
    // directives on spreads
    for (rule, tag, ds) in [
        ("dir.defined", "unknown-on-spread", vec![dir("nope", vec![])]),
        ("dir.location", "query-directive-on-spread", vec![dir("onlyq", vec![])]),
        ("dir.unique", "once-twice-on-spread", vec![dir("once", vec![]), dir("once", vec![])]),
    ] {
        add(
            rule,
            kth(base, |d, k| {
                let mut n = 0;
                let mut res = None;
                for_each_selset(d, sch, &mut |sel, ctx| {
                    for s in sel.items.iter_mut() {
                        if let Sel::Spread { dirs, .. } = s {
                            if n == k {
                                dirs.extend(ds.clone());
                                res = Some(format!("{tag}@{}", ctx_tag(ctx)));
                            }
                            n += 1;
                        }
                    }
                });
                res
            }),
        );
    }
    // a fragment the document already spreads (validly) somewhere, spread once more where it cannot apply
    {
        let frag_conds: Vec<(String, String)> = base.defs.iter().filter_map(|d| match d {
            ExecDef::Frag { name, cond, .. } => Some((name.s.clone(), cond.s.clone())),
            _ => None,
        }).collect();
        if !frag_conds.is_empty() {
            add(
                "spread.possible",
                kth(base, |d, k| {
                    let mut n = 0;
                    let mut res = None;
                    for_each_selset(d, sch, &mut |sel, ctx| {
                        if n == k {
                            let mine = sch.possible_types(ctx.ty);
                            if let Some((fname, _)) = frag_conds.iter().find(|(fname, cond)| Some(fname.as_str()) != ctx.in_fragment && !sch.possible_types(cond).is_empty() && !sch.possible_types(cond).iter().any(|x| mine.contains(x))) {
                                sel.items.push(Sel::Spread { p: p0(), name: nm(fname), dirs: vec![] });
                                res = Some(format!("existing-fragment-spread-again-at-a-disjoint-site@{}", ctx_tag(ctx)));
                            } else {
                                res = Some("skip".into());
                            }
                        }
                        n += 1;
                    });
                    res
                })
                .into_iter()
                .filter(|(t, _)| t != "skip")
                .collect(),
            );
        }
    }
    // impossible named spread: a fragment on a disjoint type spread at each selection set
    for want_kind in [TsKind::Object, TsKind::Interface, TsKind::Union] {
    add(
        "spread.possible",
        kth(base, |d, k| {
            let mut n = 0;
            let mut res = None;
            let mut cond = None;
            for_each_selset(d, sch, &mut |sel, ctx| {
                if n == k {
                    let mine = sch.possible_types(ctx.ty);
                    let _ = &mine;
                    if let Some(t) = disjoint_of_kind(sch, ctx.ty, want_kind).as_ref() {
                        sel.items.push(Sel::Spread { p: p0(), name: nm("Disjoint"), dirs: vec![] });
                        cond = Some(t.clone());
                        res = Some(format!("named-spread:{:?}-in-{:?}@{}", sch.kind(t).unwrap(), sch.kind(ctx.ty).unwrap_or(TsKind::Object), ctx_tag(ctx)));
                    }
                }
                n += 1;
            });
            if let Some(c) = cond {
                d.defs.push(ExecDef::Frag { p: p0(), name: nm("Disjoint"), cond: nm(&c), dirs: vec![], sel: selset(vec![typename()]) });
            } else if n > k {
                // the site exists but nothing is disjoint from it: keep enumerating
                return Some("skip".into());
            }
            res
        })
        .into_iter()
        .filter(|(t, _)| t != "skip")
        .collect(),
    );
    }
    out
}

/// the first type of the given kind (in schema order) whose possible types are disjoint from those of `ty`
fn disjoint_of_kind(sch: &Sch, ty: &str, kind: TsKind) -> Option<String> {
    let mine = sch.possible_types(ty);
    sch.order.iter().find(|n| sch.kind(n) == Some(kind) && !sch.possible_types(n).is_empty() && !sch.possible_types(n).iter().any(|t| mine.contains(t))).cloned()
}

fn replace_base(t: &Ty, name: &str) -> Ty {
    match t {
        Ty::Named(_) => Ty::named(name),
        Ty::List(_, i) => Ty::list(replace_base(i, name)),
        Ty::NonNull(i) => Ty::nn(replace_base(i, name)),
    }
}
/// `[T!]` -> `[T]` (at the first list level with non-null items)
fn nullable_items(t: &Ty) -> Option<Ty> {
    match t {
        Ty::NonNull(i) => nullable_items(i).map(Ty::nn),
        Ty::List(_, i) => match &**i {
            Ty::NonNull(x) => Some(Ty::list((**x).clone())),
            other => nullable_items(other).map(Ty::list),
        },
        Ty::Named(_) => None,
    }
}

// ------------------------------------------------------------------------------------------

/// describe what a diagnostic position points at (for narrow classification of false alarms)
pub fn classify_position(text: &str, sch: &Sch, pos: Option<(usize, usize, usize)>) -> String {
    let Some((_, line, col)) = pos else { return "no-position".into() };
    let Ok(mut doc) = parse_exec(text) else { return "unparsable".into() };
    let at = |p: &P| (p.line as usize, p.col as usize) == (line, col);
    let mut found: Option<String> = None;
    let vars: Vec<VarDef> = doc
        .defs
        .iter()
        .filter_map(|d| match d {
            ExecDef::Op { vars: Some((_, v)), .. } => Some(v.clone()),
            _ => None,
        })
        .flatten()
        .collect();
    for_each_value(&mut doc, sch, &mut |v, ty| {
        if found.is_none() && at(&v.p()) {
            let vk = match v {
                Value::Var(_, n) => match vars.iter().find(|d| d.name.s == *n) {
                    Some(d) => format!("variable({}{})", shape(sch, &d.ty), if d.default.is_some() { "=default" } else { "" }),
                    None => "undefined-variable".into(),
                },
                Value::Int(..) => "Int-literal".into(),
                Value::Float(..) => "Float-literal".into(),
                Value::Str(..) => "String-literal".into(),
                Value::Bool(..) => "Boolean-literal".into(),
                Value::Null(_) => "null".into(),
                Value::Enum(..) => "enum-literal".into(),
                Value::List(..) => "list-literal".into(),
                Value::Obj(..) => "object-literal".into(),
            };
            found = Some(format!("{vk}-for-{}", shape(sch, ty)));
        }
    });
    if let Some(f) = found {
        return f;
    }
    for_each_selset(&mut doc, sch, &mut |sel, ctx| {
        for s in &sel.items {
            match s {
                Sel::Spread { p, name, .. } if found.is_none() && (at(p) || at(&name.p)) => found = Some(format!("spread-in-{:?}", sch.kind(ctx.ty).unwrap_or(TsKind::Object))),
                Sel::Inline { p, cond, .. } if found.is_none() && (at(p) || cond.as_ref().is_some_and(|c| at(&c.p))) => {
                    found = Some(format!("inline-on-{:?}-in-{:?}", cond.as_ref().and_then(|c| sch.kind(&c.s)), sch.kind(ctx.ty).unwrap_or(TsKind::Object)))
                }
                Sel::Field { name, alias, .. } if found.is_none() && (at(&name.p) || alias.as_ref().is_some_and(|a| at(&a.p))) => found = Some(format!("field-in-{:?}", sch.kind(ctx.ty).unwrap_or(TsKind::Object))),
                _ => {}
            }
        }
    });
    found.unwrap_or_else(|| "other".into())
}

/// type shape with named types replaced by their class
pub fn shape(sch: &Sch, t: &Ty) -> String {
    match t {
        Ty::NonNull(i) => format!("{}!", shape(sch, i)),
        Ty::List(_, i) => format!("[{}]", shape(sch, i)),
        Ty::Named(n) => match sch.kind(&n.s) {
            Some(TsKind::Enum) => "enum".into(),
            Some(TsKind::Input) => "input".into(),
            Some(TsKind::Scalar) if !crate::schema::BUILTIN_SCALARS.contains(&n.s.as_str()) => "custom-scalar".into(),
            _ => n.s.clone(),
        },
    }
}

pub struct Shared {
    pub valid_docs: Mutex<Vec<ExecDoc>>,
}

/// C04 driver; also returns the valid documents for C03.
pub fn run_c04(args: &RunArgs, rep: &Reporter, keep_valid: Option<&Shared>, max_dev: usize, budget: u64) -> J {
    let (_, sch) = sem_schema();
    let _ = subject_schema();
    let evals = AtomicU64::new(0);
    let valid = AtomicU64::new(0);
    let invalid_by_rule: Mutex<BTreeMap<String, u64>> = Mutex::new(BTreeMap::new());
    let distinct = DistinctSet::new();
    let feature_cov: Mutex<BTreeSet<String>> = Mutex::new(BTreeSet::new());
    let json_subjects = crate::c15::sem_json_subjects();
    let stats = explore(
        &ExploreCfg { max_dev, threads: args.threads, budget: Duration::from_secs(budget) },
        |c: &mut Chooser| {
            let doc = gen_doc(c, &sch, 2, true);
            let text = exec_text(&doc);
            if !distinct.insert(fnv(text.as_bytes())) {
                return;
            }
            evals.fetch_add(1, Ordering::Relaxed);
            let findings = valid_op::validate(&sch, &doc);
            if !findings.is_empty() {
                *invalid_by_rule.lock().unwrap().entry(findings[0].rule.to_string()).or_insert(0) += 1;
                return;
            }
            valid.fetch_add(1, Ordering::Relaxed);
            if let Some(sh) = keep_valid {
                let mut g = sh.valid_docs.lock().unwrap();
                if c.deviations() <= 2 || g.len() < 4000 {
                    g.push(doc.clone());
                }
            }
            if rep.property != "C04" {
                return;
            }
            for l in c.deviation_labels() {
                feature_cov.lock().unwrap().insert(l);
            }
            let case = || json!({"text": text, "picks": c.picks(), "deviations": c.deviation_labels()});
            // the same document against the schema read back from its introspection result
            if let Ok(Err(diags)) = crate::c15::json_check(&json_subjects[0], &text) {
                let d = &diags[0];
                rep.report(Violation {
                    key: format!("introspection_schema.rejects_valid:{}:{}", d.stage, d.kind),
                    what: format!("spec-valid document gets a diagnostic when the schema is read from its introspection result: {} ({})", d.msg, d.kind),
                    case: case(),
                });
            }
            match subject_check(&text) {
                Err(p) => rep.report(Violation { key: format!("panic@{}", p.key()), what: format!("panic at {}: {}", p.site, p.msg), case: case() }),
                Ok(Ok(())) => {}
                Ok(Err(diags)) => {
                    let d = &diags[0];
                    let cls = classify_position(&text, &sch, d.pos);
                    rep.report(Violation {
                        key: format!("rejects_valid:{}:{}[{}]", d.stage, d.kind, cls),
                        what: format!("spec-valid document gets a diagnostic: {} ({})", d.msg, d.kind),
                        case: case(),
                    });
                }
            }
        },
    );
    json!({
        "explorer": stats_json(&stats),
        "documents": evals.load(Ordering::Relaxed),
        "confirmed_valid": valid.load(Ordering::Relaxed),
        "generated_but_invalid_by_first_rule": *invalid_by_rule.lock().unwrap(),
        "distinct": distinct.len(),
        "choice_edges": stats.choice_edges,
        "deviation_alternatives_seen_in_valid_documents": feature_cov.lock().unwrap().len(),
    })
}

/// diamonds: one fragment file reached by two import statements (of two files) that name different fragments
fn diamond_projects() -> Vec<Vec<(String, String)>> {
    let mut out = vec![];
    let spellings = ["./shared.graphql", "shared.graphql", "../p/shared.graphql"];
    for sp1 in spellings {
        for sp2 in spellings {
            for (t1, t2) in [("S1", "S2"), ("S1", "S1, S2"), ("*", "S2"), ("S2", "*"), ("S1, S2", "S2")] {
                for swap in [false, true] {
                    for direct in ["", "first", "last"] {
                        let (la, lb) = ("#import A from \"./a.graphql\"\n", "#import B from \"./b.graphql\"\n");
                        let ld = "#import S3 from \"./shared.graphql\"\n";
                        let mut main = String::new();
                        if direct == "first" {
                            main.push_str(ld);
                        }
                        main.push_str(&if swap { format!("{lb}{la}") } else { format!("{la}{lb}") });
                        if direct == "last" {
                            main.push_str(ld);
                        }
                        main.push_str(&format!("query Q {{ u {{ ...A friends {{ ...B }}{} }} }}\n", if direct.is_empty() { "" } else { " ...S3" }));
                        let a = format!("#import {t1} from \"{sp1}\"\nfragment A on User {{ id ...S1 }}\n").replace("...S1", if t1.contains("S1") || t1 == "*" { "...S1" } else { "...S2" });
                        let b = format!("#import {t2} from \"{sp2}\"\nfragment B on User {{ name ...S2 }}\n");
                        let shared = "fragment S1 on User { age }\nfragment S2 on User { kind }\nfragment S3 on User { born }\n".to_string();
                        out.push(vec![("/p/main.graphql".to_string(), main), ("/p/a.graphql".to_string(), a), ("/p/b.graphql".to_string(), b), ("/p/shared.graphql".to_string(), shared)]);
                    }
                }
            }
        }
    }
    out
}

/// Valid multi-file projects: every file, with the fragments its import lines bring in (reference closure),
/// is judged by R-VALID-OP; when all are valid the subject's route (parse, extensions, import resolution,
/// check of every file) must not raise a diagnostic.
fn part_multifile(args: &RunArgs, rep: &Reporter) -> J {
    let (_, sch) = sem_schema();
    let s = subject_schema();
    let mut projects: Vec<(&'static str, Vec<(String, String)>)> = vec![];
    projects.extend(crate::c12::import_projects().into_iter().map(|p| ("three-files", p)));
    projects.extend(crate::c12::same_specifier_projects().into_iter().map(|p| ("same-specifier-in-two-directories", p)));
    projects.extend(diamond_projects().into_iter().map(|p| ("diamond", p)));
    projects.extend(crate::c12::climb_projects().into_iter().map(|p| ("same-file-name-in-ancestor-directories", p)));
    let confirmed = AtomicU64::new(0);
    let dropped = AtomicU64::new(0);
    crate::explore::par_for(projects.len(), args.threads, |i| {
        let (family, files) = &projects[i];
        // reference: every file as root
        for r in 0..files.len() {
            let mut order = files.clone();
            order.swap(0, r);
            let Ok(root_doc) = parse_exec(&order[0].1) else {
                dropped.fetch_add(1, Ordering::Relaxed);
                return;
            };
            let Some(imported) = crate::c12::ref_import_closure(&order) else {
                dropped.fetch_add(1, Ordering::Relaxed);
                return;
            };
            let mut combined = ExecDoc::default();
            combined.defs.extend(root_doc.defs.iter().filter(|d| !matches!(d, ExecDef::Import { .. })).cloned());
            combined.defs.extend(imported);
            if valid_op::validate(&sch, &combined).iter().any(|f| f.rule != "frag.unused") {
                dropped.fetch_add(1, Ordering::Relaxed);
                return;
            }
        }
        confirmed.fetch_add(1, Ordering::Relaxed);
        let ops: Vec<(PathBuf, String)> = files.iter().map(|(p, t)| (PathBuf::from(p), t.clone())).collect();
        let case = || json!({"part": "multifile", "family": family, "files": files});
        let res = catch(|| {
            let loaded = pipeline::load_operations(&ops, 1).map_err(|f| f.diags)?;
            pipeline::check_operations(&s.schema, &loaded).map_err(|f| f.diags)
        });
        match res {
            Err(p) => rep.report(Violation { key: format!("multifile.panic@{}", p.key()), what: format!("panic at {}: {}", p.site, p.msg), case: case() }),
            Ok(Ok(())) => {}
            Ok(Err(diags)) => {
                let d = &diags[0];
                let file = d.pos.map(|p| files.get(p.0.saturating_sub(1)).map(|f| f.0.clone()).unwrap_or_default()).unwrap_or_default();
                rep.report(Violation { key: format!("multifile.rejects_valid:{}:{}[{family}]", d.stage, d.kind), what: format!("a valid multi-file project gets the diagnostic {} {} ({file})", d.kind, d.msg), case: case() });
            }
        }
    });
    json!({"projects": projects.len(), "confirmed_valid_and_checked": confirmed.load(Ordering::Relaxed), "dropped_as_not_valid_per_reference": dropped.load(Ordering::Relaxed), "families": {"three-files": 288, "same-specifier-in-two-directories": 16, "diamond": projects.iter().filter(|p| p.0 == "diamond").count(), "same-file-name-in-ancestor-directories": projects.iter().filter(|p| p.0 == "same-file-name-in-ancestor-directories").count()}})
}

/// Valid definitions appended to the schema that share a name with something built in, across the two
/// namespaces (types / directives). None of them changes the validity of a document that does not mention them.
const NAMESAKES: [(&str, &str); 9] = [
    ("none", ""),
    ("enum-include", "enum include { A B }\n"),
    ("input-skip", "input skip { a: Int }\n"),
    ("scalar-deprecated", "scalar deprecated\n"),
    ("type-specifiedBy", "type specifiedBy { a: Int }\n"),
    ("directive-ID", "directive @ID on FIELD_DEFINITION\n"),
    ("directives-named-like-the-other-built-in-scalars", "directive @String on FIELD\ndirective @Int on FIELD\ndirective @Boolean on FIELD\ndirective @Float on FIELD\n"),
    ("scalar-nitrogql_ts_type", "scalar nitrogql_ts_type\n"),
    ("all", "enum include { A B }\ninput skip { a: Int }\nscalar deprecated\ntype specifiedBy { a: Int }\ndirective @ID on FIELD_DEFINITION\ndirective @String on FIELD\ndirective @Int on FIELD\ndirective @Boolean on FIELD\ndirective @Float on FIELD\nscalar nitrogql_ts_type\n"),
];

/// The front end: every confirmed-valid document up to `max_dev` deviations as a file of its own in one project,
/// under each schema of NAMESAKES and each line form; `check` through the CLI must exit 0 with no diagnostic.
fn part_cli(args: &RunArgs, rep: &Reporter, max_dev: usize) -> J {
    use crate::clilayer::CProj;
    let (_, sch) = sem_schema();
    let docs: Mutex<BTreeSet<String>> = Mutex::new(BTreeSet::new());
    explore(&ExploreCfg { max_dev, threads: args.threads, budget: Duration::from_secs(600) }, |c: &mut Chooser| {
        let doc = gen_doc(c, &sch, 2, true);
        if valid_op::validate(&sch, &doc).is_empty() {
            docs.lock().unwrap().insert(exec_text(&doc));
        }
    });
    let docs: Vec<String> = docs.into_inner().unwrap().into_iter().collect();
    let mut jobs = vec![];
    for ni in 0..NAMESAKES.len() {
        for form in 0..LINE_FORMS.len() {
            jobs.push((ni, form));
        }
    }
    let accepted = AtomicU64::new(0);
    crate::explore::par_for(jobs.len(), args.threads, |ji| {
        let (ni, form) = jobs[ji];
        let (nname, extra) = NAMESAKES[ni];
        let ops: Vec<(String, String)> = docs.iter().enumerate().map(|(i, t)| (format!("src/d{i:05}.graphql"), line_form(t, form))).collect();
        let mut p = CProj::new(vec![("schema/s.graphql".to_string(), format!("{}\n{extra}", crate::gen_sem::SEM_SCHEMA))], ops);
        p.resolvers_out = None;
        p.server_out = None;
        let dir = crate::cli::thread_dir("c04");
        crate::cli::materialize(&dir, &p.project());
        let cargs: Vec<String> = ["--config-file", "graphql.config.yaml", "--output-format", "json", "check"].iter().map(|s| s.to_string()).collect();
        let r = crate::cli::run(&dir, &cargs, &[], Duration::from_secs(120));
        let out: J = serde_json::from_str(r.stdout.trim()).unwrap_or(J::Null);
        let errors = out["check"]["errors"].as_array().cloned().unwrap_or_default();
        if r.code == Some(0) && errors.is_empty() && out["check"].is_object() {
            accepted.fetch_add(1, Ordering::Relaxed);
            return;
        }
        // name the first document that draws a diagnostic
        let first = errors.iter().find_map(|e| e["file"]["path"].as_str().map(|s| s.to_string())).unwrap_or_default();
        let idx = first.rsplit("/d").next().and_then(|s| s.strip_suffix(".graphql")).and_then(|s| s.parse::<usize>().ok());
        let msg = errors.first().map(|e| e["message"].as_str().unwrap_or("").to_string()).unwrap_or_else(|| out["error"]["message"].as_str().unwrap_or("").to_string());
        let cause = if msg.contains("is not defined") { "not-defined" } else if msg.contains("Duplicated") { "duplicated" } else { "other" };
        rep.report(Violation {
            key: format!("cli.rejects_valid:{cause}[{nname}/{}]", LINE_FORMS[form]),
            what: format!("`nitrogql-cli check` exits with {:?} on a project of spec-valid documents (schema variant {nname}, line form {}): {}", r.code, LINE_FORMS[form], crate::cli::strip_ansi(&msg).chars().take(300).collect::<String>()),
            case: json!({"part": "cli", "schema_appendix": extra, "line_form": LINE_FORMS[form], "document": idx.and_then(|i| docs.get(i)), "diagnostics": errors.iter().take(5).collect::<Vec<_>>(), "stderr": r.stderr.chars().take(600).collect::<String>()}),
        });
    });
    crate::cli::cleanup("c04");
    json!({"documents_per_project": docs.len(), "deviation_bound_of_the_documents": max_dev, "schema_variants": NAMESAKES.iter().map(|n| n.0).collect::<Vec<_>>(), "line_forms": LINE_FORMS, "projects": jobs.len(), "projects_accepted": accepted.load(Ordering::Relaxed)})
}

pub fn run04(args: &RunArgs) -> i32 {
    let rep = Reporter::new("C04", &args.tier);
    crate::util::install_hook();
    let multifile = part_multifile(args, &rep);
    let front = part_cli(args, &rep, if args.quick() { 2 } else { 3 });
    let (dev, budget) = if args.quick() { (4, 45) } else { (5, 2400) };
    let j = run_c04(args, &rep, None, dev, budget);
    let sample = exec_text(&gen_doc(&mut Chooser::new(&crate::explore::Dev::from_picks(&[0, 0, 2, 0, 5, 1])), &sem_schema().1, 2, true));
    let cov = json!({
        "states": j["distinct"],
        "transitions": j["choice_edges"],
        "traces_validated_against_impl": j["confirmed_valid"],
        "evaluations": j["documents"],
        "distinct_nontrivial": j["confirmed_valid"],
        "rule": "E1 type-directed documents over SEM_SCHEMA, distinct by text; non-trivial = confirmed valid by R-VALID-OP (all spec rules incl. field merging and unused variables/fragments) and therefore checked against the subject",
        "exhaustive": true,
        "detail": j,
        "multi_file_projects": multifile,
        "front_end": front,
        "samples": [sample],
    });
    rep.finish(cov, vec!["R-VALID-OP (spec §5) decides validity".into(), "single documents, plus multi-file projects whose files are judged with the fragments a reference import closure brings in (the resolution itself is C13's business; here a valid project must stay free of diagnostics)".into()])
}

// ------------------------------------------------------------------------------------------ projects through the CLI

/// faulty definitions, one per rule family (the rules themselves are decided above; here the question is
/// whether every definition of every matched file reaches the checker, wherever it sits)
const PROJECT_FAULTS: [(&str, &str); 12] = [
    ("field.defined", "fragment Bad on User { nope }"),
    ("argument.known", "fragment Bad on User { friends(last: 1) { id } }"),
    ("directive.known", "fragment Bad on User { name @nodir }"),
    ("fragment.type_exists", "fragment Bad on Nope { id }"),
    ("leaf.selection", "fragment Bad on User { name { x } }"),
    ("composite.selection", "fragment Bad on User { best }"),
    ("spread.defined", "fragment Bad on User { ...Undefined }"),
    ("argument.required", "fragment Bad on User { id @tag }"),
    ("value.type", "fragment Bad on User { friends(first: \"x\") { id } }"),
    ("spread.possible", "fragment Bad on User { ... on Post { id } }"),
    ("operation: field.defined", "query BadOp { nope }"),
    ("operation: variable.defined", "query BadOp { users(ids: $undefined) { id } }"),
];
/// the same positions holding a valid definition (control: the project must then be accepted)
const PROJECT_CONTROLS: [&str; 2] = ["fragment Bad on User { id }", "query BadOp { n }"];

/// (name, files with `@BAD@` where the definition under test goes, file that holds it)
fn project_placements() -> Vec<(&'static str, Vec<(&'static str, &'static str)>, &'static str)> {
    vec![
        ("file-of-its-own-nobody-imports", vec![("src/main.graphql", "query Main { u { id } }\n"), ("src/lonely.graphql", "@BAD@\n")], "src/lonely.graphql"),
        ("fragment-only-file-imported-by-name-for-another-fragment", vec![("src/main.graphql", "#import Good from \"./frags.graphql\"\nquery Main { u { ...Good } }\n"), ("src/frags.graphql", "fragment Good on User { id }\n@BAD@\n")], "src/frags.graphql"),
        ("fragment-only-file-imported-by-wildcard", vec![("src/main.graphql", "#import * from \"./frags.graphql\"\nquery Main { u { ...Good } }\n"), ("src/frags.graphql", "fragment Good on User { id }\n@BAD@\n")], "src/frags.graphql"),
        ("first-in-fragment-only-file-imported-by-name", vec![("src/main.graphql", "#import Good from \"./frags.graphql\"\nquery Main { u { ...Good } }\n"), ("src/frags.graphql", "@BAD@\nfragment Good on User { id }\n")], "src/frags.graphql"),
        ("file-with-an-operation-imported-by-name", vec![("src/main.graphql", "#import Good from \"./other.graphql\"\nquery Main { u { ...Good } }\n"), ("src/other.graphql", "query Other { n }\nfragment Good on User { id }\n@BAD@\n")], "src/other.graphql"),
        ("importing-file-itself", vec![("src/main.graphql", "#import Good from \"./frags.graphql\"\nquery Main { u { ...Good } }\n@BAD@\n"), ("src/frags.graphql", "fragment Good on User { id }\n")], "src/main.graphql"),
        ("fragment-only-file-imported-transitively", vec![("src/main.graphql", "#import Mid from \"./a.graphql\"\nquery Main { u { ...Mid } }\n"), ("src/a.graphql", "#import Good from \"./deep/b.graphql\"\nfragment Mid on User { id ...Good }\n"), ("src/deep/b.graphql", "fragment Good on User { name }\n@BAD@\n")], "src/deep/b.graphql"),
        ("fragment-only-file-imported-by-two-files", vec![("src/main.graphql", "#import Good from \"./frags.graphql\"\nquery Main { u { ...Good } }\n"), ("src/second.graphql", "#import Good from \"./frags.graphql\"\nquery Second { u { ...Good } }\n"), ("src/frags.graphql", "fragment Good on User { id }\n@BAD@\n")], "src/frags.graphql"),
        ("fragment-only-file-in-an-import-cycle", vec![("src/main.graphql", "#import A from \"./a.graphql\"\nquery Main { u { ...A } }\n"), ("src/a.graphql", "#import B from \"./b.graphql\"\nfragment A on User { id ...B }\n"), ("src/b.graphql", "#import A from \"./a.graphql\"\nfragment B on User { name }\n@BAD@\n")], "src/b.graphql"),
    ]
}

/// how the operation files of a project are written to disk: as they are, or below a leading comment line with
/// every line ended by a lone carriage return / by CR LF (all three are line terminators, spec 2.1.2)
pub const LINE_FORMS: [&str; 3] = ["lf", "comment-first-cr-only", "comment-first-crlf"];
pub fn line_form(text: &str, form: usize) -> String {
    match form {
        0 => text.to_string(),
        1 => format!("# notes\n{text}").replace('\n', "\r"),
        _ => format!("# notes\n{text}").replace('\n', "\r\n"),
    }
}

fn part_projects(args: &RunArgs, rep: &Reporter) -> J {
    use crate::clilayer::{CProj, run_and_compare};
    let placements = project_placements();
    let mut jobs: Vec<(usize, String, Option<&'static str>, usize)> = vec![];
    for pi in 0..placements.len() {
        for form in 0..LINE_FORMS.len() {
            for (rule, text) in PROJECT_FAULTS {
                jobs.push((pi, text.to_string(), Some(rule), form));
            }
            for text in PROJECT_CONTROLS {
                jobs.push((pi, text.to_string(), None, form));
            }
        }
    }
    let accepted_controls = AtomicU64::new(0);
    let rejected_faults = AtomicU64::new(0);
    crate::explore::par_for(jobs.len(), args.threads, |ji| {
        let (pi, text, rule, form) = &jobs[ji];
        let (pname, files, holder) = &placements[*pi];
        let pname = &if *form == 0 { pname.to_string() } else { format!("{pname}/{}", LINE_FORMS[*form]) };
        let ops: Vec<(String, String)> = files.iter().map(|(p, t)| (p.to_string(), line_form(&t.replace("@BAD@", text), *form))).collect();
        let mut p = CProj::new(vec![("schema/s.graphql".to_string(), crate::gen_sem::SEM_SCHEMA.to_string())], ops);
        p.resolvers_out = None;
        p.server_out = None;
        p.extra_generate = "      type:\n        scalarTypes:\n          Date: string\n".into();
        let case = |extra: J| json!({"part": "projects", "placement": pname, "rule": rule, "definition": text, "project": p.to_json(), "detail": extra});
        match run_and_compare(&p, "c03") {
            Err(pn) => rep.report(Violation { key: format!("projects.library_panic@{}", pn.key()), what: format!("library entry points panic at {}: {}", pn.site, pn.msg), case: case(json!({})) }),
            Ok(Err(e)) => rep.report(Violation { key: "machinery.clilayer".into(), what: e, case: case(json!({})) }),
            Ok(Ok(r)) => {
                for (k, w) in &r.diffs {
                    rep.report(Violation { key: format!("projects.{k}[{pname}]"), what: w.clone(), case: case(json!({"cli_exit": r.cli.code, "cli_stdout": r.cli.stdout.chars().take(2000).collect::<String>(), "library_route": r.expected_summary})) });
                }
                let doc: J = serde_json::from_str(r.cli.stdout.trim()).unwrap_or(J::Null);
                match rule {
                    Some(rule) => {
                        // the property itself: a violation anywhere in a matched file means check fails, naming that file
                        let names_holder = doc["check"]["errors"].as_array().into_iter().flatten().any(|e| e["file"]["path"].as_str().is_some_and(|p| p.ends_with(holder)));
                        if r.cli.code == Some(0) {
                            rep.report(Violation { key: format!("projects.accepts_invalid[{pname}]"), what: format!("`check` accepts a project whose file {holder} contains a definition violating {rule}: {text}"), case: case(json!({"cli_stdout": r.cli.stdout.chars().take(2000).collect::<String>()})) });
                        } else if !names_holder {
                            rep.report(Violation { key: format!("projects.fault_not_located_in_its_file[{pname}]"), what: format!("`check` fails but no diagnostic names {holder}, which holds the definition violating {rule}"), case: case(json!({"cli_stdout": r.cli.stdout.chars().take(2000).collect::<String>()})) });
                        } else {
                            rejected_faults.fetch_add(1, Ordering::Relaxed);
                        }
                    }
                    None => {
                        if r.cli.code == Some(0) {
                            accepted_controls.fetch_add(1, Ordering::Relaxed);
                        }
                    }
                }
            }
        }
    });
    crate::cli::cleanup("c03");
    let controls = placements.len() * PROJECT_CONTROLS.len() * LINE_FORMS.len();
    if accepted_controls.load(Ordering::Relaxed) as usize != controls {
        // C04's business as a verdict; here it would make the faulty runs vacuous
        rep.report(Violation { key: "machinery.project_controls".into(), what: format!("only {} of {controls} control projects (valid definition at the same position) are accepted", accepted_controls.load(Ordering::Relaxed)), case: json!({}) });
    }
    json!({"placements": placements.iter().map(|p| p.0).collect::<Vec<_>>(), "line_forms_of_every_operation_file": LINE_FORMS, "faulty_definitions": PROJECT_FAULTS.len(), "projects": jobs.len(), "faulty_projects_rejected_with_the_fault_located": rejected_faults.load(Ordering::Relaxed), "control_projects_accepted": accepted_controls.load(Ordering::Relaxed)})
}

pub fn run03(args: &RunArgs) -> i32 {
    let rep = Reporter::new("C03", &args.tier);
    crate::util::install_hook();
    let projects = part_projects(args, &rep);
    let (_, sch) = sem_schema();
    let shared = Shared { valid_docs: Mutex::new(vec![]) };
    let (dev, budget) = if args.quick() { (2, 30) } else { (3, 600) };
    let gen_stats = run_c04(args, &rep, Some(&shared), dev, budget);
    let mut bases = std::mem::take(&mut *shared.valid_docs.lock().unwrap());
    // plus the variable-definition matrix (a variable at every kind of argument location, every
    // default form): E1 reaches those shapes only at higher deviation levels
    let e1_bases = bases.len();
    for t in crate::c12::var_matrix_docs() {
        if let Ok(d) = parse_exec(&t)
            && valid_op::validate(&sch, &d).is_empty()
        {
            bases.push(d);
        }
    }
    let matrix_bases = bases.len() - e1_bases;
    let total = AtomicU64::new(0);
    let confirmed = AtomicU64::new(0);
    let per_rule: Mutex<BTreeMap<String, u64>> = Mutex::new(BTreeMap::new());
    let unconfirmed: Mutex<BTreeMap<String, u64>> = Mutex::new(BTreeMap::new());
    let distinct = DistinctSet::new();
    let generate_runs = AtomicU64::new(0);
    let pool = crate::worker::Pool::new("c03-generate", args.threads);
    let json_subjects = crate::c15::sem_json_subjects();
    let json_route = AtomicU64::new(0);
    crate::explore::par_for(bases.len(), args.threads, |bi| {
        let base = &bases[bi];
        for (rule, tag, m) in mutants(base, &sch) {
            let text = exec_text(&m);
            if !distinct.insert(fnv(text.as_bytes())) {
                continue;
            }
            total.fetch_add(1, Ordering::Relaxed);
            if std::env::var("NQV_DEBUG").is_ok() {
                eprintln!("MUTANT {rule} {tag} :: {text}");
            }
            let findings = valid_op::validate(&sch, &m);
            if std::env::var("NQV_DEBUG").is_ok() {
                eprintln!("  validated");
            }
            let labels = valid_op::rules(&findings);
            if !labels.contains(rule) {
                *unconfirmed.lock().unwrap().entry(format!("{rule}:{tag}")).or_insert(0) += 1;
                continue;
            }
            confirmed.fetch_add(1, Ordering::Relaxed);
            *per_rule.lock().unwrap().entry(rule.to_string()).or_insert(0) += 1;
            let allowed: BTreeSet<&str> = labels.iter().filter(|l| IMPLEMENTED_OP.contains(l)).flat_map(|l| allowed_kinds(l).iter().copied()).collect();
            let case = || json!({"rule": rule, "site": tag, "text": text, "reference_findings": findings.iter().map(|f| format!("{}: {}", f.rule, f.detail)).collect::<Vec<_>>()});
            // the same verdict when the schema comes from an introspection result (every optional key present, as a
            // current server answers): `check` validates operations against whatever schema the project configures
            if let Ok(Ok(())) = crate::c15::json_check(&json_subjects[0], &text) {
                json_route.fetch_add(1, Ordering::Relaxed);
                rep.report(Violation {
                    key: format!("introspection_schema.accepts_invalid:{rule}[{tag}]"),
                    what: format!("document violating {rule} ({tag}) gets no diagnostic when the schema is read from its introspection result"),
                    case: case(),
                });
            }
            match subject_check(&text) {
                Err(p) => rep.report(Violation { key: format!("panic@{}", p.key()), what: format!("check panicked at {}: {}", p.site, p.msg), case: case() }),
                Ok(Ok(())) => {
                    rep.report(Violation {
                        key: format!("accepts_invalid:{rule}[{tag}]"),
                        what: format!("document violating {rule} ({tag}) gets no diagnostic"),
                        case: case(),
                    });
                    // consequence clause: generate must not run into a panic (or abort) on it;
                    // run in a worker subprocess because unbounded recursion kills the process
                    generate_runs.fetch_add(1, Ordering::Relaxed);
                    let slot = bi;
                    match pool.ask(slot, &json!({"text": text})) {
                        crate::worker::Answer::Done(_) => {}
                        crate::worker::Answer::Died { panic, status } => {
                            let (site, msg) = panic.unwrap_or(("abort-without-panic-message".into(), status.clone()));
                            let p = crate::util::Panic { site, msg };
                            rep.report(Violation {
                                key: format!("generate_dies_after_accepting:{rule}@{}", p.key()),
                                what: format!("generate dies ({status}) at {} on an invalid document that check accepted", p.site),
                                case: case(),
                            });
                        }
                    }
                }
                Ok(Err(diags)) => {
                    if !diags.iter().any(|d| allowed.contains(d.kind.as_str())) {
                        let kinds: BTreeSet<String> = diags.iter().map(|d| d.kind.clone()).collect();
                        rep.report(Violation {
                            key: format!("wrong_diagnostic:{rule}[{tag}]:{}", kinds.iter().cloned().collect::<Vec<_>>().join("+")),
                            what: format!("document violating {rule} ({tag}) is rejected only with {kinds:?}, none of which belongs to that rule"),
                            case: case(),
                        });
                    }
                }
            }
        }
    });
    let unconf = unconfirmed.lock().unwrap().clone();
    let n = total.load(Ordering::Relaxed);
    let cov = json!({
        "states": distinct.len(),
        "transitions": n,
        "traces_validated_against_impl": confirmed.load(Ordering::Relaxed),
        "evaluations": n,
        "distinct_nontrivial": confirmed.load(Ordering::Relaxed),
        "rule": "every labelled single-fault mutation at every applicable site of every valid base document (E1, distinct by text); non-trivial = the reference validator confirms the fault for that rule, so a diagnostic of that rule is demanded",
        "exhaustive": true,
        "base_documents": bases.len(),
        "base_documents_from_variable_matrix": matrix_bases,
        "base_generation": gen_stats,
        "mutants": n,
        "confirmed": confirmed.load(Ordering::Relaxed),
        "per_rule": *per_rule.lock().unwrap(),
        "mutants_not_confirmed_by_reference(dropped)": unconf,
        "generate_runs_on_accepted_invalid_documents": generate_runs.load(Ordering::Relaxed),
        "projects_through_the_cli": projects,
        "samples": [{"rule": "input.field_known", "site": "optional-field-omitted", "text": "query Q { users ( ids : [ ] filter : { req : true zz : 1 } ) { __typename } }"}],
    });
    rep.finish(
        cov,
        vec![
            "R-VALID-OP confirms every mutant for its rule; a diagnostic of any rule the reference also reports is accepted".into(),
            "rules the statement does not list (field merging, argument/input-field uniqueness, default value types, unused variables/fragments) are not demanded".into(),
            "every confirmed mutant is also checked against the schema read back from its introspection result (all optional keys present)".into(),
            "projects: one faulty definition per rule family at every position a definition can take in a multi-file project (own file, fragment-only file imported by name / wildcard / transitively / by two files / in a cycle, file with an operation, the importing file); `nitrogql-cli check` must fail and name the file, and must agree with the library route; the same positions with a valid definition must be accepted".into(),
        ],
    )
}

pub fn replay(case: &J) -> i32 {
    let (_, sch) = sem_schema();
    let text = case["text"].as_str().unwrap_or("");
    println!("--- document ---\n{text}\n--- end ---");
    match parse_exec(text) {
        Ok(d) => println!("reference findings: {:?}", valid_op::validate(&sch, &d)),
        Err(e) => println!("reference parse error: {e}"),
    }
    match subject_check(text) {
        Err(p) => println!("subject PANIC {} {}", p.site, p.msg),
        Ok(Ok(())) => println!("subject: accepted"),
        Ok(Err(d)) => println!("subject: rejected {:?}", d.iter().map(|x| format!("{}:{}", x.kind, x.msg)).collect::<Vec<_>>()),
    }
    0
}

/// worker subprocess: run the generate stage on a document (no check), panics kill the worker
pub fn child_generate() -> i32 {
    let _ = subject_schema();
    crate::worker::serve(|req| {
        let text = req["text"].as_str().unwrap_or("").to_string();
        let s = subject_schema();
        let ops = vec![(PathBuf::from("/p/a.graphql"), text)];
        if let Ok(loaded) = pipeline::load_operations(&ops, 1) {
            for (_, d, _, _) in &loaded {
                let _ = pipeline::operation_dts(&s.schema, d, &pipeline::default_config(), "./schema.js");
                let _ = pipeline::operation_js(d, &pipeline::default_config());
            }
        }
        // a panic unwinds out of serve's handler: make it fatal like in the real CLI
        json!({"ok": true})
    })
}
