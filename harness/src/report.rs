//! Violations, known findings, replay files and evidence.

use serde_json::{Value, json};
use std::collections::BTreeMap;
use std::path::PathBuf;
use std::sync::Mutex;
use std::time::Instant;

use crate::explore::fnv;

/// root of the verification tree: the directory of the `check` driver that started us
pub fn verif_root() -> String {
    std::env::var("NQV_ROOT").unwrap_or_else(|_| "/verif".to_string())
}

#[derive(Clone, Debug)]
pub struct Violation {
    /// Narrow, stable classification: which oracle clause failed, at which site, with which
    /// minimal core of deviations. Known findings are matched on exactly this string.
    pub key: String,
    /// Human readable one-line description
    pub what: String,
    /// Everything needed to replay (inputs as text, choice sequence, expected vs observed)
    pub case: Value,
}

#[derive(Clone, Debug)]
struct Known {
    key: String,
    status: String,
    what: String,
}

pub struct Reporter {
    pub property: String,
    pub tier: String,
    pub seed: i64,
    start: Instant,
    known: Vec<Known>,
    inner: Mutex<Inner>,
}

#[derive(Default)]
struct Inner {
    // key -> (count, first violation)
    by_key: BTreeMap<String, (u64, Violation)>,
}

thread_local! {
    static KEY_SUFFIX: std::cell::RefCell<Option<String>> = const { std::cell::RefCell::new(None) };
}
/// every violation reported by this thread until the next call carries `[tag]` at the end of its key
pub fn set_key_suffix(tag: Option<String>) {
    KEY_SUFFIX.with(|s| *s.borrow_mut() = tag);
}

impl Reporter {
    pub fn new(property: &str, tier: &str) -> Self {
        let seed = std::env::var("VERIF_SEED")
            .ok()
            .and_then(|s| s.parse::<i64>().ok())
            .unwrap_or(0);
        let mut known = vec![];
        let path = format!("{}/known_findings.jsonl", verif_root());
        if let Ok(text) = std::fs::read_to_string(&path) {
            for line in text.lines() {
                let line = line.trim();
                if line.is_empty() || line.starts_with('#') {
                    continue;
                }
                let v: Value = match serde_json::from_str(line) {
                    Ok(v) => v,
                    Err(e) => {
                        eprintln!("MACHINERY bad line in known_findings.jsonl: {e}: {line}");
                        std::process::exit(2);
                    }
                };
                if v["property"].as_str() == Some(property) {
                    known.push(Known {
                        key: v["key"].as_str().unwrap_or("").to_string(),
                        status: v["status"].as_str().unwrap_or("known").to_string(),
                        what: v["what"].as_str().unwrap_or("").to_string(),
                    });
                }
            }
        }
        let _ = std::fs::remove_dir_all(format!("{}/replays/{property}", verif_root()));
        Reporter {
            property: property.to_string(),
            tier: tier.to_string(),
            seed,
            start: Instant::now(),
            known,
            inner: Mutex::new(Inner::default()),
        }
    }

    pub fn report(&self, mut v: Violation) {
        // a cause tag set by the calling thread for the case at hand (so that one cause gives one key)
        KEY_SUFFIX.with(|s| {
            if let Some(sfx) = s.borrow().as_ref()
                && !v.key.starts_with("machinery.")
            {
                v.key = format!("{}[{sfx}]", v.key);
            }
        });
        v.key = v.key.replace(' ', "_");
        let mut g = self.inner.lock().unwrap();
        match g.by_key.get_mut(&v.key) {
            Some(e) => {
                e.0 += 1;
                // keep the smallest witness (by serialized length) for readability
                let old = e.1.case.to_string().len();
                let new = v.case.to_string().len();
                if new < old {
                    e.1 = v;
                }
            }
            None => {
                g.by_key.insert(v.key.clone(), (1, v));
            }
        }
    }

    pub fn elapsed(&self) -> f64 {
        self.start.elapsed().as_secs_f64()
    }

    pub fn violation_keys(&self) -> Vec<String> {
        self.inner.lock().unwrap().by_key.keys().cloned().collect()
    }

    /// Print KNOWN-FINDING / VIOLATION lines, write replay files and the evidence file.
    /// Returns the process exit code.
    pub fn finish(&self, mut coverage: Value, assumptions: Vec<String>) -> i32 {
        let g = self.inner.lock().unwrap();
        let mut new_violations = 0u64;
        let mut machinery_errors = 0u64;
        let mut known_hits = vec![];
        let mut viol_list = vec![];
        let replay_dir = PathBuf::from(format!("{}/replays/{}", verif_root(), self.property));
        for (key, (count, v)) in g.by_key.iter() {
            let k = self
                .known
                .iter()
                .find(|k| k.status == "known" && k.key == *key);
            if key.starts_with("machinery.") {
                machinery_errors += 1;
                eprintln!("MACHINERY {} ({} occurrences): {} :: {}", key, count, v.what, v.case);
                continue;
            }
            if let Some(k) = k {
                println!(
                    "KNOWN-FINDING: property={} {} [key={} occurrences={}]",
                    self.property, k.what, key, count
                );
                known_hits.push(json!({"key": key, "occurrences": count, "what": k.what}));
            } else {
                new_violations += 1;
                let _ = std::fs::create_dir_all(&replay_dir);
                let h = fnv(key.as_bytes());
                let path = replay_dir.join(format!("{h:016x}.json"));
                let body = json!({
                    "property": self.property,
                    "key": key,
                    "what": v.what,
                    "occurrences": count,
                    "case": v.case,
                });
                let _ = std::fs::write(&path, serde_json::to_string_pretty(&body).unwrap());
                println!(
                    "VIOLATION property={} replay={} key={} occurrences={} :: {}",
                    self.property,
                    path.display(),
                    key,
                    count,
                    v.what
                );
                viol_list.push(json!({"key": key, "occurrences": count, "what": v.what, "replay": path}));
            }
        }
        // fixed entries are informational only (they suppress nothing)
        let fixed: Vec<Value> = self
            .known
            .iter()
            .filter(|k| k.status == "fixed")
            .map(|k| json!({"key": k.key, "what": k.what}))
            .collect();
        let not_reproduced: Vec<Value> = self
            .known
            .iter()
            .filter(|k| k.status == "known" && !g.by_key.contains_key(&k.key))
            .map(|k| json!({"key": k.key, "what": k.what}))
            .collect();
        if let Some(obj) = coverage.as_object_mut() {
            obj.insert("known_findings_reproduced".into(), Value::Array(known_hits));
            obj.insert(
                "known_findings_not_reproduced_in_this_run".into(),
                Value::Array(not_reproduced),
            );
            obj.insert("fixed_findings".into(), Value::Array(fixed));
            obj.insert("new_violations".into(), Value::Array(viol_list));
        }
        let ev = json!({
            "property_id": self.property,
            "tier": self.tier,
            "seed": self.seed,
            "level": "model_checking",
            "coverage": coverage,
            "assumptions": assumptions,
            "wall_s": self.elapsed(),
            "violations": new_violations,
        });
        let evdir = format!("{}/evidence", verif_root());
        let _ = std::fs::create_dir_all(&evdir);
        let evpath = format!("{evdir}/{}.json", self.property);
        if let Err(e) = std::fs::write(&evpath, serde_json::to_string_pretty(&ev).unwrap()) {
            eprintln!("MACHINERY cannot write evidence {evpath}: {e}");
            return 2;
        }
        if new_violations > 0 {
            1
        } else if machinery_errors > 0 {
            2
        } else {
            0
        }
    }
}

pub fn stats_json(s: &crate::explore::ExploreStats) -> Value {
    let mut cov = serde_json::Map::new();
    for ((l, a), n) in &s.label_coverage {
        cov.insert(format!("{l}={a}"), json!(n));
    }
    json!({
        "evaluations": s.evaluations,
        "per_deviation_level": s.per_level,
        "deviation_bound_completed": s.completed_level,
        "cap_hit": s.cap_hit,
        "choice_alternatives_never_taken": s.uncovered,
        "label_coverage": cov,
    })
}

pub fn machinery(msg: &str) -> ! {
    eprintln!("MACHINERY {msg}");
    std::process::exit(2);
}

pub struct Args {
    pub tier: String,
    pub replay: Option<String>,
    pub threads: usize,
}

impl Args {
    pub fn quick(&self) -> bool {
        self.tier != "thorough"
    }
}
