//! C06 layer 2 (and C20's CLI clause) — source maps and module specifiers of whole projects,
//! end to end through the built `nitrogql-cli` binary.
//!
//! E1 over project shapes (schema in 1-3 files, output layouts above / below / beside / in a
//! sibling tree of the operations, every TypeScript extension the CLI rewrites, the three generate
//! modes, resolvers beside or away from the schema file, CRLF, non-ASCII and astral text before a
//! mapped token, imports between operation files). For every `*.map` the CLI writes:
//!   shape      version 3, `file` = the generated file, `sources` / `names` arrays of strings;
//!   sources    every entry, resolved relative to the map, is an input file of the right kind;
//!   segments   decode (R-SMAP), generated positions ordered and inside the generated text,
//!              source index inside `sources`, original position inside the source text;
//!   tokens     a named segment points at a token start (R-LEX) and `names[i]` is that token, or
//!              the token is a definition keyword; an unnamed segment points at a token start or
//!              at "opening position + UTF-16 length of the opener's name" (a closing segment);
//!   coverage   every schema type and field, and every operation / fragment (imported ones too),
//!              has a named segment from its declaring identifier in the generated text to its
//!              name token in the defining GraphQL file.
//! And for every operation / resolvers declaration file: the `import type * as Schema from "<spec>"`
//! specifier starts with ./ or ../ and, with its JS extension mapped back, names the schema output.

use crate::c18;
use crate::cli::{self, Project};
use crate::explore::{Chooser, DistinctSet, ExploreCfg, explore, fnv};
use crate::report::{Args, Reporter, Violation, stats_json};
use crate::rparse::{Tok, lex, parse_exec, parse_ts};
use crate::gql::*;
use crate::smap::{decode_mappings, utf16_len};
use serde_json::{Value as J, json};
use std::collections::{BTreeMap, BTreeSet};
use std::sync::Mutex;
use std::sync::atomic::{AtomicU64, Ordering};
use std::time::Duration;

const MODES: [(&str, &str); 3] = [("with-loader-ts-5.0", "d.graphql.ts"), ("with-loader-ts-4.0", "graphql.d.ts"), ("standalone-ts-4.0", "graphql.ts")];
/// (schema output extension, emits runtime, JS extension the CLI must write in specifiers)
const EXTS: [(&str, bool, &str); 7] = [(".d.ts", false, ".js"), (".ts", true, ".js"), (".d.mts", false, ".mjs"), (".mts", true, ".mjs"), (".d.cts", false, ".cjs"), (".cts", false, ".cjs"), (".tsx", false, ".js")];
const LAYOUTS: [&str; 6] = ["generated/schema", "schema-types", "src/types/schema", "out/a/b/schema", "src/deep/schema", "generated.out/api.v2.schema"];

#[derive(Clone, Debug)]
pub struct Case {
    pub files: BTreeMap<String, String>,
    pub yaml: String,
    pub schema_out: String,
    pub resolvers_out: Option<String>,
    pub mode: usize,
    pub tags: Vec<String>,
}

const UNI_SCHEMA: &str = "type Uni {\n  \"é\" e: Int \"😀\" a: Int b: Int\n}\nextend type Query { \"😀 astral\" uni: Uni }\n";
const UNI_OP: &str = "query U1 { search(text: \"😀\") { __typename } } query U2 { uni { e a b } }\nfragment UF on Uni { a } # 😀\n";

fn gen_case(c: &mut Chooser) -> Case {
    let mut tags = vec![];
    let base = c18::base_files();
    let mut files: BTreeMap<String, String> = BTreeMap::new();
    let (main_s, ext_s) = (base[c18::F_MAIN_S].clone(), base[c18::F_EXT_S].clone());
    match c.choose("schema.files", 4) {
        3 => {
            // a tiny first file with two definitions on distant lines, and header comments on the files parsed after it:
            // the next file's first token lies beyond the offset of the previous file's last definition
            files.insert("schema/a_first.graphql".into(), "scalar Aa\n\n\n\nscalar Ab\n".into());
            files.insert("schema/main.graphql".into(), format!("# schema of the demo project (main part)\n{main_s}"));
            files.insert("schema/ext.graphql".into(), format!("# extensions, kept apart from the main part\n{ext_s}"));
            tags.push("tiny-first-schema-file-then-header-comments".into());
        }
        0 => {
            files.insert("schema/main.graphql".into(), main_s);
            files.insert("schema/ext.graphql".into(), ext_s);
        }
        1 => {
            files.insert("schema/all.graphql".into(), format!("{main_s}{ext_s}"));
            tags.push("one-schema-file".into());
        }
        _ => {
            files.insert("schema/main.graphql".into(), main_s);
            files.insert("schema/ext.graphql".into(), ext_s);
            files.insert("schema/zextra.graphql".into(), crate::c17::EXTRA_SCHEMA.replace("scalar Url\nscalar Json\nscalar Big\n", "scalar Url\nscalar Json\nscalar Big\n").to_string());
            files.insert("src/deep/orgs.graphql".into(), crate::c17::EXTRA_OP.into());
            tags.push("three-schema-files".into());
        }
    }
    for k in [c18::F_MAIN, c18::F_FRAGS, c18::F_SIMPLE, c18::F_OTHER, c18::F_SPACED] {
        files.insert(k.to_string(), base[k].clone());
    }
    // a chain of imports: a -> b -> c, where a does not import c itself, across directories
    files.insert("src/chain/a.graphql".into(), "#import Mid from \"./lib/b.graphql\"\nquery ChainA {\n  me { ...Mid }\n}\n".into());
    files.insert("src/chain/lib/b.graphql".into(), "#import Leaf from \"../../leaf/c.graphql\"\nfragment Mid on User {\n  id\n  ...Leaf\n}\n".into());
    // the same specifier text in two directories, naming two different files
    files.insert("src/dup/one/main.graphql".into(), "#import Near from \"./frag.graphql\"\n#import Far from \"../two/entry.graphql\"\nquery DupMain {\n  me { ...Near ...Far }\n}\n".into());
    files.insert("src/dup/one/frag.graphql".into(), "fragment Near on User {\n  id\n}\n".into());
    files.insert("src/dup/two/entry.graphql".into(), "#import Deep from \"./frag.graphql\"\nfragment Far on User {\n  name\n  ...Deep\n}\n".into());
    files.insert("src/dup/two/frag.graphql".into(), "fragment Deep on User {\n  age\n}\n".into());
    // paths that differ only in letter case (file name, directory name) are different files
    files.insert("src/case/main.graphql".into(), "#import CaseUpper from \"./Parts.graphql\"\n#import CaseDir from \"../Case/extra.graphql\"\nquery CaseMain {\n  me { ...CaseUpper ...CaseDir }\n}\n".into());
    files.insert("src/Case/main.graphql".into(), "#import CaseLower from \"../case/parts.graphql\"\n#import CaseDir from \"../case/extra.graphql\"\nquery CaseMain2 {\n  me { ...CaseLower ...CaseDir }\n}\n".into());
    files.insert("src/case/Parts.graphql".into(), "fragment CaseUpper on User {\n  id\n}\n".into());
    files.insert("src/case/parts.graphql".into(), "fragment CaseLower on User {\n  name\n}\n".into());
    files.insert("src/Case/extra.graphql".into(), "fragment CaseDir on User {\n  age\n}\n".into());
    files.insert("src/case/extra.graphql".into(), "fragment CaseDir on User {\n  name\n  kind\n}\n".into());
    // one file importing same-named files from its own directory and from two ancestors: specifiers that differ
    // only in how far they climb
    files.insert("src/climb/deep/main.graphql".into(), "#import ClimbNear from \"./frags.graphql\"\n#import ClimbFar from \"../frags.graphql\"\n#import UserBits from \"../../frags.graphql\"\nquery ClimbMain {\n  me { ...ClimbNear ...ClimbFar ...UserBits }\n}\n".into());
    files.insert("src/climb/deep/frags.graphql".into(), "fragment ClimbNear on User {\n  id\n}\n".into());
    files.insert("src/climb/frags.graphql".into(), "fragment ClimbFar on User {\n  age\n}\n".into());
    files.insert("src/leaf/c.graphql".into(), "fragment Leaf on User {\n  name\n}\nfragment LeafUnused on User { age }\n".into());
    // names that are ordinary on POSIX but special elsewhere: a backslash in a directory and in a file name, a space
    if c.flag("names.backslash-and-space") {
        files.insert("src/odd\\dir/back\\slash op.graphql".into(), "#import OddFrag from \"./frag\\\\ments.graphql\"\nquery OddNames {\n  me { ...OddFrag }\n}\n".into());
        files.insert("src/odd\\dir/frag\\ments.graphql".into(), "fragment OddFrag on User {\n  id\n}\n".into());
        tags.push("backslash-and-space-in-names".into());
    }
    match c.choose("unicode", 2) {
        0 => {}
        _ => {
            files.insert("schema/zuni.graphql".into(), UNI_SCHEMA.into());
            files.insert("src/uni.graphql".into(), UNI_OP.into());
            tags.push("non-ascii-before-mapped-tokens".into());
        }
    }
    match c.choose("eol", 3) {
        0 => {}
        1 => {
            for (k, v) in files.iter_mut().filter(|(k, _)| k.starts_with("src/")) {
                let _ = k;
                *v = v.replace('\n', "\r\n");
            }
            tags.push("crlf-operations".into());
        }
        _ => {
            for (k, v) in files.iter_mut().filter(|(k, _)| k.starts_with("schema/")) {
                let _ = k;
                *v = v.replace('\n', "\r\n");
            }
            tags.push("crlf-schema".into());
        }
    }
    // history: the project was generated once, then every GraphQL file got a comment line on top (tokens move, the
    // generated TypeScript does not change), then it is generated again - the maps must describe the files as they are
    if c.flag("history.regenerated-after-a-comment-line-was-added") {
        for (k, v) in files.iter_mut().filter(|(k, _)| k.ends_with(".graphql")) {
            let _ = k;
            let eol = if v.contains("\r\n") { "\r\n" } else { "\n" };
            *v = format!("# second generation{eol}{v}");
        }
        tags.push("regenerated-after-edit".into());
    }
    let layout = c.choose("layout", LAYOUTS.len());
    let ext = c.choose("schema.ext", EXTS.len());
    let mode = c.choose("mode", 3);
    let schema_out = format!("{}{}", LAYOUTS[layout], EXTS[ext].0);
    let resolvers_out = match c.choose("resolvers", 3) {
        0 => Some(LAYOUTS[layout].rsplit_once('/').map_or("resolvers.d.ts".to_string(), |x| format!("{}/resolvers.d.ts", x.0))),
        1 => Some("generated/r/resolvers.d.ts".to_string()),
        _ => None,
    };
    // the configuration file in the project root, or in a subdirectory with `..` in every pattern and output path
    let sub = c.flag("config.in-subdirectory");
    let up = if sub { ".." } else { "." };
    // a plugin that contributes a schema addition: a virtual file takes a place in the CLI's file table
    let plugin = c.flag("plugins.model-plugin");
    if plugin {
        for (_, v) in files.iter_mut().filter(|(k, _)| k.starts_with("schema/")) {
            *v = v.replace("type Post implements Node {\n  id: ID!", "type Post implements Node {\n  id: ID! @model").replace("type Post implements Node {\r\n  id: ID!", "type Post implements Node {\r\n  id: ID! @model");
        }
        tags.push("model-plugin".into());
    }
    let mut y = format!("schema: {up}/schema/*.graphql\ndocuments:\n  - {up}/src/**/*.graphql\nextensions:\n  nitrogql:\n{}    generate:\n", if plugin { "    plugins:\n      - \"nitrogql:model-plugin\"\n" } else { "" });
    y.push_str(&format!("      mode: {}\n      schemaOutput: {up}/{schema_out}\n", MODES[mode].0));
    if let Some(r) = &resolvers_out {
        y.push_str(&format!("      resolversOutput: {up}/{r}\n"));
    }
    if sub {
        tags.push("config-in-subdirectory".into());
    }
    // where the CLI is started: the project root, or two levels down (the configuration is then named through `..`)
    if c.flag("cli.started-in-a-subdirectory") {
        tags.push("cwd:src/deep".into());
    }
    if EXTS[ext].1 {
        y.push_str("      emitSchemaRuntime: true\n");
    }
    // an explicit module specifier for the schema types: written as given into every declaration that imports them
    if c.flag("generate.schemaModuleSpecifier") {
        y.push_str("      schemaModuleSpecifier: \"@app/schema-types\"\n");
        tags.push("schema-module-specifier".into());
    }
    // a scalar mapped to a TypeScript type that mentions an identifier equal to a schema type name makes the schema
    // printer declare that type under a local alias; fields of that type keep their source name in the map
    let date_ts = *c.pick("scalarTypes.Date", &["string", "Date", "Date | string"]);
    if date_ts != "string" {
        tags.push(format!("scalar-mapped-to-its-namesake:{date_ts}"));
    }
    y.push_str(&format!("      type:\n        scalarTypes:\n          Date: {date_ts}\n          Url: string\n          Json: unknown\n          Big: string\n          Aa: string\n          Ab: string\n"));
    files.insert(if sub { "cfg/graphql.config.yaml".to_string() } else { "graphql.config.yaml".to_string() }, y.clone());
    Case { files, yaml: y, schema_out, resolvers_out, mode, tags }
}

/// token starts of a GraphQL file: (line, char column) -> (utf16 column, token text if a name / punctuator)
struct Toks {
    by_char: BTreeMap<(u32, u32), (u32, String)>,
    by_utf16: BTreeMap<(u32, u32), String>,
    lines: Vec<String>,
}

fn toks(text: &str) -> Option<Toks> {
    let lines: Vec<String> = {
        // R-LEX line structure: LF, CRLF and lone CR end a line
        let mut v = vec![String::new()];
        let cs: Vec<char> = text.chars().collect();
        let mut i = 0;
        while i < cs.len() {
            match cs[i] {
                '\n' => v.push(String::new()),
                '\r' if cs.get(i + 1) == Some(&'\n') => v.last_mut().unwrap().push('\r'),
                '\r' => v.push(String::new()),
                ch => v.last_mut().unwrap().push(ch),
            }
            i += 1;
        }
        v
    };
    let mut t = Toks { by_char: BTreeMap::new(), by_utf16: BTreeMap::new(), lines };
    let u16col = |t: &Toks, line: u32, col: u32| -> u32 { t.lines.get(line as usize).map_or(col, |l| l.chars().take(col as usize).map(|c| c.len_utf16() as u32).sum()) };
    let mut add = |t: &mut Toks, p: P, text: String| {
        let u = u16col(t, p.line, p.col);
        t.by_char.insert((p.line, p.col), (u, text.clone()));
        t.by_utf16.insert((p.line, u), text);
    };
    for tk in lex(text).ok()? {
        match &tk.t {
            Tok::Name(s) => add(&mut t, tk.p, s.clone()),
            Tok::Punct(p) => add(&mut t, tk.p, p.to_string()),
            Tok::Int(s) | Tok::Float(s) => add(&mut t, tk.p, s.clone()),
            Tok::Str(..) => add(&mut t, tk.p, "\"".into()),
            Tok::Import(targets, _, pp) => {
                add(&mut t, tk.p, "#import".into());
                for n in targets.iter().flatten() {
                    add(&mut t, n.p, n.s.clone());
                }
                add(&mut t, *pp, "\"".into());
            }
            Tok::Eof => {}
        }
    }
    Some(t)
}

thread_local! {
    /// C20's CLI clause uses the same projects but judges only where paths lead (sources[], module specifiers)
    static PATHS_ONLY: std::cell::Cell<bool> = const { std::cell::Cell::new(false) };
}
fn paths_only() -> bool {
    PATHS_ONLY.with(|c| c.get())
}

const KEYWORDS: [&str; 13] = ["type", "interface", "union", "enum", "input", "scalar", "directive", "schema", "extend", "query", "mutation", "subscription", "fragment"];

pub struct Ctr {
    pub runs: AtomicU64,
    pub maps: AtomicU64,
    pub segments: AtomicU64,
    pub coverage_items: AtomicU64,
    pub specifiers: AtomicU64,
    pub char_vs_utf16: AtomicU64,
}

fn norm_join(dir: &str, rel: &str) -> String {
    if dir.is_empty() { cli::norm_path(rel) } else { cli::norm_path(&format!("{dir}/{rel}")) }
}
fn dir_of(p: &str) -> &str {
    p.rsplit_once('/').map_or("", |x| x.0)
}

#[allow(clippy::too_many_arguments)]
fn check_map(rep: &Reporter, case: &Case, case_json: &dyn Fn(J) -> J, map_path: &str, map_text: &str, gen_text: &str, expected_sources: &BTreeSet<String>, tok_cache: &BTreeMap<String, Toks>, ctr: &Ctr, kind: &str) -> Option<Vec<(String, u32, u32, String, String)>> {
    // returns named segments as (source file, line, utf16 col, name, generated text at the segment)
    let bad = |key: String, what: String| rep.report(Violation { key: format!("e2e.{key}"), what: format!("{map_path}: {what}"), case: case_json(json!({"map": map_path, "map_text": map_text.chars().take(4000).collect::<String>()})) });
    let v: J = match serde_json::from_str(map_text) {
        Ok(v) => v,
        Err(e) => {
            bad(format!("map_not_json:{kind}"), format!("not JSON: {e}"));
            return None;
        }
    };
    let gen_name = map_path.strip_suffix(".map").unwrap_or(map_path).rsplit('/').next().unwrap_or("");
    if v["version"] != json!(3) || v["file"].as_str() != Some(gen_name) || !v["mappings"].is_string() {
        bad(format!("map_shape:{kind}"), format!("version/file/mappings malformed: version={} file={}", v["version"], v["file"]));
        return None;
    }
    let (Some(sources), Some(names)) = (v["sources"].as_array(), v["names"].as_array()) else {
        bad(format!("map_shape:{kind}"), "sources / names are not arrays".into());
        return None;
    };
    let root = v["sourceRoot"].as_str().unwrap_or("");
    let mut src_files: Vec<Option<String>> = vec![];
    let mut virtual_sources: Vec<i128> = vec![];
    for (i, s) in sources.iter().enumerate() {
        let Some(s) = s.as_str() else {
            bad(format!("map_shape:{kind}"), format!("sources[{i}] is not a string"));
            return None;
        };
        let res = norm_join(dir_of(map_path), &format!("{root}{s}"));
        if case.tags.iter().any(|t| t == "model-plugin") && s.rsplit('/').next() == Some("(plugin)") {
            // the plugin's schema addition is a virtual file (a relative name, outside C20's precondition):
            // its entry is tolerated, a segment into it is not
            src_files.push(None);
            virtual_sources.push(i as i128);
        } else if !case.files.contains_key(&res) || !res.ends_with(".graphql") {
            bad(format!("source_does_not_resolve:{kind}"), format!("sources[{i}] = {s:?} resolves to {res:?}, which is not an input file"));
            src_files.push(None);
        } else {
            if !expected_sources.contains(&res) {
                bad(format!("source_of_wrong_file:{kind}"), format!("sources[{i}] = {res:?} is not among the files this output is generated from ({expected_sources:?})"));
            }
            src_files.push(Some(res));
        }
    }
    for e in expected_sources {
        if !src_files.iter().flatten().any(|s| s == e) {
            bad(format!("source_missing:{kind}"), format!("{e} contributes to this file but is not listed in sources"));
        }
    }
    if paths_only() {
        ctr.maps.fetch_add(1, Ordering::Relaxed);
        return None;
    }
    let dec = match decode_mappings(v["mappings"].as_str().unwrap()) {
        Ok(d) => d,
        Err(e) => {
            bad(format!("mappings_undecodable:{kind}"), e);
            return None;
        }
    };
    ctr.maps.fetch_add(1, Ordering::Relaxed);
    let gen_lines: Vec<&str> = gen_text.split('\n').collect();
    let mut named = vec![];
    // openers seen so far per (source, line): (utf16 col, name length) for closing segments
    let mut openers: BTreeSet<(i128, i128, i128)> = BTreeSet::new();
    let mut last: Option<(usize, i128)> = None;
    for s in &dec.segments {
        ctr.segments.fetch_add(1, Ordering::Relaxed);
        if let Some((l, cprev)) = last
            && l == s.gen_line
            && s.gen_col < cprev
        {
            bad(format!("generated_columns_not_ordered:{kind}"), format!("generated line {l}: column {} after {cprev}", s.gen_col));
        }
        last = Some((s.gen_line, s.gen_col));
        let Some(gl) = gen_lines.get(s.gen_line) else {
            bad(format!("generated_position_outside_text:{kind}"), format!("segment on generated line {} but the file has {} lines", s.gen_line, gen_lines.len()));
            continue;
        };
        if s.gen_col < 0 || s.gen_col as usize > utf16_len(gl) {
            bad(format!("generated_position_outside_text:{kind}"), format!("generated line {} column {} is outside the line (length {})", s.gen_line, s.gen_col, utf16_len(gl)));
            continue;
        }
        let Some((si, ol, oc)) = s.src else { continue };
        if si < 0 || si as usize >= sources.len() {
            bad(format!("source_index_out_of_range:{kind}"), format!("segment at generated {}:{} has source index {si} ({} sources)", s.gen_line, s.gen_col, sources.len()));
            continue;
        }
        if virtual_sources.contains(&si) {
            bad(format!("segment_into_virtual_file:{kind}"), format!("segment at generated {}:{} points into the plugin's virtual file, which prints nothing", s.gen_line, s.gen_col));
            continue;
        }
        let Some(sf) = &src_files[si as usize] else { continue };
        let tk = &tok_cache[sf];
        if ol < 0 || oc < 0 || ol as usize >= tk.lines.len() || oc as usize > utf16_len(&tk.lines[ol as usize]) {
            bad(format!("original_position_outside_source:{kind}"), format!("segment at generated {}:{} points at {sf}:{ol}:{oc}, outside the file", s.gen_line, s.gen_col));
            continue;
        }
        let key = (ol as u32, oc as u32);
        let at16 = tk.by_utf16.get(&key);
        // generated text at the segment (utf16 col -> char index)
        let gen_at: String = {
            let mut u = 0usize;
            let mut out = String::new();
            for ch in gl.chars() {
                if u >= s.gen_col as usize {
                    out.push(ch);
                    if out.chars().count() >= 40 {
                        break;
                    }
                }
                u += ch.len_utf16();
            }
            out
        };
        match s.name {
            Some(ni) => {
                let Some(name) = names.get(ni as usize).and_then(|n| n.as_str()) else {
                    bad(format!("name_index_out_of_range:{kind}"), format!("name index {ni} ({} names)", names.len()));
                    continue;
                };
                match at16 {
                    Some(tok) => {
                        if tok != name && !KEYWORDS.contains(&tok.as_str()) {
                            bad(format!("name_is_not_the_token:{kind}"), format!("names[{ni}] = {name:?} but {sf}:{ol}:{oc} is the token {tok:?}"));
                        }
                    }
                    None => {
                        // column given in characters instead of UTF-16 units?
                        if let Some((_, tok)) = tk.by_char.get(&key).filter(|(u, _)| *u != key.1) {
                            ctr.char_vs_utf16.fetch_add(1, Ordering::Relaxed);
                            bad(format!("original_column_in_chars_not_utf16:{kind}"), format!("segment for {name:?} points at {sf}:{ol}:{oc}: that is the character column of token {tok:?}, whose UTF-16 column differs (astral character earlier on the line)"));
                        } else {
                            bad(format!("original_position_not_a_token_start:{kind}"), format!("named segment {name:?} points at {sf}:{ol}:{oc} = {:?}, not the start of a token", tk.lines[ol as usize].chars().skip(oc as usize).take(12).collect::<String>()));
                        }
                        continue;
                    }
                }
                openers.insert((si, ol, oc + utf16_len(name) as i128));
                named.push((sf.clone(), ol as u32, oc as u32, name.to_string(), gen_at));
            }
            None => {
                let closing = openers.contains(&(si, ol, oc));
                if at16.is_none() && !closing {
                    let astral_before = tk.lines[ol as usize].chars().take(oc as usize + 2).any(|ch| ch.len_utf16() == 2);
                    if astral_before || tk.by_char.get(&key).is_some_and(|(u, _)| *u != key.1) {
                        ctr.char_vs_utf16.fetch_add(1, Ordering::Relaxed);
                        bad(format!("original_column_in_chars_not_utf16:{kind}"), format!("unnamed segment points at {sf}:{ol}:{oc}: a character column, not a UTF-16 column"));
                    } else {
                        bad(format!("original_position_not_a_token_start:{kind}"), format!("unnamed segment at generated {}:{} points at {sf}:{ol}:{oc} = {:?}: neither a token start nor the end of a mapped name", s.gen_line, s.gen_col, tk.lines[ol as usize].chars().skip(oc as usize).take(12).collect::<String>()));
                    }
                }
            }
        }
    }
    Some(named)
}

fn check_case(rep: &Reporter, case: &Case, c: &Chooser, ctr: &Ctr) {
    let dir = cli::thread_dir("c06");
    let mut p = Project::default();
    p.files = case.files.clone();
    let cfg_path = if case.files.contains_key("cfg/graphql.config.yaml") { "cfg/graphql.config.yaml" } else { "graphql.config.yaml" };
    let cwd_rel = if case.tags.iter().any(|t| t == "cwd:src/deep") { "src/deep" } else { "" };
    let cfg_arg = if cwd_rel.is_empty() { cfg_path.to_string() } else { format!("../../{cfg_path}") };
    let args: Vec<String> = ["--config-file", cfg_arg.as_str(), "--output-format", "json", "generate"].iter().map(|s| s.to_string()).collect();
    if case.tags.iter().any(|t| t == "regenerated-after-edit") {
        // first generation: the same files without their first (comment) line
        let mut first = Project::default();
        for (k, v) in &case.files {
            let text = if k.ends_with(".graphql") { v.split_once('\n').map_or(String::new(), |x| x.1.to_string()) } else { v.clone() };
            first.files.insert(k.clone(), text);
        }
        cli::materialize(&dir, &first);
        let r1 = cli::run_in(&dir, cwd_rel, &args, &[], Duration::from_secs(30));
        ctr.runs.fetch_add(1, Ordering::Relaxed);
        if r1.code != Some(0) {
            rep.report(Violation { key: "e2e.generate_fails_on_valid_project".into(), what: format!("the first generation exits with {:?} on a valid project", r1.code), case: json!({"layer": "e2e", "tags": case.tags, "files": first.files, "stdout": r1.stdout}) });
            return;
        }
        cli::overwrite(&dir, &p);
    } else {
        cli::materialize(&dir, &p);
    }
    let r = cli::run_in(&dir, cwd_rel, &args, &[], Duration::from_secs(30));
    ctr.runs.fetch_add(1, Ordering::Relaxed);
    let case_json = |extra: J| json!({"layer": "e2e", "tags": case.tags, "config": case.yaml, "picks": c.picks(), "deviations": c.deviation_labels(), "files": case.files, "detail": extra});
    if r.code != Some(0) {
        rep.report(Violation { key: "e2e.generate_fails_on_valid_project".into(), what: format!("generate exits with {:?} on a valid project", r.code), case: case_json(json!({"stdout": r.stdout, "stderr": r.stderr})) });
        return;
    }
    let get = |n: &str| r.after.get(n).map(|b| String::from_utf8_lossy(b).to_string());
    let schema_files: BTreeSet<String> = case.files.keys().filter(|k| k.starts_with("schema/")).cloned().collect();
    let op_files: Vec<String> = case.files.keys().filter(|k| k.starts_with("src/") && k.ends_with(".graphql")).cloned().collect();
    let mut tok_cache = BTreeMap::new();
    for f in schema_files.iter().chain(op_files.iter()) {
        match toks(&case.files[f]) {
            Some(t) => {
                tok_cache.insert(f.clone(), t);
            }
            None => {
                rep.report(Violation { key: "machinery.e2e_lex".into(), what: format!("R-LEX cannot read {f}"), case: case_json(json!({})) });
                return;
            }
        }
    }
    // ---- schema + resolvers maps
    let mut schema_named = vec![];
    for (out, kind) in [(Some(case.schema_out.clone()), "schema"), (case.resolvers_out.clone(), "resolvers")] {
        let Some(out) = out else { continue };
        let (Some(gen_text), Some(map)) = (get(&out), get(&format!("{out}.map"))) else {
            rep.report(Violation { key: format!("e2e.output_missing:{kind}"), what: format!("{out} or its map was not written"), case: case_json(json!({"written": r.written()})) });
            continue;
        };
        if let Some(named) = check_map(rep, case, &case_json, &format!("{out}.map"), &map, &gen_text, &schema_files, &tok_cache, ctr, kind)
            && kind == "schema"
        {
            schema_named = named;
        }
        if kind == "resolvers" {
            check_specifier(rep, case, &case_json, &out, &gen_text, ctr);
        }
    }
    if paths_only() {
        for f in &op_files {
            let stem = f.strip_suffix(".graphql").unwrap();
            let out = format!("{stem}.{}", MODES[case.mode].1);
            let (Some(gen_text), Some(map)) = (get(&out), get(&format!("{out}.map"))) else { continue };
            let mut expected: BTreeSet<String> = schema_files.clone();
            expected.insert(f.clone());
            let mut imported: Vec<String> = vec![];
            collect_imports(case, f, &mut imported);
            expected.extend(imported);
            check_map(rep, case, &case_json, &format!("{out}.map"), &map, &gen_text, &expected, &tok_cache, ctr, "operation");
            check_specifier(rep, case, &case_json, &out, &gen_text, ctr);
        }
        return;
    }
    // coverage: every schema type and field
    let mut want: Vec<(String, Vec<(u32, u32)>, String, &'static str)> = vec![]; // file, acceptable header positions (utf16), name, what
    let schema_text = get(&case.schema_out).unwrap_or_default();
    let declared = |n: &str| schema_text.contains(&format!("type {n} =")) || schema_text.contains(&format!("type __tmp_{n} ="));
    for f in &schema_files {
        let Ok(doc) = parse_ts(&case.files[f]) else { continue };
        let tk = &tok_cache[f];
        let c16 = |p: P| tk.by_char.get(&(p.line, p.col)).map_or(p.col, |x| x.0);
        for d in &doc.defs {
            if matches!(d.kind, TsKind::Schema | TsKind::Directive) {
                continue;
            }
            // "for every definition printed in G": the alias must be declared in the generated text;
            // fields are printed as properties only for object and input object types
            let Some(n) = &d.name else { continue };
            if !declared(&n.s) {
                continue;
            }
            if !d.ext {
                want.push((f.clone(), vec![(n.p.line, c16(n.p)), (d.p_kw.line, c16(d.p_kw)), (d.p_first.line, c16(d.p_first))], n.s.clone(), "type"));
            }
            if d.kind == TsKind::Object {
                for fl in &d.fields {
                    want.push((f.clone(), vec![(fl.name.p.line, c16(fl.name.p))], fl.name.s.clone(), "field"));
                }
            }
            for fl in &d.input_fields {
                want.push((f.clone(), vec![(fl.name.p.line, c16(fl.name.p))], fl.name.s.clone(), "input-field"));
            }
        }
    }
    for (f, poss, name, what) in &want {
        ctr.coverage_items.fetch_add(1, Ordering::Relaxed);
        let (l, col) = &poss[0];
        let hit = schema_named.iter().any(|(sf, sl, sc, sn, gtext)| sf == f && poss.contains(&(*sl, *sc)) && sn == name && (gtext.starts_with(name.as_str()) || gtext.starts_with(&format!("\"{name}\"")) || gtext.starts_with(&format!("__tmp_{name}"))));
        let astral = tok_cache[f].lines.get(*l as usize).is_some_and(|ln| ln.chars().scan(0u32, |u, ch| { let at = *u; *u += ch.len_utf16() as u32; Some((at, ch)) }).any(|(at, ch)| at < *col && ch.len_utf16() == 2));
        if !hit && astral {
            // consequence of columns being counted in characters: reported once under that key
            rep.report(Violation { key: "e2e.original_column_in_chars_not_utf16:schema".into(), what: format!("{what} `{name}` at {f}:{l}:{col} follows an astral character on its line: its segment carries a character column"), case: case_json(json!({"item": name})) });
        } else if !hit {
            rep.report(Violation {
                key: format!("e2e.not_mapped:schema:{what}"),
                what: format!("{}.map: the {what} `{name}` defined at {f}:{l}:{col} has no named segment from its declaring identifier", case.schema_out),
                case: case_json(json!({"item": name, "at": format!("{f}:{l}:{col}")})),
            });
        }
    }
    // ---- operation maps
    // definitions of every operation file (for imported fragments)
    // name, name position, definition (keyword) position
    let mut defs_by_file: BTreeMap<String, Vec<(String, u32, u32, u32, u32)>> = BTreeMap::new();
    for f in &op_files {
        let Ok(doc) = parse_exec(&case.files[f]) else { continue };
        let tk = &tok_cache[f];
        let c16 = |p: P| tk.by_char.get(&(p.line, p.col)).map_or(p.col, |x| x.0);
        for d in &doc.defs {
            match d {
                ExecDef::Op { name: Some(n), p, .. } => defs_by_file.entry(f.clone()).or_default().push((n.s.clone(), n.p.line, c16(n.p), p.line, c16(*p))),
                ExecDef::Frag { name, p, .. } => defs_by_file.entry(f.clone()).or_default().push((name.s.clone(), name.p.line, c16(name.p), p.line, c16(*p))),
                _ => {}
            }
        }
    }
    for f in &op_files {
        let stem = f.strip_suffix(".graphql").unwrap();
        let out = format!("{stem}.{}", MODES[case.mode].1);
        let (Some(gen_text), Some(map)) = (get(&out), get(&format!("{out}.map"))) else {
            rep.report(Violation { key: "e2e.output_missing:operation".into(), what: format!("{out} or its map was not written"), case: case_json(json!({"written": r.written()})) });
            continue;
        };
        // files this declaration is generated from: the schema files, itself, and the files it imports fragments from
        let mut expected: BTreeSet<String> = schema_files.clone();
        expected.insert(f.clone());
        let mut imported: Vec<String> = vec![];
        collect_imports(case, f, &mut imported);
        for i in &imported {
            expected.insert(i.clone());
        }
        let named = check_map(rep, case, &case_json, &format!("{out}.map"), &map, &gen_text, &expected, &tok_cache, ctr, "operation");
        check_specifier(rep, case, &case_json, &out, &gen_text, ctr);
        let Some(named) = named else { continue };
        // coverage: own definitions
        for (name, l, col, kl, kc) in defs_by_file.get(f).into_iter().flatten() {
            ctr.coverage_items.fetch_add(1, Ordering::Relaxed);
            let astral = tok_cache[f].lines.get(*l as usize).is_some_and(|ln| ln.chars().scan(0u32, |u, ch| { let at = *u; *u += ch.len_utf16() as u32; Some((at, ch)) }).any(|(at, ch)| at < *col && ch.len_utf16() == 2));
            let hit = named.iter().any(|(sf, sl, sc, sn, gtext)| sf == f && ((sl == l && sc == col) || (sl == kl && sc == kc)) && sn == name && gtext.to_lowercase().starts_with(&name.to_lowercase()));
            if !hit && astral {
                rep.report(Violation { key: "e2e.original_column_in_chars_not_utf16:operation".into(), what: format!("`{name}` at {f}:{l}:{col} follows an astral character on its line: its segment carries a character column"), case: case_json(json!({"item": name})) });
            } else if !hit {
                rep.report(Violation { key: "e2e.not_mapped:operation:own-definition".into(), what: format!("{out}.map: `{name}` defined at {f}:{l}:{col} has no named segment from its declaring identifier"), case: case_json(json!({"item": name})) });
            }
        }
        // coverage: imported fragments that the generated text declares
        for i in &imported {
            for (name, l, col, kl, kc) in defs_by_file.get(i).into_iter().flatten() {
                if !gen_text.contains(&format!("type {name} =")) && !gen_text.contains(&format!("const {name}:")) {
                    continue;
                }
                ctr.coverage_items.fetch_add(1, Ordering::Relaxed);
                if !named.iter().any(|(sf, sl, sc, sn, _)| sf == i && ((sl == l && sc == col) || (sl == kl && sc == kc)) && sn == name) {
                    rep.report(Violation { key: "e2e.not_mapped:operation:imported-fragment".into(), what: format!("{out}.map: the imported fragment `{name}` (defined at {i}:{l}:{col}) is declared in the generated file but no named segment leads to its definition"), case: case_json(json!({"item": name, "imported_from": i})) });
                }
            }
        }
    }
}

/// files `f` imports fragments from, transitively (path spellings resolved lexically)
fn collect_imports(case: &Case, f: &str, out: &mut Vec<String>) {
    let Ok(tokens) = lex(&case.files[f]) else { return };
    for t in tokens {
        if let Tok::Import(_, path, _) = t.t {
            let target = norm_join(dir_of(f), &path);
            if case.files.contains_key(&target) && target != f && !out.contains(&target) {
                out.push(target.clone());
                collect_imports(case, &target, out);
            }
        }
    }
}

/// `import type * as Schema from "<spec>"` must lead to the schema output file
fn check_specifier(rep: &Reporter, case: &Case, case_json: &dyn Fn(J) -> J, out: &str, gen_text: &str, ctr: &Ctr) {
    for line in gen_text.lines() {
        let Some(rest) = line.trim().strip_prefix("import type * as ") else { continue };
        let Some(spec) = rest.split('"').nth(1) else { continue };
        ctr.specifiers.fetch_add(1, Ordering::Relaxed);
        let bad = |key: &str, what: String| rep.report(Violation { key: format!("e2e.specifier.{key}"), what: format!("{out}: {what}"), case: case_json(json!({"specifier": spec, "schema_output": case.schema_out})) });
        if case.tags.iter().any(|t| t == "schema-module-specifier") {
            if spec != "@app/schema-types" {
                bad("configured_specifier_not_used", format!("module specifier {spec:?}, but generate.schemaModuleSpecifier is \"@app/schema-types\""));
            }
            continue;
        }
        if !(spec.starts_with("./") || spec.starts_with("../")) {
            bad("not_relative", format!("module specifier {spec:?} does not start with ./ or ../"));
            continue;
        }
        let target = norm_join(dir_of(out), spec);
        // map the JS extension back to every TypeScript spelling it can stand for
        let cands: Vec<String> = EXTS.iter().filter(|e| target.ends_with(e.2)).map(|e| format!("{}{}", target.strip_suffix(e.2).unwrap(), e.0)).collect();
        if !cands.iter().any(|c| *c == case.schema_out) {
            let ext = EXTS.iter().find(|e| case.schema_out.ends_with(e.0)).map_or("?", |e| e.0);
            bad(&format!("does_not_reach_schema_output[{ext}]"), format!("module specifier {spec:?} resolves to {target:?}, which stands for none of the spellings of the schema output {:?}", case.schema_out));
        }
    }
}

/// C20's CLI clause: the same project shapes, judged only on where `sources[]` entries and schema
/// module specifiers lead.
pub fn c20_layer(rep: &Reporter, args: &Args) -> J {
    layer(rep, args, true)
}

pub fn c06_layer(rep: &Reporter, args: &Args) -> J {
    layer(rep, args, false)
}

fn layer(rep: &Reporter, args: &Args, only_paths: bool) -> J {
    let ctr = Ctr { runs: AtomicU64::new(0), maps: AtomicU64::new(0), segments: AtomicU64::new(0), coverage_items: AtomicU64::new(0), specifiers: AtomicU64::new(0), char_vs_utf16: AtomicU64::new(0) };
    let distinct = DistinctSet::new();
    let sample: Mutex<Option<J>> = Mutex::new(None);
    let (dev, budget) = if args.quick() { (3, 40) } else { (5, 1500) };
    let stats = explore(&ExploreCfg { max_dev: dev, threads: args.threads, budget: Duration::from_secs(budget) }, |c: &mut Chooser| {
        let case = gen_case(c);
        // everything that distinguishes two runs: the files and how the CLI is started (a tag such as the working directory)
        if !distinct.insert(fnv(format!("{:?}{:?}", case.files, case.tags).as_bytes())) {
            return;
        }
        if c.deviations() == 1 {
            let mut s = sample.lock().unwrap();
            if s.is_none() {
                *s = Some(json!({"config": case.yaml, "tags": case.tags}));
            }
        }
        PATHS_ONLY.with(|p| p.set(only_paths));
        check_case(rep, &case, c, &ctr);
    });
    cli::cleanup("c06");
    json!({
        "explorer": stats_json(&stats),
        "projects_run_through_the_cli": ctr.runs.load(Ordering::Relaxed),
        "distinct_projects": distinct.len(),
        "maps_decoded": ctr.maps.load(Ordering::Relaxed),
        "segments_checked": ctr.segments.load(Ordering::Relaxed),
        "coverage_items_demanded(types, fields, operations, fragments)": ctr.coverage_items.load(Ordering::Relaxed),
        "module_specifiers_checked": ctr.specifiers.load(Ordering::Relaxed),
        "segments_with_character_instead_of_utf16_column": ctr.char_vs_utf16.load(Ordering::Relaxed),
        "sample": sample.lock().unwrap().clone().unwrap_or(J::Null),
    })
}

/// Replay of a recorded end-to-end case: the project is regenerated from its choice sequence and
/// judged again; the keys of what fails are printed.
pub fn replay(case: &J, only_paths: bool) -> i32 {
    let picks: Vec<u16> = case["picks"].as_array().map(|a| a.iter().map(|x| x.as_u64().unwrap_or(0) as u16).collect()).unwrap_or_default();
    let dev = crate::explore::Dev::from_picks(&picks);
    let mut c = Chooser::new(&dev);
    let cs = gen_case(&mut c);
    println!("--- config ---\n{}\n--- tags: {:?}", cs.yaml, cs.tags);
    let rep = Reporter::new("replay-e2e", "quick");
    let ctr = Ctr { runs: AtomicU64::new(0), maps: AtomicU64::new(0), segments: AtomicU64::new(0), coverage_items: AtomicU64::new(0), specifiers: AtomicU64::new(0), char_vs_utf16: AtomicU64::new(0) };
    PATHS_ONLY.with(|p| p.set(only_paths));
    check_case(&rep, &cs, &c, &ctr);
    cli::cleanup("c06");
    let keys = rep.violation_keys();
    println!("maps decoded: {}, segments: {}", ctr.maps.load(Ordering::Relaxed), ctr.segments.load(Ordering::Relaxed));
    for k in &keys {
        println!("FAILS {k}");
    }
    if keys.is_empty() { 0 } else { 1 }
}
