//! End-to-end layers driven through the built `nitrogql-cli` binary.
use crate::report::{Args, Reporter};
use serde_json::{Value, json};

pub fn c06_layer(_rep: &Reporter, _args: &Args) -> Value {
    json!({"status": "not built yet"})
}
