//! C15 — introspection JSON and SDL descriptions of one schema give the same results.
//!
//! The schema model is rendered twice: to SDL text (the renderer every other check uses) and to the
//! JSON result of the standard introspection query (introspect.rs, written from the spec's
//! `__Schema` family; the optional-key spellings servers differ in are enumerated as choices).
//!
//! Part 1 (verdicts): over SEM_SCHEMA every E1 document of C04's space and every labelled
//!   single-fault mutant of C03's catalogue is checked through both routes: same accept/reject.
//! Part 2 (types): E1 over C05's valid schema variations x JSON spellings x documents (a rich fixed
//!   document or a type-directed one): same verdict, and when both accept, every exported alias of
//!   the schema, resolver and operation declaration files has the same denotation (R-TS canonical
//!   form; resolver entries are compared argument by argument).
//! Part 3 (CLI): a slice of part 2 is run as two projects that differ only in the schema file
//!   format (`.graphql` vs `.json`) through the real binary: same exit status, same denotations.

use crate::c03;
use crate::c05;
use crate::cli::{self, Project};
use crate::explore::{Chooser, DistinctSet, ExploreCfg, explore, fnv};
use crate::gen_sem::{SEM_SCHEMA, gen_doc, sem_schema};
use crate::gql::*;
use crate::introspect::{IntroOpts, introspection_json};
use crate::pipeline;
use crate::render::{exec_text, ts_text};
use crate::report::{Args as RunArgs, Reporter, Violation, stats_json};
use crate::rparse::parse_exec;
use crate::rts::{Decl, T, Te, World, parse_module, show_t};
use crate::schema::Sch;
use crate::util::catch;
use crate::valid_op;
use crate::valid_ts;
use graphql_type_system::Schema;
use nitrogql_ast::base::Pos;
use nitrogql_config_file::{Config, ScalarTypeConfig};
use nitrogql_introspection::schema_from_introspection_json;
use nitrogql_semantics::type_system_to_ast;
use serde_json::{Value as J, json};
use std::borrow::Cow;
use std::collections::{BTreeMap, BTreeSet};
use std::path::PathBuf;
use std::sync::Mutex;
use std::sync::atomic::{AtomicU64, Ordering};
use std::time::Duration;

// ------------------------------------------------------------------------------------------ routes

/// what one route produced for (schema, one operation file)
#[derive(Debug, Clone, Default)]
pub struct Out {
    /// None = accepted; Some(kinds) = rejected with these diagnostic kinds (stage:kind)
    pub rejected: Option<Vec<String>>,
    pub schema_dts: String,
    pub resolvers_dts: String,
    pub op_dts: String,
    /// the `serverGraphqlOutput` module
    pub server: String,
}

fn kinds(f: &pipeline::Failure) -> Vec<String> {
    f.diags.iter().map(|d| format!("{}:{}", d.stage, d.kind)).collect()
}

fn cfg_for(emit_runtime: bool) -> Config {
    let mut cfg = pipeline::default_config();
    for s in ["Version", "Date", "Stamp"] {
        cfg.generate.r#type.scalar_types.insert(s.into(), ScalarTypeConfig::Single("string".into()));
    }
    cfg.generate.emit_schema_runtime = emit_runtime;
    cfg
}

/// SDL route: parse, merge, check, generate (what crates/cli does for `.graphql` schema files)
pub fn route_sdl(schema_files: &[String], op_text: &str, cfg: &Config, generate: bool) -> Result<Out, String> {
    let parsed = pipeline::parse_schema_files(schema_files).map_err(|f| format!("sdl schema does not parse: {:?}", kinds(&f)))?;
    let doc = pipeline::resolve_and_check_schema(parsed).map_err(|f| format!("sdl schema rejected: {:?}", kinds(&f)))?;
    let schema = pipeline::to_schema(&doc);
    let ops = vec![(PathBuf::from("/p/src/op.graphql"), op_text.to_string())];
    let loaded = match pipeline::load_operations(&ops, schema_files.len()) {
        Ok(l) => l,
        Err(f) => return Ok(Out { rejected: Some(kinds(&f)), ..Default::default() }),
    };
    if let Err(f) = pipeline::check_operations(&schema, &loaded) {
        return Ok(Out { rejected: Some(kinds(&f)), ..Default::default() });
    }
    let mut out = Out::default();
    if generate {
        out.schema_dts = pipeline::schema_dts(&doc, cfg).map_err(|e| format!("schema_dts: {e}"))?.buffer;
        out.resolvers_dts = pipeline::resolvers_dts(&doc, cfg, "./schema.js").map_err(|e| format!("resolvers_dts: {e}"))?.buffer;
        out.op_dts = pipeline::operation_dts(&schema, &loaded[0].1, cfg, "./schema.js").buffer;
        out.server = pipeline::server_graphql(&doc);
    }
    Ok(out)
}

/// JSON route: what crates/cli does for a `.json` schema file (main.rs / check.rs / generate.rs)
pub fn route_json(json_text: &str, op_text: &str, cfg: &Config, generate: bool) -> Result<Out, String> {
    let schema: Schema<Cow<str>, Pos> = schema_from_introspection_json(json_text).map_err(|e| format!("introspection json rejected: {e}"))?;
    let ops = vec![(PathBuf::from("/p/src/op.graphql"), op_text.to_string())];
    let loaded = match pipeline::load_operations(&ops, 1) {
        Ok(l) => l,
        Err(f) => return Ok(Out { rejected: Some(kinds(&f)), ..Default::default() }),
    };
    if let Err(f) = pipeline::check_operations(&schema, &loaded) {
        return Ok(Out { rejected: Some(kinds(&f)), ..Default::default() });
    }
    let mut out = Out::default();
    if generate {
        let ast = type_system_to_ast(&schema);
        out.schema_dts = pipeline::schema_dts(&ast, cfg).map_err(|e| format!("schema_dts: {e}"))?.buffer;
        out.resolvers_dts = pipeline::resolvers_dts(&ast, cfg, "./schema.js").map_err(|e| format!("resolvers_dts: {e}"))?.buffer;
        out.op_dts = pipeline::operation_dts(&schema, &loaded[0].1, cfg, "./schema.js").buffer;
        out.server = pipeline::server_graphql(&ast);
    }
    Ok(out)
}

// ------------------------------------------------------------------------------------------ comparing declaration files

fn collect_exports(w: &World, scope: usize, prefix: &mut Vec<String>, out: &mut BTreeSet<Vec<String>>) {
    for name in w.scopes[scope].exports.keys() {
        let mut p = prefix.clone();
        p.push(name.clone());
        out.insert(p);
    }
    for (ns, id) in &w.scopes[scope].namespaces {
        prefix.push(ns.clone());
        collect_exports(w, *id, prefix, out);
        prefix.pop();
    }
}

pub fn load_world(schema: &str, resolvers: &str, op: &str) -> Result<World, String> {
    let mut w = World::new();
    w.load("schema", schema, &BTreeMap::new()).map_err(|e| format!("schema: {e}"))?;
    let mut imports = BTreeMap::new();
    imports.insert("./schema.js".to_string(), "schema".to_string());
    imports.insert("./schema".to_string(), "schema".to_string());
    if !resolvers.is_empty() {
        w.load("resolvers", resolvers, &imports).map_err(|e| format!("resolvers: {e}"))?;
    }
    if !op.is_empty() {
        w.load("op", op, &imports).map_err(|e| format!("op: {e}"))?;
    }
    Ok(w)
}

/// resolver table: "Type.field" -> canonical (Parent, Args, Result) / "Type.__resolveType" -> (Obj, Result)
fn resolver_table(w: &World, text: &str) -> Result<BTreeMap<String, Vec<T>>, String> {
    let decls = parse_module(text)?;
    let mut out = BTreeMap::new();
    let Some(Decl::Type { body: Te::Obj(types), .. }) = decls.iter().find(|d| matches!(d, Decl::Type { name, .. } if name == "Resolvers")) else {
        return Err("no `Resolvers` object type".into());
    };
    let scope = w.modules["resolvers"];
    for tp in types {
        let Te::Obj(fields) = &tp.ty else {
            out.insert(tp.key.clone(), vec![w.canon(&w.eval_in(scope, &tp.ty)?, 4)?]);
            continue;
        };
        for f in fields {
            let key = format!("{}.{}{}", tp.key, f.key, if f.optional { "?" } else { "" });
            match &f.ty {
                Te::Ref(path, args) if path.len() == 1 && path[0].starts_with("__") => {
                    let mut v = vec![T::Lit(path[0].clone())];
                    for (i, a) in args.iter().enumerate() {
                        // the Context parameter is a type parameter of Resolvers
                        if *a == Te::Ref(vec!["Context".into()], vec![]) {
                            v.push(T::Opaque(format!("Context@{i}")));
                        } else {
                            v.push(w.canon(&w.eval_in(scope, a)?, 4)?);
                        }
                    }
                    out.insert(key, v);
                }
                other => {
                    out.insert(key, vec![w.canon(&w.eval_in(scope, other)?, 4)?]);
                }
            }
        }
    }
    Ok(out)
}

/// value-level exports (enum runtime objects): name -> initializer
fn value_table(text: &str) -> Result<BTreeMap<String, String>, String> {
    let mut out = BTreeMap::new();
    for d in parse_module(text)? {
        if let Decl::Const { name, init, init_tpl, exported: true, .. } = d {
            out.insert(name, format!("{}|{}", init.map(|j| j.to_string()).unwrap_or_default(), init_tpl.unwrap_or_default()));
        }
    }
    Ok(out)
}

#[derive(Debug)]
pub struct Diff {
    pub key: String,
    pub what: String,
}

fn kind_tag(sch: &Sch, name: &str) -> String {
    match sch.kind(name) {
        Some(k) => format!("{k:?}"),
        None => "other".into(),
    }
}

/// Compare what the two routes generated. `meta_listed`: the JSON lists the `__Schema` family, whose
/// aliases the SDL route has no counterpart for (the SDL text cannot contain them: reserved names).
pub fn compare_outputs(sch: &Sch, a: &Out, b: &Out) -> Result<(Vec<Diff>, u64), String> {
    let wa = load_world(&a.schema_dts, &a.resolvers_dts, &a.op_dts).map_err(|e| format!("SDL-route output is not readable: {e}"))?;
    let wb = match load_world(&b.schema_dts, &b.resolvers_dts, &b.op_dts) {
        Ok(w) => w,
        Err(e) => {
            let module = e.split(':').next().unwrap_or("").to_string();
            return Ok((vec![Diff { key: format!("json_route_malformed_ts:{module}"), what: format!("the JSON route's {module} declaration file is not well-formed while the SDL route's is: {e}") }], 0));
        }
    };
    let mut diffs = vec![];
    let mut compared = 0u64;
    // names with no counterpart by construction: the __Schema family (reserved names, only the JSON
    // lists them) and built-in scalars the schema never mentions (only the SDL route adds those)
    let listed = crate::introspect::listed_builtin_scalars(sch);
    let is_meta = |n: &str| n.starts_with("__") && crate::introspect::META_SDL.contains(&format!(" {n} {{"));
    let unlisted_builtin = |n: &str| crate::schema::BUILTIN_SCALARS.contains(&n) && !listed.contains(&n);
    for module in ["schema", "resolvers", "op"] {
        let (Some(&sa), Some(&sb)) = (wa.modules.get(module), wb.modules.get(module)) else { continue };
        let (mut ea, mut eb) = (BTreeSet::new(), BTreeSet::new());
        collect_exports(&wa, sa, &mut vec![], &mut ea);
        collect_exports(&wb, sb, &mut vec![], &mut eb);
        for p in ea.symmetric_difference(&eb) {
            if is_meta(p.last().unwrap()) || unlisted_builtin(p.last().unwrap()) {
                continue;
            }
            let side = if ea.contains(p) { "sdl" } else { "json" };
            diffs.push(Diff { key: format!("alias_only_in_{side}:{module}:{}", kind_tag(sch, p.last().unwrap())), what: format!("{module}: exported type {} exists only in the {side} route", p.join(".")) });
        }
        for p in ea.intersection(&eb) {
            let path: Vec<&str> = p.iter().map(|s| s.as_str()).collect();
            // generic aliases (the prelude's helpers, Resolvers<Context>) are compared as syntax
            if let (Ok(T::Ref(s1, n1)), Ok(T::Ref(s2, n2))) = (wa.exported(module, &path), wb.exported(module, &path))
                && let (Some((pa, ba)), Some((pb, bb))) = (wa.scopes[s1].types.get(&n1), wb.scopes[s2].types.get(&n2))
                && (!pa.is_empty() || !pb.is_empty())
            {
                compared += 1;
                let last = p.last().unwrap().as_str();
                if last == "Resolvers" {
                    // compared entry by entry below
                } else if module == "resolvers" && pa.len() == 1 && pb.len() == 1 {
                    // ResolverOutput<T extends "A" | "B" ...> = {A: A; ...}[T]: instantiate at every type name
                    let names: Vec<String> = sch.order.iter().filter(|n| sch.kind(n) != Some(TsKind::Input)).cloned().chain(listed.iter().map(|s| s.to_string())).collect();
                    for n in names {
                        let app = Te::Ref(vec![last.to_string()], vec![Te::Lit(n.clone())]);
                        let xa = wa.eval_in(sa, &app).and_then(|t| wa.canon(&t, 4));
                        let xb = wb.eval_in(sb, &app).and_then(|t| wb.canon(&t, 4));
                        compared += 1;
                        match (xa, xb) {
                            (Ok(x), Ok(y)) if x == y => {}
                            (Ok(x), Ok(y)) => diffs.push(Diff { key: format!("resolver_output_differs:{}", kind_tag(sch, &n)), what: format!("{last}<\"{n}\"> is {} through SDL but {} through JSON", clip(&show_t(&x)), clip(&show_t(&y))) }),
                            (Err(e), _) => return Err(format!("R-TS cannot evaluate {last}<\"{n}\"> of the SDL route: {e}")),
                            (_, Err(e)) => diffs.push(Diff { key: format!("resolver_output_missing:{}", kind_tag(sch, &n)), what: format!("{last}<\"{n}\"> of the JSON route: {e}") }),
                        }
                    }
                } else if pa != pb || ba != bb {
                    diffs.push(Diff { key: format!("generic_alias_differs:{module}"), what: format!("{module}: generic alias {} is declared differently by the two routes", p.join(".")) });
                }
                continue;
            }
            let ta = wa.exported(module, &path).and_then(|t| wa.canon(&t, 4));
            let tb = wb.exported(module, &path).and_then(|t| wb.canon(&t, 4));
            compared += 1;
            match (ta, tb) {
                (Ok(x), Ok(y)) => {
                    if x != y {
                        let ns = if p.len() > 1 { p[0].clone() } else { "top".into() };
                        diffs.push(Diff {
                            key: format!("alias_differs:{module}:{ns}:{}", kind_tag(sch, p.last().unwrap())),
                            what: format!("{module}: {} denotes {} through SDL but {} through introspection JSON", p.join("."), clip(&show_t(&x)), clip(&show_t(&y))),
                        });
                    }
                }
                (Err(e), _) => return Err(format!("R-TS cannot evaluate {} of the SDL route: {e}", p.join("."))),
                (_, Err(e)) => diffs.push(Diff { key: format!("json_route_unevaluable:{module}"), what: format!("{module}: {} of the JSON route cannot be evaluated: {e}", p.join(".")) }),
            }
        }
    }
    // resolver entries (function types are opaque to the canonical form: compare their arguments)
    if !a.resolvers_dts.is_empty() {
        let ra = resolver_table(&wa, &a.resolvers_dts).map_err(|e| format!("resolver table of the SDL route: {e}"))?;
        match resolver_table(&wb, &b.resolvers_dts) {
            Err(e) => diffs.push(Diff { key: "json_route_unevaluable:resolvers".into(), what: format!("resolver table of the JSON route: {e}") }),
            Ok(rb) => {
                let (ka, kb): (BTreeSet<&String>, BTreeSet<&String>) = (ra.keys().collect(), rb.keys().collect());
                for k in ka.symmetric_difference(&kb) {
                    if is_meta(k.split('.').next().unwrap_or("")) {
                        continue;
                    }
                    let side = if ka.contains(*k) { "sdl" } else { "json" };
                    diffs.push(Diff { key: format!("resolver_only_in_{side}:{}", kind_tag(sch, k.split('.').next().unwrap_or(""))), what: format!("resolver entry {k} exists only in the {side} route") });
                }
                for k in ka.intersection(&kb) {
                    compared += 1;
                    if ra[*k] != rb[*k] {
                        let which = ra[*k].iter().zip(rb[*k].iter()).position(|(x, y)| x != y).unwrap_or(0);
                        let slot = ["kind", "parent", "args", "context", "result"].get(which).copied().unwrap_or("?");
                        diffs.push(Diff {
                            key: format!("resolver_differs:{slot}"),
                            what: format!("resolver entry {k}: {slot} is {} through SDL but {} through JSON", clip(&ra[*k].get(which).map(show_t).unwrap_or_default()), clip(&rb[*k].get(which).map(show_t).unwrap_or_default())),
                        });
                    }
                }
            }
        }
    }
    // runtime values of the schema module (emitSchemaRuntime)
    let (va, vb) = (value_table(&a.schema_dts)?, value_table(&b.schema_dts).unwrap_or_default());
    for k in va.keys().chain(vb.keys()).collect::<BTreeSet<_>>() {
        if is_meta(k) {
            continue;
        }
        compared += 1;
        if va.get(k) != vb.get(k) {
            diffs.push(Diff { key: "schema_runtime_value_differs".into(), what: format!("exported value {k}: {:?} through SDL, {:?} through JSON", va.get(k), vb.get(k)) });
        }
    }
    if !a.server.is_empty() || !b.server.is_empty() {
        compared += compare_server(sch, &a.server, &b.server, &mut diffs);
    }
    Ok((diffs, compared))
}

/// The schema a server would build from the emitted `serverGraphqlOutput` module, reduced to what
/// introspection carries: type definitions with descriptions, fields, arguments (default values by
/// presence only), members, values, interfaces; the root operation types; directive definitions.
/// Directive applications are dropped (introspection does not carry them).
fn server_model(module: &str) -> Result<(BTreeMap<(TsKind, String), TsDef>, [Option<String>; 3]), String> {
    let decls = parse_module(module)?;
    let raw = decls
        .iter()
        .find_map(|d| match d {
            Decl::Const { name, init_tpl: Some(t), exported: true, .. } if name == "schema" => Some(t.clone()),
            _ => None,
        })
        .ok_or("no `export const schema = `...``")?;
    let sdl = crate::c16::eval_template(&raw)?;
    let doc = crate::rparse::parse_ts(&sdl).map_err(|e| format!("{e:?}"))?;
    let sch = Sch::from_doc(&doc)?;
    let roots = [sch.root(OpKind::Query), sch.root(OpKind::Mutation), sch.root(OpKind::Subscription)];
    let mut m = BTreeMap::new();
    let strip_iv = |v: &mut InputValueDef| {
        v.dirs.clear();
        if v.default.is_some() {
            v.default = Some(Value::Null(P::default()));
        }
    };
    for d in crate::schema::merge_extensions(&doc)? {
        let mut d = d;
        if d.kind == TsKind::Schema {
            continue;
        }
        d.dirs.clear();
        for f in d.fields.iter_mut() {
            f.dirs.clear();
            f.args.iter_mut().flatten().for_each(strip_iv);
            if f.args.as_ref().is_some_and(|a| a.is_empty()) {
                f.args = None;
            }
        }
        d.input_fields.iter_mut().for_each(strip_iv);
        d.dir_args.iter_mut().flatten().for_each(strip_iv);
        if d.dir_args.as_ref().is_some_and(|a| a.is_empty()) {
            d.dir_args = None;
        }
        d.values.iter_mut().for_each(|v| v.dirs.clear());
        m.insert((d.kind, d.name_str().to_string()), d);
    }
    Ok((m, roots))
}

fn compare_server(sch: &Sch, a: &str, b: &str, diffs: &mut Vec<Diff>) -> u64 {
    let Ok((ma, ra)) = server_model(a) else {
        return 0; // the SDL route's module being unreadable is C16's subject
    };
    let (mb, rb) = match server_model(b) {
        Ok(x) => x,
        Err(e) => {
            diffs.push(Diff { key: "server_schema:json_route_unreadable".into(), what: format!("the server schema module of the JSON route cannot be read back while the SDL route's can: {e}") });
            return 0;
        }
    };
    let mut n = 1;
    if ra != rb {
        diffs.push(Diff { key: "server_schema:root_types_differ".into(), what: format!("server schema: root operation types are {ra:?} through SDL but {rb:?} through JSON") });
    }
    let is_meta = |n: &str| n.starts_with("__") && crate::introspect::META_SDL.contains(&format!(" {n} {{"));
    for k in ma.keys().chain(mb.keys()).collect::<BTreeSet<_>>() {
        if is_meta(&k.1) || (k.0 == TsKind::Scalar && crate::schema::BUILTIN_SCALARS.contains(&k.1.as_str())) {
            continue;
        }
        n += 1;
        let kind = if k.0 == TsKind::Directive { "Directive".to_string() } else { kind_tag(sch, &k.1) };
        match (ma.get(k), mb.get(k)) {
            (Some(x), Some(y)) => {
                if x != y {
                    diffs.push(Diff { key: format!("server_schema:definition_differs:{kind}:{}", first_diff_field(x, y)), what: format!("server schema: {} {} differs at {}: {}", k.0.kw(), k.1, first_diff_field(x, y), crate::gql::first_diff_path(x, y)) });
                }
            }
            (Some(_), None) => diffs.push(Diff { key: format!("server_schema:definition_only_in_sdl:{kind}"), what: format!("server schema: {} {} is emitted only by the SDL route", k.0.kw(), k.1) }),
            (None, Some(_)) => diffs.push(Diff { key: format!("server_schema:definition_only_in_json:{kind}"), what: format!("server schema: {} {} is emitted only by the JSON route", k.0.kw(), k.1) }),
            (None, None) => {}
        }
    }
    n
}

fn first_diff_field(x: &TsDef, y: &TsDef) -> &'static str {
    if x.desc != y.desc {
        "description"
    } else if x.implements != y.implements {
        "implements"
    } else if x.fields != y.fields {
        "fields"
    } else if x.members != y.members {
        "members"
    } else if x.values != y.values {
        "values"
    } else if x.input_fields != y.input_fields {
        "input_fields"
    } else if x.dir_args != y.dir_args {
        "arguments"
    } else if x.locations != y.locations {
        "locations"
    } else if x.repeatable != y.repeatable {
        "repeatable"
    } else {
        "other"
    }
}

fn clip(s: &str) -> String {
    if s.chars().count() > 400 { format!("{}…", s.chars().take(400).collect::<String>()) } else { s.to_string() }
}

// ------------------------------------------------------------------------------------------ part 1: verdicts over SEM_SCHEMA

struct JsonSubject {
    schema: Schema<Cow<'static, str>, Pos>,
    opts: IntroOpts,
}

fn sem_json_subjects() -> Vec<JsonSubject> {
    let (_, sch) = sem_schema();
    let variants = [
        IntroOpts::default(),
        IntroOpts { omit_nulls: true, meta_types: false, repeatable_key: true, input_deprecation: false, order: 2 },
        IntroOpts { omit_nulls: false, meta_types: true, repeatable_key: true, input_deprecation: true, order: 1 },
    ];
    variants
        .iter()
        .map(|o| {
            let text: &'static str = Box::leak(serde_json::to_string(&introspection_json(&sch, *o)).unwrap().into_boxed_str());
            let schema = schema_from_introspection_json::<Pos>(text).unwrap_or_else(|e| crate::report::machinery(&format!("SEM_SCHEMA as introspection JSON is rejected: {e}")));
            JsonSubject { schema, opts: *o }
        })
        .collect()
}

fn json_check(s: &JsonSubject, text: &str) -> Result<Result<(), Vec<pipeline::Diag>>, crate::util::Panic> {
    let ops = vec![(PathBuf::from("/p/a.graphql"), text.to_string())];
    catch(|| {
        let loaded = match pipeline::load_operations(&ops, 1) {
            Ok(l) => l,
            Err(f) => return Err(f.diags),
        };
        match pipeline::check_operations(&s.schema, &loaded) {
            Ok(()) => Ok(()),
            Err(f) => Err(f.diags),
        }
    })
}

struct P1 {
    docs: AtomicU64,
    mutants: AtomicU64,
    comparisons: AtomicU64,
    accepted: AtomicU64,
    rejected: AtomicU64,
    kind_sets_differ: AtomicU64,
}

fn compare_verdict(rep: &Reporter, subjects: &[JsonSubject], text: &str, origin: &str, p1: &P1) {
    let sdl = c03::subject_check(text);
    for s in subjects {
        let js = json_check(s, text);
        p1.comparisons.fetch_add(1, Ordering::Relaxed);
        let case = || json!({"schema": "SEM_SCHEMA", "document": text, "origin": origin, "json_spelling": format!("{:?}", s.opts)});
        match (&sdl, &js) {
            (Err(_), Err(_)) => {} // both panic: C08's business
            (Err(p), Ok(_)) | (Ok(_), Err(p)) => {
                let side = if sdl.is_err() { "sdl" } else { "json" };
                rep.report(Violation { key: format!("panic_only_in_{side}@{}", p.key()), what: format!("check panics only through the {side} route at {}: {}", p.site, p.msg), case: case() });
            }
            (Ok(a), Ok(b)) => {
                match (a, b) {
                    (Ok(()), Ok(())) => {
                        p1.accepted.fetch_add(1, Ordering::Relaxed);
                    }
                    (Err(x), Err(y)) => {
                        p1.rejected.fetch_add(1, Ordering::Relaxed);
                        let kx: BTreeSet<&str> = x.iter().map(|d| d.kind.as_str()).collect();
                        let ky: BTreeSet<&str> = y.iter().map(|d| d.kind.as_str()).collect();
                        if kx != ky {
                            p1.kind_sets_differ.fetch_add(1, Ordering::Relaxed);
                        }
                    }
                    (Ok(()), Err(y)) => rep.report(Violation {
                        key: format!("verdict_differs:json_rejects:{}", y[0].kind),
                        what: format!("accepted with the SDL schema, rejected with the introspection JSON of the same schema: {} ({})", y[0].msg, y[0].kind),
                        case: case(),
                    }),
                    (Err(x), Ok(())) => rep.report(Violation {
                        key: format!("verdict_differs:sdl_rejects:{}", x[0].kind),
                        what: format!("rejected with the SDL schema ({}: {}), accepted with the introspection JSON of the same schema", x[0].kind, x[0].msg),
                        case: case(),
                    }),
                }
            }
        }
    }
}

fn part1(args: &RunArgs, rep: &Reporter) -> J {
    let (_, sch) = sem_schema();
    let subjects = sem_json_subjects();
    let p1 = P1 { docs: AtomicU64::new(0), mutants: AtomicU64::new(0), comparisons: AtomicU64::new(0), accepted: AtomicU64::new(0), rejected: AtomicU64::new(0), kind_sets_differ: AtomicU64::new(0) };
    let distinct = DistinctSet::new();
    let (dev, mut_dev, budget) = if args.quick() { (3, 1, 25) } else { (4, 2, 900) };
    let stats = explore(&ExploreCfg { max_dev: dev, threads: args.threads, budget: Duration::from_secs(budget) }, |c: &mut Chooser| {
        let doc = gen_doc(c, &sch, 2, true);
        let text = exec_text(&doc);
        if !distinct.insert(fnv(text.as_bytes())) {
            return;
        }
        p1.docs.fetch_add(1, Ordering::Relaxed);
        compare_verdict(rep, &subjects, &text, "generated", &p1);
        if c.deviations() <= mut_dev && valid_op::validate(&sch, &doc).is_empty() {
            for (rule, tag, m) in c03::mutants(&doc, &sch) {
                let mt = exec_text(&m);
                if !distinct.insert(fnv(mt.as_bytes())) {
                    continue;
                }
                p1.mutants.fetch_add(1, Ordering::Relaxed);
                compare_verdict(rep, &subjects, &mt, &format!("mutant {rule} [{tag}]"), &p1);
            }
        }
    });
    json!({
        "explorer": stats_json(&stats),
        "json_spellings": subjects.iter().map(|s| format!("{:?}", s.opts)).collect::<Vec<_>>(),
        "documents": p1.docs.load(Ordering::Relaxed),
        "single_fault_mutants": p1.mutants.load(Ordering::Relaxed),
        "verdict_comparisons": p1.comparisons.load(Ordering::Relaxed),
        "both_accept": p1.accepted.load(Ordering::Relaxed),
        "both_reject": p1.rejected.load(Ordering::Relaxed),
        "both_reject_with_different_kind_sets(informational)": p1.kind_sets_differ.load(Ordering::Relaxed),
        "distinct": distinct.len(),
        "choice_edges": stats.choice_edges,
    })
}

// ------------------------------------------------------------------------------------------ part 2 / 3: schema variations

pub const RICH_DOC: &str = r#"query Rich($id: ID!, $f: Filter, $up: Boolean) {
  node(id: $id) { __typename id ... on Named { name(upper: $up) aliases related { id } } ... on User { posts { title author { id } } } ...PostF }
  named(first: 3, filter: $f) { id name }
  search { __typename ... on User { id } ... on Post { title } }
  kind
  version
}
mutation M($f: Filter!, $ks: [Kind!] = [A]) { set(input: $f, kinds: $ks) { id name(upper: true, locale: "en") } }
fragment PostF on Post { id title author { name } }
"#;

pub struct Case {
    pub files: Vec<TsDoc>,
    pub tags: Vec<String>,
    pub opts: IntroOpts,
    pub doc_text: String,
    pub runtime: bool,
}

fn gen_case(c: &mut Chooser) -> Option<Case> {
    let mut base = c05::gen_valid(c);
    // root-type situations the two routes encode differently (explicit object in the JSON, a
    // schema definition or the default names in SDL)
    match c.choose("roots", 4) {
        0 => {}
        1 => {
            // the schema definition leaves the mutation root out although a type named Mutation exists
            for f in base.files.iter_mut() {
                for d in f.defs.iter_mut().filter(|d| d.kind == TsKind::Schema) {
                    d.roots.retain(|(k, _)| *k != OpKind::Mutation);
                }
            }
            base.tags.push("roots:mutation-type-exists-but-is-no-root".into());
        }
        2 => {
            // a type with the default name `Subscription` that the explicit schema definition does not list
            let mut o = TsDef::new(TsKind::Object, Some("Subscription"));
            o.fields = vec![FieldDef { desc: None, name: nm("tick"), args: None, ty: Ty::nn(Ty::named("Int")), dirs: vec![] }];
            base.files[0].defs.push(o);
            base.tags.push("roots:unlisted-default-named-subscription".into());
        }
        _ => {
            // ... and the same with an implicit schema, where it is the subscription root
            let mut o = TsDef::new(TsKind::Object, Some("Subscription"));
            o.fields = vec![FieldDef { desc: None, name: nm("tick"), args: None, ty: Ty::nn(Ty::named("Int")), dirs: vec![] }];
            base.files[0].defs.push(o);
            for f in base.files.iter_mut() {
                f.defs.retain(|d| d.kind != TsKind::Schema);
            }
            base.tags.push("roots:implicit-with-subscription".into());
        }
    }
    let mut whole = TsDoc::default();
    for f in &base.files {
        whole.defs.extend(f.defs.iter().cloned());
    }
    let sch = Sch::from_doc(&whole).ok()?;
    let any_repeatable = true; // BASE_TS has `@all repeatable`
    let opts = IntroOpts {
        omit_nulls: c.flag("json.omit_null_keys"),
        meta_types: !c.flag("json.no_meta_types"),
        repeatable_key: any_repeatable,
        input_deprecation: !c.flag("json.no_input_deprecation_keys"),
        order: c.choose("json.type_order", 3) as u8,
    };
    let runtime = c.flag("opt.emitSchemaRuntime");
    let doc_text = match c.choose("doc.source", 4) {
        0 => RICH_DOC.to_string(),
        1 => exec_text(&gen_doc(c, &sch, 2, false)),
        2 => "subscription S { tick }\n".to_string(),
        _ => "mutation M2($f: Filter!) { set(input: $f) { id } }\n".to_string(),
    };
    Some(Case { files: base.files, tags: base.tags, opts, doc_text, runtime })
}

struct P2 {
    cases: AtomicU64,
    compared_cases: AtomicU64,
    aliases: AtomicU64,
    both_reject: AtomicU64,
    skipped: Mutex<BTreeMap<String, u64>>,
    cli_pairs: AtomicU64,
    cli_replica_mismatch: AtomicU64,
}

fn skip(p2: &P2, why: &str) {
    *p2.skipped.lock().unwrap().entry(why.to_string()).or_insert(0) += 1;
}

fn merged(case: &Case) -> Option<(TsDoc, Sch)> {
    let mut whole = TsDoc::default();
    for f in &case.files {
        whole.defs.extend(f.defs.iter().cloned());
    }
    let sch = Sch::from_doc(&whole).ok()?;
    Some((whole, sch))
}

fn verdict_diff(a: &Out, b: &Out) -> Option<Diff> {
    match (&a.rejected, &b.rejected) {
        (None, Some(k)) => Some(Diff { key: format!("verdict_differs:json_rejects:{}", k.first().cloned().unwrap_or_default()), what: format!("accepted with the SDL schema, rejected with its introspection JSON: {k:?}") }),
        (Some(k), None) => Some(Diff { key: format!("verdict_differs:sdl_rejects:{}", k.first().cloned().unwrap_or_default()), what: format!("rejected with the SDL schema ({k:?}), accepted with its introspection JSON") }),
        _ => None,
    }
}

fn check_case(rep: &Reporter, case: &Case, c: &Chooser, p2: &P2, with_cli: bool) {
    let Some((whole, sch)) = merged(case) else {
        skip(p2, "model does not merge");
        return;
    };
    if !valid_ts::validate(&whole).is_empty() {
        skip(p2, "not valid per R-VALID-TS");
        return;
    }
    let texts: Vec<String> = case.files.iter().map(ts_text).collect();
    let json_text = serde_json::to_string_pretty(&introspection_json(&sch, case.opts)).unwrap();
    let cfg = cfg_for(case.runtime);
    let case_json = |extra: J| json!({"schema_files": texts, "introspection_json_spelling": format!("{:?}", case.opts), "document": case.doc_text, "tags": case.tags, "picks": c.picks(), "deviations": c.deviation_labels(), "detail": extra});
    let both = catch(|| (route_sdl(&texts, &case.doc_text, &cfg, true), route_json(&json_text, &case.doc_text, &cfg, true)));
    let (a, b) = match both {
        Err(p) => {
            rep.report(Violation { key: format!("panic@{}", p.key()), what: format!("panic at {}: {}", p.site, p.msg), case: case_json(json!({})) });
            return;
        }
        Ok(x) => x,
    };
    let a = match a {
        Ok(a) => a,
        Err(e) => {
            // the SDL route refusing a valid schema is C05's business
            skip(p2, &format!("sdl route: {}", e.split(':').next().unwrap_or("")));
            return;
        }
    };
    let b = match b {
        Ok(b) => b,
        Err(e) => {
            rep.report(Violation { key: format!("json_route_fails:{}", e.split(':').next().unwrap_or("")), what: format!("the SDL route handles the schema, the JSON route fails: {e}"), case: case_json(json!({"introspection_json": json_text})) });
            return;
        }
    };
    p2.cases.fetch_add(1, Ordering::Relaxed);
    if let Some(d) = verdict_diff(&a, &b) {
        rep.report(Violation { key: d.key, what: d.what, case: case_json(json!({"introspection_json": json_text})) });
    } else if a.rejected.is_some() {
        p2.both_reject.fetch_add(1, Ordering::Relaxed);
    } else {
        match compare_outputs(&sch, &a, &b) {
            Err(e) => rep.report(Violation { key: "machinery.rts".into(), what: e, case: case_json(json!({"sdl_schema_dts": a.schema_dts})) }),
            Ok((diffs, n)) => {
                p2.compared_cases.fetch_add(1, Ordering::Relaxed);
                p2.aliases.fetch_add(n, Ordering::Relaxed);
                for d in diffs {
                    rep.report(Violation { key: d.key, what: d.what, case: case_json(json!({"introspection_json": json_text})) });
                }
            }
        }
    }
    if with_cli {
        cli_pair(rep, case, &sch, &texts, &json_text, &a, &b, p2, &case_json);
    }
}

const YAML_TAIL: &str = "documents: ./src/*.graphql\nextensions:\n  nitrogql:\n    generate:\n      mode: with-loader-ts-5.0\n      resolversOutput: ./generated/resolvers.d.ts\n      serverGraphqlOutput: ./generated/graphql.ts\n      type:\n        scalarTypes:\n          Version: string\n          Date: string\n          Stamp: string\n";

#[allow(clippy::too_many_arguments)]
fn cli_pair(rep: &Reporter, case: &Case, sch: &Sch, texts: &[String], json_text: &str, a: &Out, b: &Out, p2: &P2, case_json: &dyn Fn(J) -> J) {
    let schema_out = if case.runtime { "generated/schema.ts" } else { "generated/schema.d.ts" };
    let extra = format!("      schemaOutput: ./{schema_out}\n{}", if case.runtime { "      emitSchemaRuntime: true\n" } else { "" });
    let run = |schema_glob: &str, schema_files: Vec<(String, String)>| {
        let mut p = Project::default();
        for (n, t) in schema_files {
            p.files.insert(n, t);
        }
        p.files.insert("src/op.graphql".into(), case.doc_text.clone());
        p.files.insert("graphql.config.yaml".into(), format!("schema: {schema_glob}\n{YAML_TAIL}{extra}"));
        let dir = cli::thread_dir("c15");
        cli::materialize(&dir, &p);
        let args: Vec<String> = ["--config-file", "graphql.config.yaml", "--output-format", "json", "check", "generate"].iter().map(|s| s.to_string()).collect();
        cli::run(&dir, &args, &[], Duration::from_secs(20))
    };
    let ra = run("./schema/*.graphql", texts.iter().enumerate().map(|(i, t)| (format!("schema/{i}.graphql"), t.clone())).collect());
    let rb = run("./schema/*.json", vec![("schema/schema.json".to_string(), json_text.to_string())]);
    p2.cli_pairs.fetch_add(1, Ordering::Relaxed);
    if ra.timed_out || rb.timed_out || ra.code.is_none() || rb.code.is_none() {
        rep.report(Violation { key: "cli.died_or_timed_out".into(), what: format!("CLI died or timed out: sdl {:?} json {:?}", ra.code, rb.code), case: case_json(json!({"sdl_stderr": ra.stderr, "json_stderr": rb.stderr})) });
        return;
    }
    if ra.code != rb.code {
        let side = if ra.code == Some(0) { "json_rejects" } else { "sdl_rejects" };
        rep.report(Violation {
            key: format!("cli.exit_status_differs:{side}"),
            what: format!("two projects differing only in the schema file format exit with {:?} (.graphql) and {:?} (.json)", ra.code, rb.code),
            case: case_json(json!({"sdl_stdout": ra.stdout, "json_stdout": rb.stdout, "introspection_json": json_text})),
        });
        return;
    }
    if ra.code != Some(0) {
        return;
    }
    let file = |r: &cli::CliRun, name: &str| r.after.get(name).map(|b| String::from_utf8_lossy(b).to_string()).unwrap_or_default();
    let outs = |r: &cli::CliRun| Out { rejected: None, schema_dts: file(r, schema_out), resolvers_dts: file(r, "generated/resolvers.d.ts"), op_dts: file(r, "src/op.d.graphql.ts"), server: file(r, "generated/graphql.ts") };
    let (ca, cb) = (outs(&ra), outs(&rb));
    // the in-process replica is bound to the binary: same declaration text (modulo the sourceMappingURL trailer)
    let strip = |s: &str| s.lines().filter(|l| !l.starts_with("//# sourceMappingURL")).collect::<Vec<_>>().join("\n").trim_end().to_string();
    if a.rejected.is_none() && b.rejected.is_none() && (strip(&ca.schema_dts) != a.schema_dts.trim_end() || strip(&cb.schema_dts) != b.schema_dts.trim_end()) {
        p2.cli_replica_mismatch.fetch_add(1, Ordering::Relaxed);
    }
    // resolvers import the schema by relative path; normalise the specifier for R-TS's module table
    let fix = |mut o: Out| {
        o.resolvers_dts = o.resolvers_dts.replace("\"./schema.js\"", "\"./schema.js\"");
        o.op_dts = o.op_dts.replace("\"../generated/schema.js\"", "\"./schema.js\"");
        o
    };
    match compare_outputs(sch, &fix(ca), &fix(cb)) {
        Err(e) => rep.report(Violation { key: "machinery.rts_cli".into(), what: e, case: case_json(json!({})) }),
        Ok((diffs, n)) => {
            p2.aliases.fetch_add(n, Ordering::Relaxed);
            for d in diffs {
                rep.report(Violation { key: format!("cli.{}", d.key), what: d.what, case: case_json(json!({"introspection_json": json_text})) });
            }
        }
    }
}

pub fn run(args: &RunArgs) -> i32 {
    let rep = Reporter::new("C15", &args.tier);
    crate::util::install_hook();
    let j1 = part1(args, &rep);
    let p2 = P2 { cases: AtomicU64::new(0), compared_cases: AtomicU64::new(0), aliases: AtomicU64::new(0), both_reject: AtomicU64::new(0), skipped: Mutex::new(BTreeMap::new()), cli_pairs: AtomicU64::new(0), cli_replica_mismatch: AtomicU64::new(0) };
    let distinct = DistinctSet::new();
    let sample: Mutex<Option<J>> = Mutex::new(None);
    let (dev, cli_dev, budget) = if args.quick() { (2, 1, 30) } else { (3, 2, 1500) };
    let stats = explore(&ExploreCfg { max_dev: dev, threads: args.threads, budget: Duration::from_secs(budget) }, |c: &mut Chooser| {
        let Some(case) = gen_case(c) else {
            skip(&p2, "model does not merge");
            return;
        };
        let key = format!("{:?}|{:?}|{}|{}", case.files, case.opts, case.doc_text, case.runtime);
        if !distinct.insert(fnv(key.as_bytes())) {
            return;
        }
        if c.deviations() == 1 {
            let mut s = sample.lock().unwrap();
            if s.is_none() {
                *s = Some(json!({"schema_files": case.files.iter().map(ts_text).collect::<Vec<_>>(), "document": case.doc_text, "json_spelling": format!("{:?}", case.opts)}));
            }
        }
        check_case(&rep, &case, c, &p2, c.deviations() <= cli_dev);
    });
    cli::cleanup("c15");
    let traces = j1["verdict_comparisons"].as_u64().unwrap_or(0) + p2.cases.load(Ordering::Relaxed) + p2.cli_pairs.load(Ordering::Relaxed);
    let cov = json!({
        "states": j1["distinct"].as_u64().unwrap_or(0) + distinct.len() as u64,
        "transitions": j1["choice_edges"].as_u64().unwrap_or(0) + stats.choice_edges,
        "traces_validated_against_impl": traces,
        "evaluations": traces,
        "distinct_nontrivial": j1["verdict_comparisons"].as_u64().unwrap_or(0) + p2.compared_cases.load(Ordering::Relaxed),
        "rule": "part 1: distinct operation texts over SEM_SCHEMA x 3 JSON spellings, verdict compared; part 2: distinct (schema files, JSON spelling, document, runtime option) cases, non-trivial = both routes accept and every exported alias / resolver entry / runtime value was compared; part 3: CLI pairs",
        "exhaustive": true,
        "part1_verdicts_over_SEM_SCHEMA": j1,
        "part2_explorer": stats_json(&stats),
        "part2_cases": p2.cases.load(Ordering::Relaxed),
        "part2_cases_with_types_compared": p2.compared_cases.load(Ordering::Relaxed),
        "part2_cases_both_routes_reject": p2.both_reject.load(Ordering::Relaxed),
        "aliases_resolver_entries_and_values_compared": p2.aliases.load(Ordering::Relaxed),
        "part3_cli_project_pairs": p2.cli_pairs.load(Ordering::Relaxed),
        "part3_cli_vs_inprocess_schema_text_mismatches(informational)": p2.cli_replica_mismatch.load(Ordering::Relaxed),
        "skipped": *p2.skipped.lock().unwrap(),
        "samples": [sample.lock().unwrap().clone().unwrap_or(J::Null)],
    });
    rep.finish(
        cov,
        vec![
            "the introspection JSON is produced by the harness's own renderer from the same model the SDL text is rendered from (spec §4.2 shapes; graphql-js key set)".into(),
            "directive applications other than @deprecated/@specifiedBy, and default-value literals, are not carried by introspection and are not compared; aliases of the __Schema meta types (listed only by the JSON) are ignored".into(),
            "denotations are compared as R-TS canonical forms (alias expansion depth 4); JSDoc comments and declaration order are ignored".into(),
        ],
    )
}

pub fn replay(case: &J) -> i32 {
    crate::util::install_hook();
    if case["schema"].as_str() == Some("SEM_SCHEMA") {
        let text = case["document"].as_str().unwrap_or("");
        println!("--- document ---\n{text}\n--- SDL route ---\n{:?}", c03::subject_check(text).map(|r| r.map_err(|d| d.iter().map(|x| format!("{}: {}", x.kind, x.msg)).collect::<Vec<_>>())));
        for s in sem_json_subjects() {
            println!("--- JSON route {:?} ---\n{:?}", s.opts, json_check(&s, text).map(|r| r.map_err(|d| d.iter().map(|x| format!("{}: {}", x.kind, x.msg)).collect::<Vec<_>>())));
        }
        let _ = SEM_SCHEMA;
        return 0;
    }
    let texts: Vec<String> = case["schema_files"].as_array().map(|a| a.iter().map(|x| x.as_str().unwrap_or("").to_string()).collect()).unwrap_or_default();
    let doc = case["document"].as_str().unwrap_or("");
    for (i, t) in texts.iter().enumerate() {
        println!("--- schema file {i} ---\n{t}");
    }
    println!("--- document ---\n{doc}\n--- JSON spelling: {} ---", case["introspection_json_spelling"]);
    let _ = parse_exec(doc);
    if let Some(jt) = case["detail"]["introspection_json"].as_str() {
        let cfg = cfg_for(false);
        let a = route_sdl(&texts, doc, &cfg, true);
        let b = route_json(jt, doc, &cfg, true);
        println!("SDL route: {:?}", a.as_ref().map(|o| o.rejected.clone()));
        println!("JSON route: {:?}", b.as_ref().map(|o| o.rejected.clone()));
        if let (Ok(a), Ok(b)) = (a, b)
            && a.rejected.is_none()
            && b.rejected.is_none()
        {
            let mut whole = TsDoc::default();
            for t in &texts {
                if let Ok(d) = crate::rparse::parse_ts(t) {
                    whole.defs.extend(d.defs);
                }
            }
            if let Ok(sch) = Sch::from_doc(&whole) {
                match compare_outputs(&sch, &a, &b) {
                    Ok((diffs, n)) => {
                        println!("{n} aliases compared");
                        for d in diffs {
                            println!("DIFF {} :: {}", d.key, d.what);
                        }
                    }
                    Err(e) => println!("compare: {e}"),
                }
            }
        }
    }
    0
}
