//! C15 — introspection JSON and SDL descriptions of one schema give the same results.
//!
//! The schema model is rendered twice: to SDL text (the renderer every other check uses) and to the
//! JSON result of the standard introspection query (introspect.rs, written from the spec's
//! `__Schema` family; the optional-key spellings servers differ in are enumerated as choices).
//!
//! Part 1 (verdicts): over SEM_SCHEMA every E1 document of C04's space and every labelled
//!   single-fault mutant of C03's catalogue is checked through both routes: same accept/reject.
//! Part 2 (types): E1 over C05's valid schema variations x JSON spellings x documents (a rich fixed
//!   document or a type-directed one): same verdict, and when both accept, every exported alias of
//!   the schema, resolver and operation declaration files has the same denotation (R-TS canonical
//!   form; resolver entries are compared argument by argument).
//! Part 3 (CLI): a slice of part 2 is run as two projects that differ only in the schema file
//!   format (`.graphql` vs `.json`) through the real binary: same exit status, same denotations.

use crate::c03;
use crate::c05;
use crate::cli::{self, Project};
use crate::explore::{Chooser, DistinctSet, ExploreCfg, explore, fnv};
use crate::gen_sem::{SEM_SCHEMA, gen_doc, sem_schema};
use crate::gql::*;
use crate::introspect::{IntroOpts, introspection_json};
use crate::pipeline;
use crate::render::{exec_text, ts_text};
use crate::report::{Args as RunArgs, Reporter, Violation, stats_json};
use crate::rparse::parse_exec;
use crate::schema::Sch;
use crate::util::catch;
use crate::valid_op;
use crate::valid_ts;
use graphql_type_system::Schema;
use nitrogql_ast::base::Pos;
use nitrogql_config_file::{Config, ScalarTypeConfig};
use nitrogql_introspection::schema_from_introspection_json;
use nitrogql_semantics::type_system_to_ast;
use serde_json::{Value as J, json};
use std::borrow::Cow;
use std::collections::{BTreeMap, BTreeSet};
use std::path::PathBuf;
use std::sync::Mutex;
use std::sync::atomic::{AtomicU64, Ordering};
use std::time::Duration;

// ------------------------------------------------------------------------------------------ routes

fn kinds(f: &pipeline::Failure) -> Vec<String> {
    f.diags.iter().map(|d| format!("{}:{}", d.stage, d.kind)).collect()
}

fn cfg_for(emit_runtime: bool) -> Config {
    let mut cfg = pipeline::default_config();
    for s in ["Version", "Date", "Stamp", "all", "specifiedBy"] {
        cfg.generate.r#type.scalar_types.insert(s.into(), ScalarTypeConfig::Single("string".into()));
    }
    cfg.generate.emit_schema_runtime = emit_runtime;
    pipeline::via_config_text(&cfg)
}

/// SDL route: parse, merge, check, generate (what crates/cli does for `.graphql` schema files)
pub fn route_sdl(schema_files: &[String], op_text: &str, cfg: &Config, generate: bool) -> Result<Out, String> {
    let parsed = pipeline::parse_schema_files(schema_files).map_err(|f| format!("sdl schema does not parse: {:?}", kinds(&f)))?;
    let doc = pipeline::resolve_and_check_schema(parsed).map_err(|f| format!("sdl schema rejected: {:?}", kinds(&f)))?;
    let schema = pipeline::to_schema(&doc);
    let ops = vec![(PathBuf::from("/p/src/op.graphql"), op_text.to_string())];
    let loaded = match pipeline::load_operations(&ops, schema_files.len()) {
        Ok(l) => l,
        Err(f) => return Ok(Out { rejected: Some(kinds(&f)), ..Default::default() }),
    };
    if let Err(f) = pipeline::check_operations(&schema, &loaded) {
        return Ok(Out { rejected: Some(kinds(&f)), ..Default::default() });
    }
    let mut out = Out::default();
    if generate {
        out.schema_dts = pipeline::schema_dts(&doc, cfg).map_err(|e| format!("schema_dts: {e}"))?.buffer;
        out.resolvers_dts = pipeline::resolvers_dts(&doc, cfg, "./schema.js").map_err(|e| format!("resolvers_dts: {e}"))?.buffer;
        out.op_dts = pipeline::operation_dts(&schema, &loaded[0].1, cfg, "./schema.js").buffer;
        out.server = pipeline::server_graphql(&doc);
    }
    Ok(out)
}

/// JSON route: what crates/cli does for a `.json` schema file (main.rs / check.rs / generate.rs)
pub fn route_json(json_text: &str, op_text: &str, cfg: &Config, generate: bool) -> Result<Out, String> {
    let schema: Schema<Cow<str>, Pos> = schema_from_introspection_json(json_text).map_err(|e| format!("introspection json rejected: {e}"))?;
    let ops = vec![(PathBuf::from("/p/src/op.graphql"), op_text.to_string())];
    let loaded = match pipeline::load_operations(&ops, 1) {
        Ok(l) => l,
        Err(f) => return Ok(Out { rejected: Some(kinds(&f)), ..Default::default() }),
    };
    if let Err(f) = pipeline::check_operations(&schema, &loaded) {
        return Ok(Out { rejected: Some(kinds(&f)), ..Default::default() });
    }
    let mut out = Out::default();
    if generate {
        let ast = type_system_to_ast(&schema);
        out.schema_dts = pipeline::schema_dts(&ast, cfg).map_err(|e| format!("schema_dts: {e}"))?.buffer;
        out.resolvers_dts = pipeline::resolvers_dts(&ast, cfg, "./schema.js").map_err(|e| format!("resolvers_dts: {e}"))?.buffer;
        out.op_dts = pipeline::operation_dts(&schema, &loaded[0].1, cfg, "./schema.js").buffer;
        out.server = pipeline::server_graphql(&ast);
    }
    Ok(out)
}

// ------------------------------------------------------------------------------------------ comparing declaration files

pub use crate::outcmp::{Diff, Out, compare_outputs};

// ------------------------------------------------------------------------------------------ part 1: verdicts over SEM_SCHEMA

pub struct JsonSubject {
    pub schema: Schema<Cow<'static, str>, Pos>,
    opts: IntroOpts,
}

pub fn sem_json_subjects() -> Vec<JsonSubject> {
    let (_, sch) = sem_schema();
    let variants = [
        IntroOpts::default(),
        IntroOpts { omit_nulls: true, meta_types: false, repeatable_key: true, input_deprecation: false, order: 2 },
        IntroOpts { omit_nulls: false, meta_types: true, repeatable_key: true, input_deprecation: true, order: 1 },
    ];
    variants
        .iter()
        .map(|o| {
            let text: &'static str = Box::leak(serde_json::to_string(&introspection_json(&sch, *o)).unwrap().into_boxed_str());
            let schema = schema_from_introspection_json::<Pos>(text).unwrap_or_else(|e| crate::report::machinery(&format!("SEM_SCHEMA as introspection JSON is rejected: {e}")));
            JsonSubject { schema, opts: *o }
        })
        .collect()
}

pub fn json_check(s: &JsonSubject, text: &str) -> Result<Result<(), Vec<pipeline::Diag>>, crate::util::Panic> {
    let ops = vec![(PathBuf::from("/p/a.graphql"), text.to_string())];
    catch(|| {
        let loaded = match pipeline::load_operations(&ops, 1) {
            Ok(l) => l,
            Err(f) => return Err(f.diags),
        };
        match pipeline::check_operations(&s.schema, &loaded) {
            Ok(()) => Ok(()),
            Err(f) => Err(f.diags),
        }
    })
}

struct P1 {
    docs: AtomicU64,
    mutants: AtomicU64,
    comparisons: AtomicU64,
    accepted: AtomicU64,
    rejected: AtomicU64,
    kind_sets_differ: AtomicU64,
}

fn compare_verdict(rep: &Reporter, subjects: &[JsonSubject], text: &str, origin: &str, p1: &P1) {
    let sdl = c03::subject_check(text);
    for s in subjects {
        let js = json_check(s, text);
        p1.comparisons.fetch_add(1, Ordering::Relaxed);
        let case = || json!({"schema": "SEM_SCHEMA", "document": text, "origin": origin, "json_spelling": format!("{:?}", s.opts)});
        match (&sdl, &js) {
            (Err(_), Err(_)) => {} // both panic: C08's business
            (Err(p), Ok(_)) | (Ok(_), Err(p)) => {
                let side = if sdl.is_err() { "sdl" } else { "json" };
                rep.report(Violation { key: format!("panic_only_in_{side}@{}", p.key()), what: format!("check panics only through the {side} route at {}: {}", p.site, p.msg), case: case() });
            }
            (Ok(a), Ok(b)) => {
                match (a, b) {
                    (Ok(()), Ok(())) => {
                        p1.accepted.fetch_add(1, Ordering::Relaxed);
                    }
                    (Err(x), Err(y)) => {
                        p1.rejected.fetch_add(1, Ordering::Relaxed);
                        let kx: BTreeSet<&str> = x.iter().map(|d| d.kind.as_str()).collect();
                        let ky: BTreeSet<&str> = y.iter().map(|d| d.kind.as_str()).collect();
                        if kx != ky {
                            p1.kind_sets_differ.fetch_add(1, Ordering::Relaxed);
                        }
                    }
                    (Ok(()), Err(y)) => rep.report(Violation {
                        key: format!("verdict_differs:json_rejects:{}", y[0].kind),
                        what: format!("accepted with the SDL schema, rejected with the introspection JSON of the same schema: {} ({})", y[0].msg, y[0].kind),
                        case: case(),
                    }),
                    (Err(x), Ok(())) => rep.report(Violation {
                        key: format!("verdict_differs:sdl_rejects:{}", x[0].kind),
                        what: format!("rejected with the SDL schema ({}: {}), accepted with the introspection JSON of the same schema", x[0].kind, x[0].msg),
                        case: case(),
                    }),
                }
            }
        }
    }
}

fn part1(args: &RunArgs, rep: &Reporter) -> J {
    let (_, sch) = sem_schema();
    let subjects = sem_json_subjects();
    let p1 = P1 { docs: AtomicU64::new(0), mutants: AtomicU64::new(0), comparisons: AtomicU64::new(0), accepted: AtomicU64::new(0), rejected: AtomicU64::new(0), kind_sets_differ: AtomicU64::new(0) };
    let distinct = DistinctSet::new();
    let (dev, mut_dev, budget) = if args.quick() { (3, 2, 25) } else { (4, 3, 900) };
    let stats = explore(&ExploreCfg { max_dev: dev, threads: args.threads, budget: Duration::from_secs(budget) }, |c: &mut Chooser| {
        let doc = gen_doc(c, &sch, 2, true);
        let text = exec_text(&doc);
        if !distinct.insert(fnv(text.as_bytes())) {
            return;
        }
        p1.docs.fetch_add(1, Ordering::Relaxed);
        compare_verdict(rep, &subjects, &text, "generated", &p1);
        if c.deviations() <= mut_dev && valid_op::validate(&sch, &doc).is_empty() {
            for (rule, tag, m) in c03::mutants(&doc, &sch) {
                let mt = exec_text(&m);
                if !distinct.insert(fnv(mt.as_bytes())) {
                    continue;
                }
                p1.mutants.fetch_add(1, Ordering::Relaxed);
                compare_verdict(rep, &subjects, &mt, &format!("mutant {rule} [{tag}]"), &p1);
            }
        }
    });
    json!({
        "explorer": stats_json(&stats),
        "json_spellings": subjects.iter().map(|s| format!("{:?}", s.opts)).collect::<Vec<_>>(),
        "documents": p1.docs.load(Ordering::Relaxed),
        "single_fault_mutants": p1.mutants.load(Ordering::Relaxed),
        "verdict_comparisons": p1.comparisons.load(Ordering::Relaxed),
        "both_accept": p1.accepted.load(Ordering::Relaxed),
        "both_reject": p1.rejected.load(Ordering::Relaxed),
        "both_reject_with_different_kind_sets(informational)": p1.kind_sets_differ.load(Ordering::Relaxed),
        "distinct": distinct.len(),
        "choice_edges": stats.choice_edges,
    })
}

// ------------------------------------------------------------------------------------------ part 2 / 3: schema variations

pub const RICH_DOC: &str = r#"query Rich($id: ID!, $f: Filter, $up: Boolean) {
  node(id: $id) { __typename id ... on Named { name(upper: $up) aliases related { id } } ... on User { posts { title author { id } } } ...PostF }
  named(first: 3, filter: $f) { id name }
  search { __typename ... on User { id } ... on Post { title } }
  kind
  version
}
mutation M($f: Filter!, $ks: [Kind!] = [A]) { set(input: $f, kinds: $ks) { id name(upper: true, locale: "en") } }
fragment PostF on Post { id title author { name } }
"#;

pub struct Case {
    pub files: Vec<TsDoc>,
    pub tags: Vec<String>,
    pub opts: IntroOpts,
    pub doc_text: String,
    pub runtime: bool,
    /// plugin list of the CLI project pair: 0 none, 1 model, 2 scalars, 3 model + scalars
    pub plugins: usize,
}

fn gen_case(c: &mut Chooser) -> Option<Case> {
    let mut base = c05::gen_valid(c);
    // root-type situations the two routes encode differently (explicit object in the JSON, a
    // schema definition or the default names in SDL)
    match c.choose("roots", 5) {
        0 => {}
        1 => {
            // the schema definition leaves the mutation root out although a type named Mutation exists
            for f in base.files.iter_mut() {
                for d in f.defs.iter_mut().filter(|d| d.kind == TsKind::Schema) {
                    d.roots.retain(|(k, _)| *k != OpKind::Mutation);
                }
            }
            base.tags.push("roots:mutation-type-exists-but-is-no-root".into());
        }
        2 => {
            // a type with the default name `Subscription` that the explicit schema definition does not list
            let mut o = TsDef::new(TsKind::Object, Some("Subscription"));
            o.fields = vec![FieldDef { desc: None, name: nm("tick"), args: None, ty: Ty::nn(Ty::named("Int")), dirs: vec![] }];
            base.files[0].defs.push(o);
            base.tags.push("roots:unlisted-default-named-subscription".into());
        }
        3 => {
            // query and subscription roots but no mutation root (a gap in the middle of the three)
            let mut o = TsDef::new(TsKind::Object, Some("Subscription"));
            o.fields = vec![FieldDef { desc: None, name: nm("tick"), args: None, ty: Ty::nn(Ty::named("Int")), dirs: vec![] }];
            base.files[0].defs.push(o);
            for f in base.files.iter_mut() {
                for d in f.defs.iter_mut().filter(|d| d.kind == TsKind::Schema && !d.ext) {
                    d.roots.retain(|(k, _)| *k != OpKind::Mutation);
                    d.roots.push((OpKind::Subscription, nm("Subscription")));
                }
            }
            base.tags.push("roots:query+subscription-without-mutation".into());
        }
        _ => {
            // ... and the same with an implicit schema, where it is the subscription root
            let mut o = TsDef::new(TsKind::Object, Some("Subscription"));
            o.fields = vec![FieldDef { desc: None, name: nm("tick"), args: None, ty: Ty::nn(Ty::named("Int")), dirs: vec![] }];
            base.files[0].defs.push(o);
            for f in base.files.iter_mut() {
                f.defs.retain(|d| d.kind != TsKind::Schema);
            }
            base.tags.push("roots:implicit-with-subscription".into());
        }
    }
    let mut whole = TsDoc::default();
    for f in &base.files {
        whole.defs.extend(f.defs.iter().cloned());
    }
    let sch = Sch::from_doc(&whole).ok()?;
    let any_repeatable = true; // BASE_TS has `@all repeatable`
    let opts = IntroOpts {
        omit_nulls: c.flag("json.omit_null_keys"),
        meta_types: !c.flag("json.no_meta_types"),
        repeatable_key: any_repeatable,
        input_deprecation: !c.flag("json.no_input_deprecation_keys"),
        order: c.choose("json.type_order", 3) as u8,
    };
    let runtime = c.flag("opt.emitSchemaRuntime");
    let doc_text = match c.choose("doc.source", 4) {
        0 => RICH_DOC.to_string(),
        1 => exec_text(&gen_doc(c, &sch, 2, false)),
        2 => "subscription S { tick }\n".to_string(),
        _ => "mutation M2($f: Filter!) { set(input: $f) { id } }\n".to_string(),
    };
    let plugins = c.choose("cli.plugins", 4);
    Some(Case { files: base.files, tags: base.tags, opts, doc_text, runtime, plugins })
}

struct P2 {
    cases: AtomicU64,
    compared_cases: AtomicU64,
    aliases: AtomicU64,
    both_reject: AtomicU64,
    skipped: Mutex<BTreeMap<String, u64>>,
    cli_pairs: AtomicU64,
    cli_replica_mismatch: AtomicU64,
}

fn skip(p2: &P2, why: &str) {
    *p2.skipped.lock().unwrap().entry(why.to_string()).or_insert(0) += 1;
}

fn merged(case: &Case) -> Option<(TsDoc, Sch)> {
    let mut whole = TsDoc::default();
    for f in &case.files {
        whole.defs.extend(f.defs.iter().cloned());
    }
    let sch = Sch::from_doc(&whole).ok()?;
    Some((whole, sch))
}

fn verdict_diff(a: &Out, b: &Out) -> Option<Diff> {
    match (&a.rejected, &b.rejected) {
        (None, Some(k)) => Some(Diff { key: format!("verdict_differs:json_rejects:{}", k.first().cloned().unwrap_or_default()), what: format!("accepted with the SDL schema, rejected with its introspection JSON: {k:?}") }),
        (Some(k), None) => Some(Diff { key: format!("verdict_differs:sdl_rejects:{}", k.first().cloned().unwrap_or_default()), what: format!("rejected with the SDL schema ({k:?}), accepted with its introspection JSON") }),
        _ => None,
    }
}

fn check_case(rep: &Reporter, case: &Case, c: &Chooser, p2: &P2, with_cli: bool) {
    let Some((whole, sch)) = merged(case) else {
        skip(p2, "model does not merge");
        return;
    };
    if !valid_ts::validate(&whole).is_empty() {
        skip(p2, "not valid per R-VALID-TS");
        return;
    }
    let texts: Vec<String> = case.files.iter().map(ts_text).collect();
    let json_text = serde_json::to_string_pretty(&introspection_json(&sch, case.opts)).unwrap();
    let cfg = cfg_for(case.runtime);
    let case_json = |extra: J| json!({"schema_files": texts, "introspection_json_spelling": format!("{:?}", case.opts), "document": case.doc_text, "tags": case.tags, "picks": c.picks(), "deviations": c.deviation_labels(), "detail": extra});
    let both = catch(|| (route_sdl(&texts, &case.doc_text, &cfg, true), route_json(&json_text, &case.doc_text, &cfg, true)));
    let (a, b) = match both {
        Err(p) => {
            rep.report(Violation { key: format!("panic@{}", p.key()), what: format!("panic at {}: {}", p.site, p.msg), case: case_json(json!({})) });
            return;
        }
        Ok(x) => x,
    };
    let a = match a {
        Ok(a) => a,
        Err(e) => {
            // the SDL route refusing a valid schema is C05's business
            skip(p2, &format!("sdl route: {}", e.split(':').next().unwrap_or("")));
            return;
        }
    };
    let b = match b {
        Ok(b) => b,
        Err(e) => {
            rep.report(Violation { key: format!("json_route_fails:{}", e.split(':').next().unwrap_or("")), what: format!("the SDL route handles the schema, the JSON route fails: {e}"), case: case_json(json!({"introspection_json": json_text})) });
            return;
        }
    };
    p2.cases.fetch_add(1, Ordering::Relaxed);
    if let Some(d) = verdict_diff(&a, &b) {
        rep.report(Violation { key: d.key, what: d.what, case: case_json(json!({"introspection_json": json_text})) });
    } else if a.rejected.is_some() {
        p2.both_reject.fetch_add(1, Ordering::Relaxed);
    } else {
        match compare_outputs(&sch, &a, &b) {
            Err(e) => rep.report(Violation { key: "machinery.rts".into(), what: e, case: case_json(json!({"sdl_schema_dts": a.schema_dts})) }),
            Ok((diffs, n)) => {
                p2.compared_cases.fetch_add(1, Ordering::Relaxed);
                p2.aliases.fetch_add(n, Ordering::Relaxed);
                for d in diffs {
                    rep.report(Violation { key: d.key, what: d.what, case: case_json(json!({"introspection_json": json_text})) });
                }
            }
        }
    }
    if with_cli {
        cli_pair(rep, case, &sch, &texts, &json_text, &a, &b, p2, &case_json);
    }
}

const PLUGIN_LISTS: [&str; 4] = ["", "    plugins: [\"nitrogql:model-plugin\"]\n", "    plugins: [\"nitrogql:graphql-scalars-plugin\"]\n", "    plugins: [\"nitrogql:model-plugin\", \"nitrogql:graphql-scalars-plugin\"]\n"];
const YAML_TAIL: &str = "documents: ./src/*.graphql\nextensions:\n  nitrogql:\n@PLUGINS@    generate:\n      mode: with-loader-ts-5.0\n      resolversOutput: ./generated/resolvers.d.ts\n      serverGraphqlOutput: ./generated/graphql.ts\n      type:\n        scalarTypes:\n          Version: string\n          Date: string\n          Stamp: string\n";

#[allow(clippy::too_many_arguments)]
fn cli_pair(rep: &Reporter, case: &Case, sch: &Sch, texts: &[String], json_text: &str, a: &Out, b: &Out, p2: &P2, case_json: &dyn Fn(J) -> J) {
    let schema_out = if case.runtime { "generated/schema.ts" } else { "generated/schema.d.ts" };
    let extra = format!("      schemaOutput: ./{schema_out}\n{}", if case.runtime { "      emitSchemaRuntime: true\n" } else { "" });
    let run = |schema_glob: &str, schema_files: Vec<(String, String)>| {
        let mut p = Project::default();
        for (n, t) in schema_files {
            p.files.insert(n, t);
        }
        p.files.insert("src/op.graphql".into(), case.doc_text.clone());
        p.files.insert("graphql.config.yaml".into(), format!("schema: {schema_glob}\n{}{extra}", YAML_TAIL.replace("@PLUGINS@", PLUGIN_LISTS[case.plugins])));
        let dir = cli::thread_dir("c15");
        cli::materialize(&dir, &p);
        let args: Vec<String> = ["--config-file", "graphql.config.yaml", "--output-format", "json", "check", "generate"].iter().map(|s| s.to_string()).collect();
        cli::run(&dir, &args, &[], Duration::from_secs(20))
    };
    let ra = run("./schema/*.graphql", texts.iter().enumerate().map(|(i, t)| (format!("schema/{i}.graphql"), t.clone())).collect());
    let rb = run("./schema/*.json", vec![("schema/schema.json".to_string(), json_text.to_string())]);
    p2.cli_pairs.fetch_add(1, Ordering::Relaxed);
    if ra.timed_out || rb.timed_out || ra.code.is_none() || rb.code.is_none() {
        rep.report(Violation { key: "cli.died_or_timed_out".into(), what: format!("CLI died or timed out: sdl {:?} json {:?}", ra.code, rb.code), case: case_json(json!({"sdl_stderr": ra.stderr, "json_stderr": rb.stderr})) });
        return;
    }
    if ra.code != rb.code {
        let side = if ra.code == Some(0) { "json_rejects" } else { "sdl_rejects" };
        rep.report(Violation {
            key: format!("cli.exit_status_differs:{side}"),
            what: format!("two projects differing only in the schema file format exit with {:?} (.graphql) and {:?} (.json)", ra.code, rb.code),
            case: case_json(json!({"sdl_stdout": ra.stdout, "json_stdout": rb.stdout, "introspection_json": json_text})),
        });
        return;
    }
    if ra.code != Some(0) {
        return;
    }
    let file = |r: &cli::CliRun, name: &str| r.after.get(name).map(|b| String::from_utf8_lossy(b).to_string()).unwrap_or_default();
    let outs = |r: &cli::CliRun| Out { rejected: None, schema_dts: file(r, schema_out), resolvers_dts: file(r, "generated/resolvers.d.ts"), op_dts: file(r, "src/op.d.graphql.ts"), server: file(r, "generated/graphql.ts") };
    let (ca, cb) = (outs(&ra), outs(&rb));
    // the in-process replica is bound to the binary: same declaration text (modulo the sourceMappingURL trailer)
    let strip = |s: &str| s.lines().filter(|l| !l.starts_with("//# sourceMappingURL")).collect::<Vec<_>>().join("\n").trim_end().to_string();
    if a.rejected.is_none() && b.rejected.is_none() && (strip(&ca.schema_dts) != a.schema_dts.trim_end() || strip(&cb.schema_dts) != b.schema_dts.trim_end()) {
        p2.cli_replica_mismatch.fetch_add(1, Ordering::Relaxed);
    }
    // resolvers import the schema by relative path; normalise the specifier for R-TS's module table
    let fix = |mut o: Out| {
        o.resolvers_dts = o.resolvers_dts.replace("\"./schema.js\"", "\"./schema.js\"");
        o.op_dts = o.op_dts.replace("\"../generated/schema.js\"", "\"./schema.js\"");
        o
    };
    match compare_outputs(sch, &fix(ca), &fix(cb)) {
        Err(e) => rep.report(Violation { key: "machinery.rts_cli".into(), what: e, case: case_json(json!({})) }),
        Ok((diffs, n)) => {
            p2.aliases.fetch_add(n, Ordering::Relaxed);
            for d in diffs {
                rep.report(Violation { key: format!("cli.{}", d.key), what: d.what, case: case_json(json!({"introspection_json": json_text})) });
            }
        }
    }
}

pub fn run(args: &RunArgs) -> i32 {
    let rep = Reporter::new("C15", &args.tier);
    crate::util::install_hook();
    let j1 = part1(args, &rep);
    let p2 = P2 { cases: AtomicU64::new(0), compared_cases: AtomicU64::new(0), aliases: AtomicU64::new(0), both_reject: AtomicU64::new(0), skipped: Mutex::new(BTreeMap::new()), cli_pairs: AtomicU64::new(0), cli_replica_mismatch: AtomicU64::new(0) };
    let distinct = DistinctSet::new();
    let sample: Mutex<Option<J>> = Mutex::new(None);
    let (dev, cli_dev, budget) = if args.quick() { (2, 1, 30) } else { (3, 2, 1500) };
    let stats = explore(&ExploreCfg { max_dev: dev, threads: args.threads, budget: Duration::from_secs(budget) }, |c: &mut Chooser| {
        let Some(case) = gen_case(c) else {
            skip(&p2, "model does not merge");
            return;
        };
        let key = format!("{:?}|{:?}|{}|{}|{}", case.files, case.opts, case.doc_text, case.runtime, case.plugins);
        if !distinct.insert(fnv(key.as_bytes())) {
            return;
        }
        if c.deviations() == 1 {
            let mut s = sample.lock().unwrap();
            if s.is_none() {
                *s = Some(json!({"schema_files": case.files.iter().map(ts_text).collect::<Vec<_>>(), "document": case.doc_text, "json_spelling": format!("{:?}", case.opts)}));
            }
        }
        check_case(&rep, &case, c, &p2, c.deviations() <= cli_dev);
    });
    cli::cleanup("c15");
    let traces = j1["verdict_comparisons"].as_u64().unwrap_or(0) + p2.cases.load(Ordering::Relaxed) + p2.cli_pairs.load(Ordering::Relaxed);
    let cov = json!({
        "states": j1["distinct"].as_u64().unwrap_or(0) + distinct.len() as u64,
        "transitions": j1["choice_edges"].as_u64().unwrap_or(0) + stats.choice_edges,
        "traces_validated_against_impl": traces,
        "evaluations": traces,
        "distinct_nontrivial": j1["verdict_comparisons"].as_u64().unwrap_or(0) + p2.compared_cases.load(Ordering::Relaxed),
        "rule": "part 1: distinct operation texts over SEM_SCHEMA x 3 JSON spellings, verdict compared; part 2: distinct (schema files, JSON spelling, document, runtime option) cases, non-trivial = both routes accept and every exported alias / resolver entry / runtime value was compared; part 3: CLI pairs",
        "exhaustive": true,
        "part1_verdicts_over_SEM_SCHEMA": j1,
        "part2_explorer": stats_json(&stats),
        "part2_cases": p2.cases.load(Ordering::Relaxed),
        "part2_cases_with_types_compared": p2.compared_cases.load(Ordering::Relaxed),
        "part2_cases_both_routes_reject": p2.both_reject.load(Ordering::Relaxed),
        "aliases_resolver_entries_and_values_compared": p2.aliases.load(Ordering::Relaxed),
        "part3_cli_project_pairs": p2.cli_pairs.load(Ordering::Relaxed),
        "part3_cli_vs_inprocess_schema_text_mismatches(informational)": p2.cli_replica_mismatch.load(Ordering::Relaxed),
        "skipped": *p2.skipped.lock().unwrap(),
        "samples": [sample.lock().unwrap().clone().unwrap_or(J::Null)],
    });
    rep.finish(
        cov,
        vec![
            "the introspection JSON is produced by the harness's own renderer from the same model the SDL text is rendered from (spec §4.2 shapes; graphql-js key set)".into(),
            "directive applications other than @deprecated/@specifiedBy, and default-value literals, are not carried by introspection and are not compared; aliases of the __Schema meta types (listed only by the JSON) are ignored".into(),
            "denotations are compared as R-TS canonical forms (alias expansion depth 4); JSDoc comments and declaration order are ignored".into(),
        ],
    )
}

pub fn replay(case: &J) -> i32 {
    crate::util::install_hook();
    if case["schema"].as_str() == Some("SEM_SCHEMA") {
        let text = case["document"].as_str().unwrap_or("");
        println!("--- document ---\n{text}\n--- SDL route ---\n{:?}", c03::subject_check(text).map(|r| r.map_err(|d| d.iter().map(|x| format!("{}: {}", x.kind, x.msg)).collect::<Vec<_>>())));
        for s in sem_json_subjects() {
            println!("--- JSON route {:?} ---\n{:?}", s.opts, json_check(&s, text).map(|r| r.map_err(|d| d.iter().map(|x| format!("{}: {}", x.kind, x.msg)).collect::<Vec<_>>())));
        }
        let _ = SEM_SCHEMA;
        return 0;
    }
    let texts: Vec<String> = case["schema_files"].as_array().map(|a| a.iter().map(|x| x.as_str().unwrap_or("").to_string()).collect()).unwrap_or_default();
    let doc = case["document"].as_str().unwrap_or("");
    for (i, t) in texts.iter().enumerate() {
        println!("--- schema file {i} ---\n{t}");
    }
    println!("--- document ---\n{doc}\n--- JSON spelling: {} ---", case["introspection_json_spelling"]);
    let _ = parse_exec(doc);
    if let Some(jt) = case["detail"]["introspection_json"].as_str() {
        let cfg = cfg_for(false);
        let a = route_sdl(&texts, doc, &cfg, true);
        let b = route_json(jt, doc, &cfg, true);
        println!("SDL route: {:?}", a.as_ref().map(|o| o.rejected.clone()));
        println!("JSON route: {:?}", b.as_ref().map(|o| o.rejected.clone()));
        if let (Ok(a), Ok(b)) = (a, b)
            && a.rejected.is_none()
            && b.rejected.is_none()
        {
            let mut whole = TsDoc::default();
            for t in &texts {
                if let Ok(d) = crate::rparse::parse_ts(t) {
                    whole.defs.extend(d.defs);
                }
            }
            if let Ok(sch) = Sch::from_doc(&whole) {
                match compare_outputs(&sch, &a, &b) {
                    Ok((diffs, n)) => {
                        println!("{n} aliases compared");
                        for d in diffs {
                            println!("DIFF {} :: {}", d.key, d.what);
                        }
                    }
                    Err(e) => println!("compare: {e}"),
                }
            }
        }
    }
    0
}
