//! Panic capture with location, without printing.
use std::cell::RefCell;
use std::panic::{self, AssertUnwindSafe};
use std::sync::Once;

thread_local! {
    static LAST: RefCell<Option<(String, String)>> = const { RefCell::new(None) };
}
static HOOK: Once = Once::new();

pub fn install_hook() {
    HOOK.call_once(|| {
        panic::set_hook(Box::new(|info| {
            let loc = info
                .location()
                .map(|l| format!("{}:{}", l.file(), l.line()))
                .unwrap_or_else(|| "?".into());
            let msg = if let Some(s) = info.payload().downcast_ref::<&str>() {
                s.to_string()
            } else if let Some(s) = info.payload().downcast_ref::<String>() {
                s.clone()
            } else {
                "?".into()
            };
            // a panic inside the harness itself is a machinery fault: never swallowed
            if loc.starts_with("src/") || loc.contains("/harness/src/") {
                eprintln!("MACHINERY harness panic at {loc}: {msg}");
            }
            LAST.with(|l| *l.borrow_mut() = Some((loc, msg)));
        }));
    });
}

#[derive(Debug, Clone)]
pub struct Panic {
    /// file:line with the /repo/ prefix stripped
    pub site: String,
    pub msg: String,
}

/// Run f, converting a panic into Err(site, message).
pub fn catch<T>(f: impl FnOnce() -> T) -> Result<T, Panic> {
    install_hook();
    match panic::catch_unwind(AssertUnwindSafe(f)) {
        Ok(v) => Ok(v),
        Err(_) => {
            let (loc, msg) = LAST.with(|l| l.borrow_mut().take()).unwrap_or(("?".into(), "?".into()));
            let site = loc.find("/repo/crates/").map_or(loc.as_str(), |i| &loc[i + 6..]).to_string();
            // registry paths: keep crate-relative tail
            let site = match site.find("/registry/src/") {
                Some(i) => site[i + 14..].splitn(2, '/').nth(1).unwrap_or(&site).to_string(),
                None => site,
            };
            Err(Panic { site, msg })
        }
    }
}

impl Panic {
    /// Stable identification of a panic site: file (no line number, which moves with edits) + message
    /// with digits and quoted payloads removed.
    pub fn key(&self) -> String {
        let file = self.site.rsplit_once(':').map_or(self.site.as_str(), |(f, _)| f);
        let mut msg = String::new();
        let mut in_quote = false;
        // the head of the message up to the first ':' or newline names the failing expectation;
        // what follows is payload (input-dependent)
        let head: String = self.msg.split(['\n', ':']).next().unwrap_or("").to_string();
        let head = if head.contains("called") && self.msg.contains("unwrap") { "unwrap-on-Err".to_string() } else { head };
        for c in head.chars().take(80) {
            if c == '\'' || c == '"' || c == '`' {
                in_quote = !in_quote;
                continue;
            }
            if in_quote || c.is_ascii_digit() {
                continue;
            }
            msg.push(if c.is_whitespace() { '_' } else { c });
        }
        format!("{file}:{msg}")
    }
}

/// Is this panic located in the harness itself (machinery bug) rather than in the subject?
pub fn is_harness_site(site: &str) -> bool {
    site.starts_with("src/") || site.contains("/verif/harness/")
}

/// Run `f` on a new thread (fresh thread-locals) and wait for it; a panic is passed on.
pub fn on_fresh_thread<R: Send>(f: impl FnOnce() -> R + Send) -> R {
    std::thread::scope(|s| match s.spawn(f).join() {
        Ok(r) => r,
        Err(e) => std::panic::resume_unwind(e),
    })
}
