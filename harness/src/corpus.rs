//! Hand-written valid corpus shared by several checks (C08 token edits, C18/C06 projects).

pub const SCHEMA_MAIN: &str = r#""""Root query"""
type Query {
  "a user"
  me: User!
  user(id: ID!, kind: Kind = ADMIN): User
  users(filter: UserFilter, first: Int = 10): [User!]!
  search(text: String!): [SearchResult]
  node(id: ID!): Node
  now: Date
  since(at: Date, range: [Date!]): Int
  matrix: [[Int!]]
}
type Mutation {
  rename(id: ID!, name: String!): User
  bulk(inputs: [UserFilter!]!): Int
}
type Subscription {
  tick: Int!
  userChanged(id: ID): User
}
interface Node {
  id: ID!
}
interface Named implements Node {
  id: ID!
  name: String
}
type User implements Node & Named @tag(name: "u") {
  id: ID!
  name: String
  age: Int @deprecated(reason: "no")
  kind: Kind!
  friends(first: Int): [User!]
  posts: [Post]
  born: Date
}
type Post implements Node {
  id: ID!
  title: String!
  author: User!
  tags: [String!]!
}
union SearchResult = User | Post
enum Kind {
  ADMIN
  "regular"
  MEMBER @deprecated
}
input UserFilter {
  kind: Kind
  name: String = "x"
  ids: [ID!]
  nested: UserFilter
  min: Int! = 0
  after: Date
}
scalar Date @specifiedBy(url: "https://example.com/date")
directive @tag(name: String!) repeatable on OBJECT | FIELD_DEFINITION | FIELD | QUERY | FRAGMENT_DEFINITION | FRAGMENT_SPREAD | INLINE_FRAGMENT | VARIABLE_DEFINITION | MUTATION | SUBSCRIPTION
directive @once(n: Int = 1) on FIELD | ENUM_VALUE | INPUT_FIELD_DEFINITION | ARGUMENT_DEFINITION | SCALAR | UNION | INTERFACE | ENUM | INPUT_OBJECT | SCHEMA
"#;

pub const SCHEMA_EXT: &str = r#"extend type User {
  email: String
}
extend enum Kind {
  GUEST
}
extend union SearchResult @once
extend schema @once
schema {
  query: Query
  mutation: Mutation
  subscription: Subscription
}
"#;

pub const OP_MAIN: &str = r#"#import UserBits, PostBits from "./frags.graphql"
query Me($withAge: Boolean! = true, $first: Int, $f: UserFilter = {kind: ADMIN, min: 1}) @tag(name: "q") {
  me {
    ...UserBits
    age @include(if: $withAge)
    friends(first: $first) @skip(if: false) {
      id
      n: name
    }
    posts { ...PostBits }
  }
  users(filter: $f, first: 3) { id kind }
  search(text: "x\n\"y\" é") {
    __typename
    ... on User { id name }
    ... on Post { id title author { ...UserBits } }
  }
  node(id: "1") { id ... on Named { name } ... @tag(name: "i") { __typename } }
  matrix
  now
  since(at: "2024-01-01", range: ["2024-01-02"])
  recent: users(filter: {min: 0, after: "2024-02-01"}) { id }
}
mutation Rename($id: ID!, $name: String! @tag(name: "v")) {
  rename(id: $id, name: $name) { id name }
  bulk(inputs: [{min: 1}, {min: 2, ids: ["a", "b"], nested: {min: 3}}])
}
subscription Tick {
  tick
}
"#;

pub const OP_FRAGS: &str = r#"fragment UserBits on User @tag(name: "f") {
  id
  name
  kind
}
fragment PostBits on Post {
  id
  title
  tags
  author { ...UserBits @tag(name: "s") }
}
"#;

pub const OP_SIMPLE: &str = "query Q { me { id } }\n";

pub const CONFIG_YAML: &str = r#"schema: ./schema/*.graphql
documents:
  - ./src/**/*.graphql
extensions:
  nitrogql:
    plugins: []
    generate:
      mode: with-loader-ts-5.0
      schemaOutput: ./generated/schema.d.ts
      resolversOutput: ./generated/resolvers.d.ts
      serverGraphqlOutput: ./generated/graphql.ts
      emitSchemaRuntime: false
      type:
        scalarTypes:
          Date: string
          Big: { send: bigint, receive: string }
          Sep: { resolverInput: a, resolverOutput: b, operationInput: c, operationOutput: d }
        allowUndefinedAsOptionalInput: true
      name:
        capitalizeOperationNames: true
        queryVariableSuffix: Query
        fragmentTypeSuffix: Frag
      export:
        defaultExportForOperation: true
        operationResultType: false
        variablesType: true
"#;
