//! R-MODEL — abstract GraphQL documents (executable and type-system), with optional
//! positions that never take part in equality or hashing.

use std::hash::{Hash, Hasher};

/// Position: 0-based line, 0-based column counted in Unicode scalar values.
/// `==` is always true and hashing is a no-op so that structural comparison ignores positions.
#[derive(Clone, Copy, Default)]
pub struct P {
    pub line: u32,
    pub col: u32,
    pub file: u32,
    pub known: bool,
}
impl P {
    pub fn at(line: u32, col: u32) -> P {
        P {
            line,
            col,
            file: 0,
            known: true,
        }
    }
    pub fn same(&self, o: &P) -> bool {
        self.line == o.line && self.col == o.col
    }
}
impl std::fmt::Debug for P {
    fn fmt(&self, f: &mut std::fmt::Formatter<'_>) -> std::fmt::Result {
        write!(f, "_")
    }
}
impl PartialEq for P {
    fn eq(&self, _: &P) -> bool {
        true
    }
}
impl Eq for P {}
impl Hash for P {
    fn hash<H: Hasher>(&self, _: &mut H) {}
}

#[derive(Clone, Debug, PartialEq, Eq, Hash, Default)]
pub struct Name {
    pub p: P,
    pub s: String,
}
pub fn nm(s: &str) -> Name {
    Name {
        p: P::default(),
        s: s.to_string(),
    }
}

#[derive(Clone, Debug, PartialEq, Eq, Hash)]
pub enum Value {
    Var(P, String),
    Int(P, String),
    Float(P, String),
    Str(P, String),
    Bool(P, bool),
    Null(P),
    Enum(P, String),
    List(P, Vec<Value>),
    Obj(P, Vec<(Name, Value)>),
}
impl Value {
    pub fn p(&self) -> P {
        match self {
            Value::Var(p, _)
            | Value::Int(p, _)
            | Value::Float(p, _)
            | Value::Str(p, _)
            | Value::Bool(p, _)
            | Value::Null(p)
            | Value::Enum(p, _)
            | Value::List(p, _)
            | Value::Obj(p, _) => *p,
        }
    }
}

#[derive(Clone, Debug, PartialEq, Eq, Hash)]
pub enum Ty {
    Named(Name),
    List(P, Box<Ty>),
    NonNull(Box<Ty>),
}
impl Ty {
    pub fn named(s: &str) -> Ty {
        Ty::Named(nm(s))
    }
    pub fn list(t: Ty) -> Ty {
        Ty::List(P::default(), Box::new(t))
    }
    pub fn nn(t: Ty) -> Ty {
        Ty::NonNull(Box::new(t))
    }
    pub fn base(&self) -> &str {
        match self {
            Ty::Named(n) => &n.s,
            Ty::List(_, t) | Ty::NonNull(t) => t.base(),
        }
    }
    pub fn is_nonnull(&self) -> bool {
        matches!(self, Ty::NonNull(_))
    }
    pub fn nullable(&self) -> &Ty {
        match self {
            Ty::NonNull(t) => t,
            t => t,
        }
    }
    pub fn show(&self) -> String {
        match self {
            Ty::Named(n) => n.s.clone(),
            Ty::List(_, t) => format!("[{}]", t.show()),
            Ty::NonNull(t) => format!("{}!", t.show()),
        }
    }
}

#[derive(Clone, Debug, PartialEq, Eq, Hash)]
pub struct Args {
    pub p: P,
    pub items: Vec<(Name, Value)>,
}

#[derive(Clone, Debug, PartialEq, Eq, Hash)]
pub struct Dir {
    pub p: P,
    pub name: Name,
    pub args: Option<Args>,
}
pub fn dir(name: &str, args: Vec<(&str, Value)>) -> Dir {
    Dir {
        p: P::default(),
        name: nm(name),
        args: if args.is_empty() {
            None
        } else {
            Some(Args {
                p: P::default(),
                items: args.into_iter().map(|(k, v)| (nm(k), v)).collect(),
            })
        },
    }
}

#[derive(Clone, Debug, PartialEq, Eq, Hash)]
pub struct SelSet {
    pub p: P,
    pub items: Vec<Sel>,
}
pub fn selset(items: Vec<Sel>) -> SelSet {
    SelSet {
        p: P::default(),
        items,
    }
}

#[derive(Clone, Debug, PartialEq, Eq, Hash)]
pub enum Sel {
    Field {
        alias: Option<Name>,
        name: Name,
        args: Option<Args>,
        dirs: Vec<Dir>,
        sel: Option<SelSet>,
    },
    Spread {
        p: P,
        name: Name,
        dirs: Vec<Dir>,
    },
    Inline {
        p: P,
        cond: Option<Name>,
        dirs: Vec<Dir>,
        sel: SelSet,
    },
}

#[derive(Clone, Copy, Debug, PartialEq, Eq, Hash, PartialOrd, Ord)]
pub enum OpKind {
    Query,
    Mutation,
    Subscription,
}
impl OpKind {
    pub fn kw(&self) -> &'static str {
        match self {
            OpKind::Query => "query",
            OpKind::Mutation => "mutation",
            OpKind::Subscription => "subscription",
        }
    }
}

#[derive(Clone, Debug, PartialEq, Eq, Hash)]
pub struct VarDef {
    pub p: P,
    /// name.p is the position of '$'; name.s excludes '$'
    pub name: Name,
    pub ty: Ty,
    pub default: Option<Value>,
    pub dirs: Vec<Dir>,
}

#[derive(Clone, Debug, PartialEq, Eq, Hash)]
pub enum ExecDef {
    Op {
        p: P,
        kind: OpKind,
        name: Option<Name>,
        vars: Option<(P, Vec<VarDef>)>,
        dirs: Vec<Dir>,
        sel: SelSet,
    },
    Frag {
        p: P,
        name: Name,
        cond: Name,
        dirs: Vec<Dir>,
        sel: SelSet,
    },
    Import {
        p: P,
        /// None = `*`
        targets: Vec<Option<Name>>,
        path: (P, String),
    },
}

#[derive(Clone, Debug, PartialEq, Eq, Hash, Default)]
pub struct ExecDoc {
    pub defs: Vec<ExecDef>,
}

// ---------- type system ----------

#[derive(Clone, Debug, PartialEq, Eq, Hash)]
pub struct InputValueDef {
    pub desc: Option<(P, String)>,
    /// the definition's own position (its name, or its description when it has one)
    pub p: P,
    pub name: Name,
    pub ty: Ty,
    pub default: Option<Value>,
    pub dirs: Vec<Dir>,
}
#[derive(Clone, Debug, PartialEq, Eq, Hash)]
pub struct FieldDef {
    pub desc: Option<(P, String)>,
    pub name: Name,
    pub args: Option<Vec<InputValueDef>>,
    pub ty: Ty,
    pub dirs: Vec<Dir>,
}
#[derive(Clone, Debug, PartialEq, Eq, Hash)]
pub struct EnumValDef {
    pub desc: Option<(P, String)>,
    pub name: Name,
    pub dirs: Vec<Dir>,
}

#[derive(Clone, Copy, Debug, PartialEq, Eq, Hash, PartialOrd, Ord)]
pub enum TsKind {
    Schema,
    Scalar,
    Object,
    Interface,
    Union,
    Enum,
    Input,
    Directive,
}
impl TsKind {
    pub fn kw(&self) -> &'static str {
        match self {
            TsKind::Schema => "schema",
            TsKind::Scalar => "scalar",
            TsKind::Object => "type",
            TsKind::Interface => "interface",
            TsKind::Union => "union",
            TsKind::Enum => "enum",
            TsKind::Input => "input",
            TsKind::Directive => "directive",
        }
    }
}

/// One type-system definition or extension, all kinds in one flat record.
#[derive(Clone, Debug, PartialEq, Eq, Hash)]
pub struct TsDef {
    pub ext: bool,
    pub kind: TsKind,
    pub desc: Option<(P, String)>,
    /// position of the first token of the item (description, `extend`, or the keyword)
    pub p_first: P,
    /// position of the kind keyword
    pub p_kw: P,
    pub name: Option<Name>,
    pub implements: Vec<Name>,
    pub dirs: Vec<Dir>,
    pub fields: Vec<FieldDef>,
    pub members: Vec<Name>,
    pub values: Vec<EnumValDef>,
    pub input_fields: Vec<InputValueDef>,
    pub roots: Vec<(OpKind, Name)>,
    pub dir_args: Option<Vec<InputValueDef>>,
    pub repeatable: bool,
    pub locations: Vec<Name>,
}
impl TsDef {
    pub fn new(kind: TsKind, name: Option<&str>) -> TsDef {
        TsDef {
            ext: false,
            kind,
            desc: None,
            p_first: P::default(),
            p_kw: P::default(),
            name: name.map(nm),
            implements: vec![],
            dirs: vec![],
            fields: vec![],
            members: vec![],
            values: vec![],
            input_fields: vec![],
            roots: vec![],
            dir_args: None,
            repeatable: false,
            locations: vec![],
        }
    }
    pub fn name_str(&self) -> &str {
        self.name.as_ref().map_or("", |n| n.s.as_str())
    }
}

#[derive(Clone, Debug, PartialEq, Eq, Hash, Default)]
pub struct TsDoc {
    pub defs: Vec<TsDef>,
}

// ---------- position flattening ----------

/// (what, position, alternative acceptable position)
pub type PosList = Vec<(&'static str, P, Option<P>)>;

pub fn flat_value(v: &Value, out: &mut PosList) {
    out.push(("value", v.p(), None));
    match v {
        Value::List(_, xs) => xs.iter().for_each(|x| flat_value(x, out)),
        Value::Obj(_, fs) => {
            for (k, x) in fs {
                out.push(("objfield.name", k.p, None));
                flat_value(x, out);
            }
        }
        _ => {}
    }
}
pub fn flat_ty(t: &Ty, out: &mut PosList) {
    match t {
        Ty::Named(n) => out.push(("type.name", n.p, None)),
        Ty::List(p, t) => {
            out.push(("type.list", *p, None));
            flat_ty(t, out)
        }
        Ty::NonNull(t) => flat_ty(t, out),
    }
}
pub fn flat_args(a: &Option<Args>, out: &mut PosList) {
    if let Some(a) = a {
        out.push(("args", a.p, None));
        for (k, v) in &a.items {
            out.push(("arg.name", k.p, None));
            flat_value(v, out);
        }
    }
}
pub fn flat_dirs(ds: &[Dir], out: &mut PosList) {
    for d in ds {
        out.push(("directive", d.p, None));
        out.push(("directive.name", d.name.p, None));
        flat_args(&d.args, out);
    }
}
pub fn flat_selset(s: &SelSet, out: &mut PosList) {
    out.push(("selset", s.p, None));
    for it in &s.items {
        match it {
            Sel::Field {
                alias,
                name,
                args,
                dirs,
                sel,
            } => {
                if let Some(a) = alias {
                    out.push(("field.alias", a.p, None));
                }
                out.push(("field.name", name.p, None));
                flat_args(args, out);
                flat_dirs(dirs, out);
                if let Some(s) = sel {
                    flat_selset(s, out);
                }
            }
            Sel::Spread { p, name, dirs } => {
                out.push(("spread", *p, None));
                out.push(("spread.name", name.p, None));
                flat_dirs(dirs, out);
            }
            Sel::Inline { p, cond, dirs, sel } => {
                out.push(("inline", *p, None));
                if let Some(c) = cond {
                    out.push(("inline.cond", c.p, None));
                }
                flat_dirs(dirs, out);
                flat_selset(sel, out);
            }
        }
    }
}
pub fn flat_exec(d: &ExecDoc) -> PosList {
    let mut out = vec![];
    for def in &d.defs {
        match def {
            ExecDef::Op {
                p,
                name,
                vars,
                dirs,
                sel,
                ..
            } => {
                out.push(("operation", *p, None));
                if let Some(n) = name {
                    out.push(("operation.name", n.p, None));
                }
                if let Some((vp, vs)) = vars {
                    out.push(("vardefs", *vp, None));
                    for v in vs {
                        out.push(("vardef", v.p, None));
                        out.push(("vardef.var", v.name.p, None));
                        flat_ty(&v.ty, &mut out);
                        if let Some(d) = &v.default {
                            flat_value(d, &mut out);
                        }
                        flat_dirs(&v.dirs, &mut out);
                    }
                }
                flat_dirs(dirs, &mut out);
                flat_selset(sel, &mut out);
            }
            ExecDef::Frag {
                p,
                name,
                cond,
                dirs,
                sel,
            } => {
                out.push(("fragment", *p, None));
                out.push(("fragment.name", name.p, None));
                out.push(("fragment.cond", cond.p, None));
                flat_dirs(dirs, &mut out);
                flat_selset(sel, &mut out);
            }
            ExecDef::Import { p, targets, path } => {
                out.push(("import", *p, None));
                for t in targets.iter().flatten() {
                    out.push(("import.target", t.p, None));
                }
                out.push(("import.path", path.0, None));
            }
        }
    }
    out
}

fn flat_ivd(v: &InputValueDef, out: &mut PosList) {
    if let Some((p, _)) = &v.desc {
        out.push(("desc", *p, None));
    }
    out.push(("inputvalue", v.p, v.desc.as_ref().map(|d| d.0)));
    out.push(("inputvalue.name", v.name.p, None));
    flat_ty(&v.ty, out);
    if let Some(d) = &v.default {
        flat_value(d, out);
    }
    flat_dirs(&v.dirs, out);
}

pub fn flat_ts(d: &TsDoc) -> PosList {
    let mut out = vec![];
    for def in &d.defs {
        if let Some((p, _)) = &def.desc {
            out.push(("desc", *p, None));
        }
        // the item's own position: first token or kind keyword are both acceptable
        out.push(("definition", def.p_kw, Some(def.p_first)));
        if let Some(n) = &def.name {
            out.push(("definition.name", n.p, None));
        }
        for i in &def.implements {
            out.push(("implements", i.p, None));
        }
        flat_dirs(&def.dirs, &mut out);
        for f in &def.fields {
            if let Some((p, _)) = &f.desc {
                out.push(("desc", *p, None));
            }
            out.push(("fielddef.name", f.name.p, None));
            if let Some(a) = &f.args {
                a.iter().for_each(|v| flat_ivd(v, &mut out));
            }
            flat_ty(&f.ty, &mut out);
            flat_dirs(&f.dirs, &mut out);
        }
        for m in &def.members {
            out.push(("member", m.p, None));
        }
        for v in &def.values {
            if let Some((p, _)) = &v.desc {
                out.push(("desc", *p, None));
            }
            out.push(("enumvalue", v.name.p, None));
            flat_dirs(&v.dirs, &mut out);
        }
        def.input_fields.iter().for_each(|v| flat_ivd(v, &mut out));
        for (_, n) in &def.roots {
            out.push(("root.type", n.p, None));
        }
        if let Some(a) = &def.dir_args {
            a.iter().for_each(|v| flat_ivd(v, &mut out));
        }
        for l in &def.locations {
            out.push(("location", l.p, None));
        }
    }
    out
}

/// Path of node kinds leading to the first difference between two Debug-printable trees.
pub fn first_diff_path<T: std::fmt::Debug>(a: &T, b: &T) -> String {
    let sa = format!("{a:#?}");
    let sb = format!("{b:#?}");
    let la: Vec<&str> = sa.lines().collect();
    let lb: Vec<&str> = sb.lines().collect();
    let mut i = 0;
    while i < la.len() && i < lb.len() && la[i] == lb[i] {
        i += 1;
    }
    if i >= la.len() && i >= lb.len() {
        return "equal".into();
    }
    let lines = if i < la.len() { &la } else { &lb };
    let i = i.min(lines.len() - 1);
    let indent = |l: &str| l.len() - l.trim_start().len();
    let ident = |l: &str| -> String {
        l.trim()
            .chars()
            .take_while(|c| c.is_ascii_alphanumeric() || *c == '_')
            .collect()
    };
    let mut path = vec![];
    let mut cur = indent(lines[i]);
    let leaf = ident(lines[i]);
    let mut j = i;
    while j > 0 {
        j -= 1;
        let ind = indent(lines[j]);
        if ind < cur {
            let id = ident(lines[j]);
            if !id.is_empty() {
                path.push(id);
            }
            cur = ind;
        }
    }
    path.reverse();
    if !leaf.is_empty() {
        path.push(leaf);
    }
    path.join("/")
}

// ---------- string collection (for cause analysis of string differences) ----------

fn strs_value<'a>(v: &'a Value, out: &mut Vec<&'a String>) {
    match v {
        Value::Str(_, s) => out.push(s),
        Value::List(_, xs) => xs.iter().for_each(|x| strs_value(x, out)),
        Value::Obj(_, fs) => fs.iter().for_each(|(_, x)| strs_value(x, out)),
        _ => {}
    }
}
fn strs_dirs<'a>(ds: &'a [Dir], out: &mut Vec<&'a String>) {
    for d in ds {
        if let Some(a) = &d.args {
            a.items.iter().for_each(|(_, v)| strs_value(v, out));
        }
    }
}
fn strs_sel<'a>(s: &'a SelSet, out: &mut Vec<&'a String>) {
    for it in &s.items {
        match it {
            Sel::Field { args, dirs, sel, .. } => {
                if let Some(a) = args {
                    a.items.iter().for_each(|(_, v)| strs_value(v, out));
                }
                strs_dirs(dirs, out);
                if let Some(s) = sel {
                    strs_sel(s, out);
                }
            }
            Sel::Spread { dirs, .. } => strs_dirs(dirs, out),
            Sel::Inline { dirs, sel, .. } => {
                strs_dirs(dirs, out);
                strs_sel(sel, out);
            }
        }
    }
}
pub fn strings_exec(d: &ExecDoc) -> Vec<&String> {
    let mut out = vec![];
    for def in &d.defs {
        match def {
            ExecDef::Op { vars, dirs, sel, .. } => {
                if let Some((_, vs)) = vars {
                    for v in vs {
                        if let Some(d) = &v.default {
                            strs_value(d, &mut out);
                        }
                        strs_dirs(&v.dirs, &mut out);
                    }
                }
                strs_dirs(dirs, &mut out);
                strs_sel(sel, &mut out);
            }
            ExecDef::Frag { dirs, sel, .. } => {
                strs_dirs(dirs, &mut out);
                strs_sel(sel, &mut out);
            }
            ExecDef::Import { path, .. } => out.push(&path.1),
        }
    }
    out
}
fn strs_ivd<'a>(v: &'a InputValueDef, out: &mut Vec<&'a String>) {
    if let Some((_, s)) = &v.desc {
        out.push(s);
    }
    if let Some(d) = &v.default {
        strs_value(d, out);
    }
    strs_dirs(&v.dirs, out);
}
pub fn strings_ts(d: &TsDoc) -> Vec<&String> {
    let mut out = vec![];
    for def in &d.defs {
        if let Some((_, s)) = &def.desc {
            out.push(s);
        }
        strs_dirs(&def.dirs, &mut out);
        for f in &def.fields {
            if let Some((_, s)) = &f.desc {
                out.push(s);
            }
            if let Some(a) = &f.args {
                a.iter().for_each(|v| strs_ivd(v, &mut out));
            }
            strs_dirs(&f.dirs, &mut out);
        }
        for v in &def.values {
            if let Some((_, s)) = &v.desc {
                out.push(s);
            }
            strs_dirs(&v.dirs, &mut out);
        }
        def.input_fields.iter().for_each(|v| strs_ivd(v, &mut out));
        if let Some(a) = &def.dir_args {
            a.iter().for_each(|v| strs_ivd(v, &mut out));
        }
    }
    out
}
