//! E1 — choice-tree explorer with deviation bounding.
//!
//! A generator is ordinary code that asks a `Chooser` for every decision;
//! alternative 0 is the default. The explorer runs the generator with a prefix of
//! forced picks and 0 afterwards, then — level by level — re-runs it with exactly one
//! more non-default pick at every later choice point. Level k therefore contains
//! exactly the inputs that are reachable with k deviations; every deviation *set* is
//! visited once (deviations are ordered by position). Levels are completed one
//! after another so that a wall-clock cap can only cut *between* or *inside* a
//! level, and the evidence says which.

use std::collections::BTreeMap;
use std::sync::Mutex;
use std::sync::atomic::{AtomicBool, AtomicU64, AtomicUsize, Ordering};
use std::time::{Duration, Instant};

#[derive(Clone, Copy, Debug)]
pub struct Choice {
    pub label: &'static str,
    pub arity: u16,
    pub pick: u16,
}

/// Sparse deviation set: (choice-point index, alternative), sorted by index. Copy, no heap.
pub const MAX_DEV: usize = 8;
#[derive(Clone, Copy, Debug, Default, PartialEq, Eq, PartialOrd, Ord)]
pub struct Dev {
    pub n: u8,
    pub items: [(u32, u16); MAX_DEV],
}
impl Dev {
    pub fn last_pos(&self) -> Option<u32> {
        if self.n == 0 { None } else { Some(self.items[self.n as usize - 1].0) }
    }
    pub fn with(&self, pos: u32, alt: u16) -> Dev {
        let mut d = *self;
        d.items[d.n as usize] = (pos, alt);
        d.n += 1;
        d
    }
    pub fn from_picks(picks: &[u16]) -> Dev {
        let mut d = Dev::default();
        for (i, p) in picks.iter().enumerate() {
            if *p != 0 {
                d = d.with(i as u32, *p);
            }
        }
        d
    }
}

pub struct Chooser<'a> {
    dev: &'a Dev,
    next: usize,
    pub trace: Vec<Choice>,
}

impl<'a> Chooser<'a> {
    pub fn new(dev: &'a Dev) -> Self {
        Chooser {
            dev,
            next: 0,
            trace: Vec::with_capacity(64),
        }
    }
    /// Pick one of `n` alternatives; 0 is the default.
    pub fn choose(&mut self, label: &'static str, n: usize) -> usize {
        assert!(n >= 1 && n < u16::MAX as usize, "bad arity at {label}");
        let pos = self.trace.len();
        let pick = if self.next < self.dev.n as usize && self.dev.items[self.next].0 as usize == pos {
            let p = self.dev.items[self.next].1;
            self.next += 1;
            if (p as usize) >= n {
                // A replayed prefix must meet the same choice points: hard machinery error.
                eprintln!(
                    "MACHINERY divergent replay at choice {pos} label={label} arity={n} forced={p}"
                );
                std::process::exit(2);
            }
            p
        } else {
            0
        };
        self.trace.push(Choice {
            label,
            arity: n as u16,
            pick,
        });
        pick as usize
    }
    pub fn flag(&mut self, label: &'static str) -> bool {
        self.choose(label, 2) == 1
    }
    /// Pick from a slice (element 0 is the default).
    pub fn pick<'b, T>(&mut self, label: &'static str, xs: &'b [T]) -> &'b T {
        &xs[self.choose(label, xs.len())]
    }
    pub fn deviations(&self) -> usize {
        self.trace.iter().filter(|c| c.pick != 0).count()
    }
    pub fn picks(&self) -> Vec<u16> {
        self.trace.iter().map(|c| c.pick).collect()
    }
    /// Labels of the non-default picks ("label=alt").
    pub fn deviation_labels(&self) -> Vec<String> {
        self.trace
            .iter()
            .filter(|c| c.pick != 0)
            .map(|c| format!("{}={}", c.label, c.pick))
            .collect()
    }
}

#[derive(Clone, Debug)]
pub struct ExploreCfg {
    pub max_dev: usize,
    pub threads: usize,
    /// Stop starting new work after this much wall-clock time (reported as a cap).
    pub budget: Duration,
}

#[derive(Debug, Default, Clone)]
pub struct ExploreStats {
    pub evaluations: u64,
    /// number of inputs evaluated per deviation level
    pub per_level: Vec<u64>,
    /// highest level that was enumerated completely
    pub completed_level: Option<usize>,
    pub cap_hit: bool,
    /// (label, alternative) -> number of evaluated inputs that took it
    pub label_coverage: BTreeMap<(String, u16), u64>,
    /// labels for which some alternative was never taken in any evaluated input
    pub uncovered: Vec<String>,
    pub choice_edges: u64,
}

/// Run `f` on every input reachable with at most `cfg.max_dev` deviations.
/// `f` receives the chooser and must do generation + checking itself.
pub fn explore<F>(cfg: &ExploreCfg, f: F) -> ExploreStats
where
    F: Fn(&mut Chooser) + Sync,
{
    assert!(cfg.max_dev <= MAX_DEV, "deviation bound exceeds MAX_DEV");
    // experiments only (sizing the tiers): NQV_BUDGET_S overrides the time cap
    let over = std::env::var("NQV_BUDGET_S").ok().and_then(|s| s.parse::<u64>().ok()).map(Duration::from_secs);
    let cfg = &ExploreCfg { max_dev: cfg.max_dev, threads: cfg.threads, budget: over.unwrap_or(cfg.budget) };
    let start = Instant::now();
    let mut stats = ExploreStats::default();
    let mut level: Vec<Dev> = vec![Dev::default()];
    let coverage: Mutex<BTreeMap<(&'static str, u16), u64>> = Mutex::new(BTreeMap::new());
    let arities: Mutex<BTreeMap<&'static str, u16>> = Mutex::new(BTreeMap::new());
    let edges = AtomicU64::new(0);
    for d in 0..=cfg.max_dev {
        if level.is_empty() {
            stats.per_level.push(0);
            stats.completed_level = Some(d);
            continue;
        }
        let next_idx = AtomicUsize::new(0);
        let capped = AtomicBool::new(false);
        let done = AtomicU64::new(0);
        let want_children = d < cfg.max_dev;
        let children: Mutex<Vec<Dev>> = Mutex::new(Vec::new());
        let threads = cfg.threads.max(1).min(level.len().max(1));
        std::thread::scope(|s| {
            for _ in 0..threads {
                s.spawn(|| {
                    let mut local_children: Vec<Dev> = Vec::new();
                    let mut local_cov: BTreeMap<(&'static str, u16), u64> = BTreeMap::new();
                    let mut local_ar: BTreeMap<&'static str, u16> = BTreeMap::new();
                    let mut local_edges = 0u64;
                    loop {
                        let i = next_idx.fetch_add(1, Ordering::Relaxed);
                        if i >= level.len() {
                            break;
                        }
                        if (i & 63) == 0 && start.elapsed() > cfg.budget {
                            capped.store(true, Ordering::Relaxed);
                        }
                        if capped.load(Ordering::Relaxed) {
                            break;
                        }
                        let prefix = &level[i];
                        let mut c = Chooser::new(prefix);
                        f(&mut c);
                        done.fetch_add(1, Ordering::Relaxed);
                        if c.next < prefix.n as usize {
                            eprintln!(
                                "MACHINERY divergent replay: generator consumed {} choices, forced deviation at {:?} not reached",
                                c.trace.len(),
                                prefix.items[c.next]
                            );
                            std::process::exit(2);
                        }
                        local_edges += c.trace.len() as u64;
                        for ch in &c.trace {
                            *local_cov.entry((ch.label, ch.pick)).or_insert(0) += 1;
                            let e = local_ar.entry(ch.label).or_insert(0);
                            if ch.arity > *e {
                                *e = ch.arity;
                            }
                        }
                        if want_children {
                            let from = prefix.last_pos().map_or(0, |p| p as usize + 1);
                            for j in from..c.trace.len() {
                                let ar = c.trace[j].arity;
                                for alt in 1..ar {
                                    local_children.push(prefix.with(j as u32, alt));
                                }
                            }
                        }
                    }
                    children.lock().unwrap().append(&mut local_children);
                    let mut g = coverage.lock().unwrap();
                    for (k, v) in local_cov {
                        *g.entry(k).or_insert(0) += v;
                    }
                    let mut a = arities.lock().unwrap();
                    for (k, v) in local_ar {
                        let e = a.entry(k).or_insert(0);
                        if v > *e {
                            *e = v;
                        }
                    }
                    edges.fetch_add(local_edges, Ordering::Relaxed);
                });
            }
        });
        let n = done.load(Ordering::Relaxed);
        stats.per_level.push(n);
        stats.evaluations += n;
        if capped.load(Ordering::Relaxed) {
            stats.cap_hit = true;
            break;
        }
        stats.completed_level = Some(d);
        let mut ch = children.into_inner().unwrap();
        // deterministic order irrespective of thread scheduling
        ch.sort_unstable();
        level = ch;
    }
    let cov = coverage.into_inner().unwrap();
    let ar = arities.into_inner().unwrap();
    for (label, arity) in &ar {
        for alt in 0..*arity {
            if !cov.contains_key(&(*label, alt)) {
                stats.uncovered.push(format!("{label}={alt}"));
            }
        }
    }
    stats.label_coverage = cov
        .into_iter()
        .map(|((l, a), n)| ((l.to_string(), a), n))
        .collect();
    stats.choice_edges = edges.load(Ordering::Relaxed);
    stats
}

/// Sharded set of 64-bit hashes for counting distinct canonical inputs/states.
pub struct DistinctSet {
    shards: Vec<Mutex<std::collections::HashSet<u64>>>,
}

impl Default for DistinctSet {
    fn default() -> Self {
        Self::new()
    }
}

impl DistinctSet {
    pub fn new() -> Self {
        DistinctSet {
            shards: (0..64).map(|_| Mutex::new(Default::default())).collect(),
        }
    }
    /// returns true if newly inserted
    pub fn insert(&self, h: u64) -> bool {
        self.shards[(h % 64) as usize].lock().unwrap().insert(h)
    }
    pub fn len(&self) -> usize {
        self.shards.iter().map(|s| s.lock().unwrap().len()).sum()
    }
    pub fn is_empty(&self) -> bool {
        self.len() == 0
    }
}

/// FNV-1a, stable across processes (std's DefaultHasher is fine too but this is explicit).
pub fn fnv(bytes: &[u8]) -> u64 {
    let mut h: u64 = 0xcbf29ce484222325;
    for b in bytes {
        h ^= *b as u64;
        h = h.wrapping_mul(0x100000001b3);
    }
    h
}

/// Run `f(i)` for i in 0..n on `threads` threads (static interleaved partition).
pub fn par_for<F: Fn(usize) + Sync>(n: usize, threads: usize, f: F) {
    let next = AtomicUsize::new(0);
    std::thread::scope(|s| {
        for _ in 0..threads.max(1) {
            s.spawn(|| {
                loop {
                    let i = next.fetch_add(1, Ordering::Relaxed);
                    if i >= n {
                        break;
                    }
                    f(i);
                }
            });
        }
    });
}
