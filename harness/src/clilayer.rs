//! CLI conformance layer: what `nitrogql-cli check generate` does with a project directory,
//! against what the library entry points give when called in-process in the order the CLI's
//! main.rs / check.rs / generate.rs call them (no code of crates/cli except builtins.rs).
//!
//! The per-property checks decide their property on the library functions against a reference
//! model; the plumbing between files on disk and those functions (glob order, file indices,
//! the `#import` resolver's path table, built-in definitions appended to the schema, printer
//! options derived from the configuration, output paths) lives in the CLI crate. This layer
//! binds it: for every project of a family, verdict, located diagnostics and every written
//! byte must agree with the in-process route.

use crate::cli::{self, CliRun, Project};
use crate::pipeline;
use crate::util::{Panic, catch};
use serde_json::{Value as J, json};
use std::collections::{BTreeMap, BTreeSet};
use std::path::{Path, PathBuf};
use std::time::Duration;

pub const MODES: [(&str, &str); 3] = [("with-loader-ts-5.0", "d.graphql.ts"), ("with-loader-ts-4.0", "graphql.d.ts"), ("standalone-ts-4.0", "graphql.ts")];

#[derive(Clone, Debug)]
pub struct CProj {
    /// (path relative to the project root, text)
    pub schema: Vec<(String, String)>,
    pub ops: Vec<(String, String)>,
    pub mode: usize,
    pub schema_out: String,
    pub resolvers_out: Option<String>,
    pub server_out: Option<String>,
    /// extra YAML lines below `generate:` (indented by six spaces)
    pub extra_generate: String,
    pub schema_globs: Vec<String>,
    pub doc_globs: Vec<String>,
    /// operation files that are symbolic links: (path of the document as the patterns match it, path of the real file
    /// relative to the project root). The document is the matched path; where its bytes live is the file system's business.
    pub links: Vec<(String, String)>,
}

impl CProj {
    pub fn new(schema: Vec<(String, String)>, ops: Vec<(String, String)>) -> CProj {
        CProj {
            schema,
            ops,
            mode: 0,
            schema_out: "generated/schema.d.ts".into(),
            resolvers_out: Some("generated/resolvers.d.ts".into()),
            server_out: Some("generated/graphql.ts".into()),
            extra_generate: String::new(),
            schema_globs: vec!["./schema/**/*.graphql".into()],
            doc_globs: vec!["./src/**/*.graphql".into()],
            links: vec![],
        }
    }
    pub fn yaml(&self) -> String {
        let mut y = String::from("schema:\n");
        for g in &self.schema_globs {
            y.push_str(&format!("  - \"{g}\"\n"));
        }
        y.push_str("documents:\n");
        for g in &self.doc_globs {
            y.push_str(&format!("  - \"{g}\"\n"));
        }
        y.push_str(&format!("extensions:\n  nitrogql:\n    generate:\n      mode: {}\n      schemaOutput: ./{}\n", MODES[self.mode].0, self.schema_out));
        if let Some(r) = &self.resolvers_out {
            y.push_str(&format!("      resolversOutput: ./{r}\n"));
        }
        if let Some(s) = &self.server_out {
            y.push_str(&format!("      serverGraphqlOutput: ./{s}\n"));
        }
        y.push_str(&self.extra_generate);
        y
    }
    pub fn project(&self) -> Project {
        let mut p = Project::default();
        for (k, v) in self.schema.iter().chain(self.ops.iter()) {
            match self.links.iter().find(|l| l.0 == *k) {
                None => {
                    p.files.insert(k.clone(), v.clone());
                }
                Some((_, real)) => {
                    // the real file, and a relative link to it at the matched path
                    p.files.insert(real.clone(), v.clone());
                    let ups = k.matches('/').count();
                    p.files.insert(k.clone(), format!("{}{}{real}", cli::SYMLINK_MARK, "../".repeat(ups)));
                }
            }
        }
        p.files.insert("graphql.config.yaml".into(), self.yaml());
        p
    }
    pub fn to_json(&self) -> J {
        json!({"files": self.project().files})
    }
}

#[derive(Debug)]
pub enum Expected {
    /// the stage that rejects, and the located diagnostics (relative path, 0-based line, column)
    Rejected { stage: &'static str, located: BTreeSet<(String, u32, u32)>, detail: String },
    Files(BTreeMap<String, Vec<u8>>),
}

fn path_to_js(p: PathBuf) -> String {
    let s = p.to_string_lossy().to_string();
    for (a, b) in [(".d.ts", ".js"), (".d.cts", ".cjs"), (".d.mts", ".mjs"), (".ts", ".js"), (".tsx", ".js"), (".cts", ".cjs"), (".mts", ".mjs")] {
        if let Some(x) = s.strip_suffix(a) {
            return format!("{x}{b}");
        }
    }
    s
}

/// files in the order the CLI's glob loader yields them (globmatch sorts the matched paths as paths)
fn glob_order(root: &Path, files: &[(String, String)]) -> Vec<(String, PathBuf, String)> {
    let mut v: Vec<(String, PathBuf, String)> = files.iter().map(|(r, t)| (r.clone(), root.join(r), t.clone())).collect();
    v.sort_by(|a, b| a.1.cmp(&b.1));
    v
}

/// What the library entry points give for this project rooted at `root`.
pub fn expected(root: &Path, p: &CProj) -> Result<Expected, String> {
    use nitrogql_printer::{OperationTypePrinterOptions, ResolverTypePrinter, ResolverTypePrinterOptions, SchemaTypePrinter, SchemaTypePrinterOptions, print_types_for_operation_document};
    use nitrogql_utils::relative_path;
    use sourcemap_writer::{SourceWriter, print_source_map_json};
    let cfg = nitrogql_config_file::parse_config(&p.yaml()).ok_or("config does not parse")?;
    let schema = glob_order(root, &p.schema);
    let ops = glob_order(root, &p.ops);
    let n_schema = schema.len();
    let rel_of = |idx: usize| -> String { if idx < n_schema { schema[idx].0.clone() } else { ops.get(idx - n_schema).map(|o| o.0.clone()).unwrap_or_else(|| format!("<file {idx}>")) } };
    let reject = |stage: &'static str, f: pipeline::Failure| -> Expected {
        let located = f.diags.iter().filter_map(|d| d.pos.map(|(fi, l, c)| (rel_of(fi), l as u32, c as u32))).collect();
        let detail = f.diags.iter().map(|d| format!("{}:{} {}", d.stage, d.kind, d.msg)).collect::<Vec<_>>().join("; ");
        Expected::Rejected { stage, located, detail }
    };
    let schema_texts: Vec<String> = schema.iter().map(|s| s.2.clone()).collect();
    let op_inputs: Vec<(PathBuf, String)> = ops.iter().map(|o| (o.1.clone(), o.2.clone())).collect();
    let parsed = match pipeline::parse_schema_files(&schema_texts) {
        Ok(d) => d,
        Err(f) => return Ok(reject("parse-schema", f)),
    };
    // the CLI parses the operation files before it runs any command
    {
        let mut bad = None;
        for (i, (_, t)) in op_inputs.iter().enumerate() {
            nitrogql_ast::set_current_file_of_pos(n_schema + i);
            if nitrogql_parser::parse_operation_document(t).is_err() && bad.is_none() {
                bad = Some(i);
            }
        }
        if bad.is_some() {
            return match pipeline::load_operations(&op_inputs, n_schema) {
                Err(f) => Ok(reject("parse-operation", f)),
                Ok(_) => Err("operation parse verdict changed between two calls".into()),
            };
        }
    }
    let doc = match pipeline::resolve_and_check_schema(parsed) {
        Ok(d) => d,
        Err(f) => return Ok(reject("schema", f)),
    };
    let sch = pipeline::to_schema(&doc);
    let loaded = match pipeline::load_operations(&op_inputs, n_schema) {
        Ok(l) => l,
        Err(f) => return Ok(reject("operations", f)),
    };
    if let Err(f) = pipeline::check_operations(&sch, &loaded) {
        return Ok(reject("check-operations", f));
    }
    let mut out: BTreeMap<String, Vec<u8>> = BTreeMap::new();
    let n_all = n_schema + op_inputs.len();
    let mut emit = |rel: &str, buffers: sourcemap_writer::SourceWriterBuffers, sources: Vec<&Path>| -> Result<(), String> {
        let path = root.join(rel);
        let file_name = path.file_name().unwrap().to_string_lossy().to_string();
        out.insert(rel.to_string(), format!("{}\n//# sourceMappingURL={}.map\n", buffers.buffer, file_name).into_bytes());
        let mut map = String::new();
        print_source_map_json(&path, &sources, &buffers.names, &buffers.source_map, &mut map).map_err(|e| e.to_string())?;
        out.insert(format!("{rel}.map"), map.into_bytes());
        Ok(())
    };
    let schema_only: Vec<usize> = (0..n_all).map(|i| if i < n_schema { i } else { usize::MAX }).collect();
    let schema_sources: Vec<&Path> = schema.iter().map(|s| s.1.as_path()).collect();
    {
        let mut w = SourceWriter::new();
        w.set_file_index_mapper(schema_only.clone());
        let mut pr = SchemaTypePrinter::new(SchemaTypePrinterOptions::from_config(&cfg), &mut w);
        if let Err(e) = pr.print_document(&doc) {
            // a printer error (e.g. a custom scalar without a configured TypeScript type) ends the run
            return Ok(Expected::Rejected { stage: "generate", located: BTreeSet::new(), detail: format!("{e:?}") });
        }
        emit(&p.schema_out, w.into_buffers(), schema_sources.clone())?;
    }
    let schema_out_abs = root.join(&p.schema_out);
    if let Some(r) = &p.resolvers_out {
        let resolvers_abs = root.join(r);
        let mut o = ResolverTypePrinterOptions::from_config(&cfg);
        o.schema_source = path_to_js(relative_path(&resolvers_abs, &schema_out_abs));
        let mut w = SourceWriter::new();
        w.set_file_index_mapper(schema_only.clone());
        let mut pr = ResolverTypePrinter::new(o, &mut w);
        let plugins: Vec<nitrogql_plugin::Plugin> = vec![];
        pr.print_document(&doc, &plugins).map_err(|e| format!("{e:?}"))?;
        emit(r, w.into_buffers(), schema_sources.clone())?;
    }
    for (i, (_, opdoc, _, idx)) in loaded.iter().enumerate() {
        let rel_in = &ops[i].0;
        let rel_out = match rel_in.rsplit_once('.') {
            Some((stem, _)) if !stem.ends_with('/') && !stem.is_empty() => format!("{stem}.{}", MODES[p.mode].1),
            _ => format!("{rel_in}.{}", MODES[p.mode].1),
        };
        let decl_abs = root.join(&rel_out);
        let mut o = OperationTypePrinterOptions::from_config(&cfg);
        o.schema_source = path_to_js(relative_path(&decl_abs, &schema_out_abs));
        let mut from: Vec<usize> = opdoc.definitions.iter().map(|d| nitrogql_ast::base::HasPos::position(d).file).chain(std::iter::once(*idx)).filter(|k| *k >= n_schema).collect();
        from.sort_unstable();
        from.dedup();
        let mapper: Vec<usize> = (0..n_all).map(|k| if k < n_schema { k } else if let Ok(nth) = from.binary_search(&k) { n_schema + nth } else { usize::MAX }).collect();
        let mut w = SourceWriter::new();
        w.set_file_index_mapper(mapper);
        // every document is printed on a thread of its own: whatever the printers keep per thread cannot carry over
        // from one document to the next, so these are the bytes the document gets alone
        crate::util::on_fresh_thread(|| print_types_for_operation_document(o, &sch, opdoc, &mut w));
        let mut sources = schema_sources.clone();
        for k in &from {
            sources.push(op_inputs[*k - n_schema].0.as_path());
        }
        emit(&rel_out, w.into_buffers(), sources)?;
    }
    if let Some(s) = &p.server_out {
        out.insert(s.clone(), pipeline::server_graphql(&doc).into_bytes());
    }
    Ok(Expected::Files(out))
}

pub struct Compared {
    /// (key suffix, description)
    pub diffs: Vec<(String, String)>,
    pub accepted: bool,
    pub files_compared: usize,
    pub cli: CliRun,
    pub expected_summary: String,
}

fn classify_file(k: &str, p: &CProj) -> &'static str {
    if k.ends_with(".map") {
        "source-map"
    } else if Some(k) == p.server_out.as_deref() {
        "server-schema"
    } else if Some(k) == p.resolvers_out.as_deref() {
        "resolvers-declarations"
    } else if k == p.schema_out {
        "schema-declarations"
    } else {
        "operation-declarations"
    }
}

fn rel(dir: &str, p: &str) -> String {
    let n = cli::norm_path(p);
    let d = cli::norm_path(dir);
    n.strip_prefix(&format!("{d}/")).map(|s| s.to_string()).unwrap_or(n)
}

/// Materialise in the calling thread's scratch directory `tag`, run `check generate` with the json
/// format, compute the in-process expectation for the same root and compare.
pub fn run_and_compare(p: &CProj, tag: &str) -> Result<Result<Compared, String>, Panic> {
    run_and_compare_after(None, p, tag)
}

/// The same after a history: `earlier` was generated in the directory first, then its files were edited into `p`'s
/// (only files that differ are written). What the second run leaves must be what a run in a clean directory leaves.
pub fn run_and_compare_after(earlier: Option<&CProj>, p: &CProj, tag: &str) -> Result<Result<Compared, String>, Panic> {
    let dir = cli::thread_dir(tag);
    let args: Vec<String> = ["--config-file", "graphql.config.yaml", "--output-format", "json", "check", "generate"].iter().map(|s| s.to_string()).collect();
    match earlier {
        None => cli::materialize(&dir, &p.project()),
        Some(e) => {
            cli::materialize(&dir, &e.project());
            let _ = cli::run(&dir, &args, &[], Duration::from_secs(60));
            cli::overwrite(&dir, &p.project());
        }
    }
    let r = cli::run(&dir, &args, &[], Duration::from_secs(60));
    let exp = match catch(|| expected(&dir, p)) {
        Err(pn) => return Err(pn),
        Ok(Err(e)) => return Ok(Err(e)),
        Ok(Ok(e)) => e,
    };
    let dir_s = dir.to_string_lossy().to_string();
    let mut diffs = vec![];
    let written: BTreeMap<&String, &Vec<u8>> = r.after.iter().filter(|(k, v)| r.before.get(*k) != Some(v)).collect();
    let stderr = cli::strip_ansi(&r.stderr);
    if r.timed_out {
        diffs.push(("no_exit".into(), "the CLI did not exit within 60 s".into()));
    }
    if stderr.contains("panicked at") {
        diffs.push(("cli_panic".into(), format!("the CLI panicked: {}", stderr.lines().find(|l| l.contains("panicked at")).unwrap_or(""))));
    }
    let doc: Option<J> = serde_json::from_str(r.stdout.trim_end_matches('\n')).ok();
    if doc.is_none() && !r.timed_out {
        diffs.push(("stdout_not_json".into(), format!("stdout is not one JSON document: {:?}", r.stdout.chars().take(300).collect::<String>())));
    }
    let mut files_compared = 0;
    let (accepted, summary);
    match &exp {
        Expected::Rejected { stage, located, detail } => {
            accepted = false;
            summary = format!("rejected at {stage}: {detail}");
            if r.code != Some(1) {
                diffs.push((format!("verdict:cli_accepts:{stage}"), format!("the library route rejects the project at stage {stage} ({detail}) but the CLI exits with {:?}", r.code)));
            }
            if !written.is_empty() && *stage != "generate" {
                diffs.push((format!("writes_although_rejected:{stage}"), format!("files written although the project is rejected: {:?}", written.keys().collect::<Vec<_>>())));
            }
            // check-stage diagnostics are located one by one in the json document
            if let (Some(doc), true) = (&doc, !stage.starts_with("parse") && *stage != "generate" && r.code == Some(1)) {
                let got: BTreeSet<(String, u32, u32)> = doc["check"]["errors"]
                    .as_array()
                    .into_iter()
                    .flatten()
                    .filter(|e| e["file"].is_object())
                    .map(|e| (rel(&dir_s, e["file"]["path"].as_str().unwrap_or("")), e["file"]["line"].as_u64().unwrap_or(u64::MAX) as u32, e["file"]["column"].as_u64().unwrap_or(u64::MAX) as u32))
                    .collect();
                if &got != located {
                    diffs.push((format!("diagnostic_locations:{stage}"), format!("located diagnostics differ: CLI {got:?}, library route {located:?} ({detail})")));
                }
            }
        }
        Expected::Files(files) => {
            accepted = true;
            summary = format!("accepted, {} files", files.len());
            if r.code != Some(0) {
                let msg = doc.as_ref().map(|d| format!("{} {}", d["error"]["message"].as_str().unwrap_or(""), d["check"]["errors"])).unwrap_or_default();
                diffs.push(("verdict:cli_rejects".into(), format!("the library route accepts the project but the CLI exits with {:?}: {}", r.code, cli::strip_ansi(&msg).chars().take(600).collect::<String>())));
            } else {
                let names: BTreeSet<&String> = written.keys().copied().chain(files.keys()).collect();
                for n in names {
                    files_compared += 1;
                    let (c, e) = (written.get(n).copied(), files.get(n));
                    if c != e {
                        // an output equal to a stale copy is not "written"; look at the tree
                        if c.is_none() && r.after.get(n) == e {
                            continue;
                        }
                        let kind = match (c, e) {
                            (None, _) => "only_library",
                            (_, None) => "only_cli",
                            _ => "bytes_differ",
                        };
                        let show = |b: Option<&Vec<u8>>| b.map(|b| String::from_utf8_lossy(b).chars().take(1500).collect::<String>());
                        diffs.push((format!("cli_vs_library:{kind}:{}", classify_file(n, p)), format!("{n}: the CLI and the library entry points called in-process disagree ({kind}); CLI: {:?}; library: {:?}", show(c), show(e))));
                    }
                }
            }
        }
    }
    Ok(Ok(Compared { diffs, accepted, files_compared, cli: r, expected_summary: summary }))
}
