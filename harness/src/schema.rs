//! Schema index over R-MODEL documents (after reference extension merge), with the spec's
//! built-in scalars and directives. Shared by R-VALID-*, R-EXEC, generators.

use crate::gql::*;
use std::collections::BTreeMap;

#[derive(Clone, Debug)]
pub struct Sch {
    pub types: BTreeMap<String, TsDef>,
    pub directives: BTreeMap<String, TsDef>,
    pub schema_def: Option<TsDef>,
    /// order of definition (for stable iteration)
    pub order: Vec<String>,
}

pub const BUILTIN_SCALARS: [&str; 5] = ["Int", "Float", "String", "Boolean", "ID"];

fn ivd(name: &str, ty: Ty, default: Option<Value>) -> InputValueDef {
    InputValueDef {
        desc: None,
        p: P::default(),
        name: nm(name),
        ty,
        default,
        dirs: vec![],
    }
}

pub fn builtin_directives() -> Vec<TsDef> {
    let mut out = vec![];
    let mut mk = |name: &str, args: Vec<InputValueDef>, locs: &[&str]| {
        let mut d = TsDef::new(TsKind::Directive, Some(name));
        d.dir_args = if args.is_empty() { None } else { Some(args) };
        d.locations = locs.iter().map(|l| nm(l)).collect();
        out.push(d);
    };
    mk("skip", vec![ivd("if", Ty::nn(Ty::named("Boolean")), None)], &["FIELD", "FRAGMENT_SPREAD", "INLINE_FRAGMENT"]);
    mk("include", vec![ivd("if", Ty::nn(Ty::named("Boolean")), None)], &["FIELD", "FRAGMENT_SPREAD", "INLINE_FRAGMENT"]);
    mk(
        "deprecated",
        vec![ivd("reason", Ty::named("String"), Some(Value::Str(P::default(), "No longer supported".into())))],
        &["FIELD_DEFINITION", "ARGUMENT_DEFINITION", "INPUT_FIELD_DEFINITION", "ENUM_VALUE"],
    );
    mk("specifiedBy", vec![ivd("url", Ty::nn(Ty::named("String")), None)], &["SCALAR"]);
    out
}

/// reference merge: original ++ extensions in document order (C11's reference, reused)
pub fn merge_extensions(doc: &TsDoc) -> Result<Vec<TsDef>, String> {
    let mut out: Vec<TsDef> = vec![];
    let mut exts: Vec<&TsDef> = vec![];
    for d in &doc.defs {
        if d.ext {
            exts.push(d);
        } else {
            if d.kind != TsKind::Directive && out.iter().any(|o| o.kind == d.kind && o.name_str() == d.name_str()) {
                return Err(format!("duplicate {} {}", d.kind.kw(), d.name_str()));
            }
            out.push(d.clone());
        }
    }
    for e in exts {
        let Some(o) = out.iter_mut().find(|o| o.kind == e.kind && o.name_str() == e.name_str()) else {
            return Err(format!("orphan extension of {} {}", e.kind.kw(), e.name_str()));
        };
        o.implements.extend(e.implements.iter().cloned());
        o.dirs.extend(e.dirs.iter().cloned());
        o.fields.extend(e.fields.iter().cloned());
        o.members.extend(e.members.iter().cloned());
        o.values.extend(e.values.iter().cloned());
        o.input_fields.extend(e.input_fields.iter().cloned());
        o.roots.extend(e.roots.iter().cloned());
    }
    Ok(out)
}

impl Sch {
    /// Index of merged definitions (no validation). Later definitions of the same name are ignored here;
    /// duplicates are the validator's business.
    pub fn new(defs: &[TsDef]) -> Sch {
        let mut s = Sch {
            types: BTreeMap::new(),
            directives: BTreeMap::new(),
            schema_def: None,
            order: vec![],
        };
        for b in BUILTIN_SCALARS {
            s.types.insert(b.to_string(), TsDef::new(TsKind::Scalar, Some(b)));
        }
        for d in builtin_directives() {
            s.directives.insert(d.name_str().to_string(), d);
        }
        for d in defs {
            match d.kind {
                TsKind::Schema => {
                    if s.schema_def.is_none() {
                        s.schema_def = Some(d.clone());
                    }
                }
                TsKind::Directive => {
                    s.directives.entry(d.name_str().to_string()).or_insert_with(|| d.clone());
                }
                _ => {
                    if !s.types.contains_key(d.name_str()) {
                        s.order.push(d.name_str().to_string());
                        s.types.insert(d.name_str().to_string(), d.clone());
                    }
                }
            }
        }
        s
    }
    pub fn from_doc(doc: &TsDoc) -> Result<Sch, String> {
        Ok(Sch::new(&merge_extensions(doc)?))
    }
    pub fn root(&self, k: OpKind) -> Option<String> {
        match &self.schema_def {
            Some(sd) => sd.roots.iter().find(|(kk, _)| *kk == k).map(|(_, n)| n.s.clone()),
            None => {
                let n = match k {
                    OpKind::Query => "Query",
                    OpKind::Mutation => "Mutation",
                    OpKind::Subscription => "Subscription",
                };
                self.types.get(n).filter(|t| t.kind == TsKind::Object).map(|_| n.to_string())
            }
        }
    }
    pub fn kind(&self, name: &str) -> Option<TsKind> {
        self.types.get(name).map(|t| t.kind)
    }
    pub fn is_input_type(&self, name: &str) -> bool {
        matches!(self.kind(name), Some(TsKind::Scalar | TsKind::Enum | TsKind::Input))
    }
    pub fn is_output_type(&self, name: &str) -> bool {
        matches!(self.kind(name), Some(TsKind::Scalar | TsKind::Enum | TsKind::Object | TsKind::Interface | TsKind::Union))
    }
    pub fn is_composite(&self, name: &str) -> bool {
        matches!(self.kind(name), Some(TsKind::Object | TsKind::Interface | TsKind::Union))
    }
    pub fn is_leaf(&self, name: &str) -> bool {
        matches!(self.kind(name), Some(TsKind::Scalar | TsKind::Enum))
    }
    /// field of an object / interface type (not `__typename`)
    pub fn field(&self, ty: &str, field: &str) -> Option<&FieldDef> {
        let t = self.types.get(ty)?;
        if !matches!(t.kind, TsKind::Object | TsKind::Interface) {
            return None;
        }
        t.fields.iter().find(|f| f.name.s == field)
    }
    /// GetPossibleTypes: object types a value of `name` may have at runtime
    pub fn possible_types(&self, name: &str) -> Vec<String> {
        match self.kind(name) {
            Some(TsKind::Object) => vec![name.to_string()],
            Some(TsKind::Interface) => self
                .order
                .iter()
                .filter(|n| {
                    let t = &self.types[*n];
                    t.kind == TsKind::Object && t.implements.iter().any(|i| i.s == name)
                })
                .cloned()
                .collect(),
            Some(TsKind::Union) => self.types[name].members.iter().map(|m| m.s.clone()).filter(|m| self.kind(m) == Some(TsKind::Object)).collect(),
            _ => vec![],
        }
    }
    /// does a fragment with type condition `cond` apply to an object of type `obj`? (DoesFragmentTypeApply)
    pub fn type_applies(&self, obj: &str, cond: &str) -> bool {
        self.possible_types(cond).iter().any(|t| t == obj)
    }
    pub fn custom_scalars(&self) -> Vec<String> {
        self.order.iter().filter(|n| self.types[*n].kind == TsKind::Scalar).cloned().collect()
    }
}
