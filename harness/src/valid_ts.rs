//! R-VALID-TS — GraphQL (October 2021) §3 type-system validity, written from the specification.
//! Input: a type-system document (definitions + extensions); output: rule-labelled findings.

use crate::gql::*;
use crate::schema::{Sch, merge_extensions};
use crate::valid_op::Finding;
use std::collections::BTreeSet;

fn f(rule: &'static str, detail: String) -> Finding {
    Finding { rule, detail }
}

/// Rules the property statement lists as implemented by nitrogql (a mutant is demanded to be
/// rejected only if its label is one of these).
pub const IMPLEMENTED: [&str; 24] = [
    "name.reserved",
    "dup.field",
    "dup.arg",
    "dup.enum_value",
    "dup.member",
    "dup.type",
    "ext.orphan",
    "type.unknown",
    "type.output_expected",
    "type.input_expected",
    "implements.not_interface",
    "implements.self",
    "implements.transitive",
    "implements.field_missing",
    "implements.field_type",
    "implements.arg_missing",
    "implements.arg_type",
    "implements.extra_required_arg",
    "union.member_not_object",
    "dir.unknown",
    "dir.location",
    "dir.repeated",
    "dir.arg",
    "dir.recursive",
];

pub fn validate(doc: &TsDoc) -> Vec<Finding> {
    // `extend scalar Int @d` extends the implicit definition of a built-in scalar: make it explicit
    let mut implicit_builtins: BTreeSet<String> = BTreeSet::new();
    let mut owned = doc.clone();
    for d in &doc.defs {
        if d.ext && d.kind == TsKind::Scalar && crate::schema::BUILTIN_SCALARS.contains(&d.name_str()) && !doc.defs.iter().any(|x| !x.ext && x.kind == TsKind::Scalar && x.name_str() == d.name_str()) && implicit_builtins.insert(d.name_str().to_string()) {
            owned.defs.insert(0, TsDef::new(TsKind::Scalar, Some(d.name_str())));
        }
    }
    let doc = &owned;
    let mut out = vec![];
    // same-kind duplicates / orphan extensions (extension resolution)
    let mut seen: BTreeSet<(TsKind, String)> = BTreeSet::new();
    let mut all_names: BTreeSet<String> = BTreeSet::new();
    for d in &doc.defs {
        if d.ext || d.kind == TsKind::Directive {
            continue;
        }
        if !seen.insert((d.kind, d.name_str().to_string())) {
            out.push(f("dup.type", format!("{} {}", d.kind.kw(), d.name_str())));
        } else if d.kind != TsKind::Schema && !all_names.insert(d.name_str().to_string()) {
            out.push(f("dup.type_cross_kind", d.name_str().to_string()));
        }
    }
    let mut dnames = BTreeSet::new();
    for d in doc.defs.iter().filter(|d| d.kind == TsKind::Directive) {
        if !dnames.insert(d.name_str().to_string()) {
            out.push(f("dup.directive", d.name_str().to_string()));
        }
    }
    for d in doc.defs.iter().filter(|d| d.ext) {
        if !seen.contains(&(d.kind, d.name_str().to_string())) {
            out.push(f("ext.orphan", format!("{} {}", d.kind.kw(), d.name_str())));
        }
    }
    if !out.is_empty() && out.iter().any(|x| x.rule == "dup.type" || x.rule == "ext.orphan") {
        out.sort();
        out.dedup();
        return out;
    }
    let merged = merge_extensions(doc).unwrap_or_default();
    let sch = Sch::new(&merged);
    let v = Ctx { sch: &sch };
    for d in &merged {
        v.def(d, &mut out);
    }
    // builtin redefinition
    for d in &merged {
        if d.kind != TsKind::Schema && d.kind != TsKind::Directive && crate::schema::BUILTIN_SCALARS.contains(&d.name_str()) && !(d.kind == TsKind::Scalar && implicit_builtins.contains(d.name_str())) {
            out.push(f("dup.builtin", d.name_str().to_string()));
        }
        if d.kind == TsKind::Directive && ["skip", "include", "deprecated", "specifiedBy"].contains(&d.name_str()) {
            out.push(f("dup.builtin", d.name_str().to_string()));
        }
    }
    // root types
    match &sch.schema_def {
        Some(sd) => {
            if !sd.roots.iter().any(|(k, _)| *k == OpKind::Query) {
                out.push(f("root.query_missing", String::new()));
            }
            let mut kinds = BTreeSet::new();
            for (k, n) in &sd.roots {
                if !kinds.insert(*k) {
                    out.push(f("root.duplicate", format!("{k:?}")));
                }
                match sch.kind(&n.s) {
                    None => out.push(f("type.unknown", format!("root {}", n.s))),
                    Some(TsKind::Object) => {}
                    Some(_) => out.push(f("root.not_object", n.s.clone())),
                }
            }
        }
        None => {
            if sch.root(OpKind::Query).is_none() {
                out.push(f("root.query_missing", String::new()));
            }
        }
    }
    // directive recursion
    for d in merged.iter().filter(|d| d.kind == TsKind::Directive) {
        let mut stack = vec![d.name_str().to_string()];
        if v.dir_recursive(d, &mut stack, &mut BTreeSet::new()) {
            out.push(f("dir.recursive", d.name_str().to_string()));
        }
    }
    out.sort();
    out.dedup();
    out
}

struct Ctx<'a> {
    sch: &'a Sch,
}

impl Ctx<'_> {
    fn reserved(&self, n: &str, out: &mut Vec<Finding>) {
        if n.starts_with("__") {
            out.push(f("name.reserved", n.to_string()));
        }
    }
    /// directives referenced (transitively) from a directive definition's arguments, via input types too
    fn dir_recursive(&self, d: &TsDef, stack: &mut Vec<String>, seen_types: &mut BTreeSet<String>) -> bool {
        let start = stack[0].clone();
        let mut refs: Vec<String> = vec![];
        for a in d.dir_args.iter().flatten() {
            for x in &a.dirs {
                refs.push(x.name.s.clone());
            }
            self.type_dirs(a.ty.base(), &mut refs, seen_types);
        }
        for r in refs {
            if r == start {
                return true;
            }
            if stack.contains(&r) {
                continue;
            }
            if let Some(def) = self.sch.directives.get(&r) {
                stack.push(r.clone());
                let rec = self.dir_recursive(&def.clone(), stack, seen_types);
                stack.pop();
                if rec {
                    return true;
                }
            }
        }
        false
    }
    /// directives applied on a (input) type and, for input objects, on its fields and their types
    fn type_dirs(&self, ty: &str, refs: &mut Vec<String>, seen: &mut BTreeSet<String>) {
        if !seen.insert(ty.to_string()) {
            return;
        }
        if let Some(t) = self.sch.types.get(ty) {
            for x in &t.dirs {
                refs.push(x.name.s.clone());
            }
            for v in &t.values {
                for x in &v.dirs {
                    refs.push(x.name.s.clone());
                }
            }
            for fld in &t.input_fields {
                for x in &fld.dirs {
                    refs.push(x.name.s.clone());
                }
                self.type_dirs(fld.ty.base(), refs, seen);
            }
        }
    }

    fn dirs(&self, ds: &[Dir], location: &str, out: &mut Vec<Finding>) {
        let mut seen = BTreeSet::new();
        for d in ds {
            let Some(def) = self.sch.directives.get(&d.name.s) else {
                out.push(f("dir.unknown", d.name.s.clone()));
                continue;
            };
            if !def.locations.iter().any(|l| l.s == location) {
                out.push(f("dir.location", format!("@{} at {}", d.name.s, location)));
            }
            if !seen.insert(d.name.s.clone()) && !def.repeatable {
                out.push(f("dir.repeated", d.name.s.clone()));
            }
            // arguments (constant values)
            let empty = vec![];
            let items = d.args.as_ref().map_or(&empty, |a| &a.items);
            let defs = def.dir_args.clone().unwrap_or_default();
            for (k, v) in items {
                match defs.iter().find(|x| x.name.s == k.s) {
                    None => out.push(f("dir.arg", format!("unknown argument {}", k.s))),
                    Some(x) => {
                        if !self.const_value_ok(v, &x.ty) {
                            out.push(f("dir.arg", format!("ill-typed argument {}", k.s)));
                        }
                    }
                }
            }
            for x in &defs {
                if x.ty.is_nonnull() && x.default.is_none() && !items.iter().any(|(k, _)| k.s == x.name.s) {
                    out.push(f("dir.arg", format!("missing argument {}", x.name.s)));
                }
            }
        }
    }

    fn const_value_ok(&self, v: &Value, ty: &Ty) -> bool {
        match ty {
            Ty::NonNull(t) => !matches!(v, Value::Null(_)) && self.const_value_ok(v, t),
            _ if matches!(v, Value::Null(_)) => true,
            Ty::List(_, item) => match v {
                Value::List(_, xs) => xs.iter().all(|x| self.const_value_ok(x, item)),
                other => self.const_value_ok(other, item),
            },
            Ty::Named(n) => match self.sch.types.get(&n.s) {
                None => true,
                Some(def) => match def.kind {
                    TsKind::Scalar => match n.s.as_str() {
                        "Int" => matches!(v, Value::Int(_, s) if s.parse::<i32>().is_ok()),
                        "Float" => matches!(v, Value::Int(..) | Value::Float(..)),
                        "String" => matches!(v, Value::Str(..)),
                        "Boolean" => matches!(v, Value::Bool(..)),
                        "ID" => matches!(v, Value::Str(..) | Value::Int(..)),
                        _ => !matches!(v, Value::Var(..)),
                    },
                    TsKind::Enum => matches!(v, Value::Enum(_, m) if def.values.iter().any(|x| x.name.s == *m)),
                    TsKind::Input => match v {
                        Value::Obj(_, fs) => {
                            fs.iter().all(|(k, x)| def.input_fields.iter().find(|d| d.name.s == k.s).is_some_and(|d| self.const_value_ok(x, &d.ty)))
                                && def.input_fields.iter().all(|d| !(d.ty.is_nonnull() && d.default.is_none()) || fs.iter().any(|(k, _)| k.s == d.name.s))
                        }
                        _ => false,
                    },
                    _ => false,
                },
            },
        }
    }

    fn args(&self, args: &[InputValueDef], out: &mut Vec<Finding>) {
        let mut seen = BTreeSet::new();
        for a in args {
            self.reserved(&a.name.s, out);
            if !seen.insert(a.name.s.clone()) {
                out.push(f("dup.arg", a.name.s.clone()));
            }
            match self.sch.kind(a.ty.base()) {
                None => out.push(f("type.unknown", format!("argument type {}", a.ty.base()))),
                Some(_) if !self.sch.is_input_type(a.ty.base()) => out.push(f("type.input_expected", a.ty.base().to_string())),
                Some(_) => {
                    if let Some(d) = &a.default
                        && !self.const_value_ok(d, &a.ty)
                    {
                        out.push(f("default.type", a.name.s.clone()));
                    }
                }
            }
            self.dirs(&a.dirs, "ARGUMENT_DEFINITION", out);
        }
    }

    fn fields(&self, d: &TsDef, out: &mut Vec<Finding>) {
        let mut seen = BTreeSet::new();
        if d.fields.is_empty() {
            out.push(f("object.no_fields", d.name_str().to_string()));
        }
        for fl in &d.fields {
            self.reserved(&fl.name.s, out);
            if !seen.insert(fl.name.s.clone()) {
                out.push(f("dup.field", fl.name.s.clone()));
            }
            match self.sch.kind(fl.ty.base()) {
                None => out.push(f("type.unknown", format!("field type {}", fl.ty.base()))),
                Some(_) if !self.sch.is_output_type(fl.ty.base()) => out.push(f("type.output_expected", fl.ty.base().to_string())),
                Some(_) => {}
            }
            self.args(fl.args.as_deref().unwrap_or(&[]), out);
            self.dirs(&fl.dirs, "FIELD_DEFINITION", out);
        }
    }

    fn implements(&self, d: &TsDef, out: &mut Vec<Finding>) {
        let mut seen = BTreeSet::new();
        for i in &d.implements {
            if !seen.insert(i.s.clone()) {
                out.push(f("dup.implements", i.s.clone()));
            }
            if i.s == d.name_str() {
                out.push(f("implements.self", i.s.clone()));
                continue;
            }
            let Some(idef) = self.sch.types.get(&i.s) else {
                out.push(f("type.unknown", format!("implements {}", i.s)));
                continue;
            };
            if idef.kind != TsKind::Interface {
                out.push(f("implements.not_interface", i.s.clone()));
                continue;
            }
            // transitive
            for ii in &idef.implements {
                if ii.s != d.name_str() && !d.implements.iter().any(|x| x.s == ii.s) {
                    out.push(f("implements.transitive", format!("{} via {}", ii.s, i.s)));
                }
            }
            for ifld in &idef.fields {
                let Some(fl) = d.fields.iter().find(|x| x.name.s == ifld.name.s) else {
                    out.push(f("implements.field_missing", format!("{}.{}", i.s, ifld.name.s)));
                    continue;
                };
                if !self.is_subtype(&fl.ty, &ifld.ty) {
                    out.push(f("implements.field_type", format!("{}: {} vs {}", fl.name.s, fl.ty.show(), ifld.ty.show())));
                }
                let empty = vec![];
                let fargs = fl.args.as_ref().unwrap_or(&empty);
                let iargs = ifld.args.as_ref().unwrap_or(&empty);
                for ia in iargs {
                    match fargs.iter().find(|x| x.name.s == ia.name.s) {
                        None => out.push(f("implements.arg_missing", format!("{}({})", fl.name.s, ia.name.s))),
                        Some(fa) => {
                            if fa.ty != ia.ty {
                                out.push(f("implements.arg_type", format!("{}({})", fl.name.s, ia.name.s)));
                            }
                        }
                    }
                }
                for fa in fargs {
                    if !iargs.iter().any(|x| x.name.s == fa.name.s) && fa.ty.is_nonnull() && fa.default.is_none() {
                        out.push(f("implements.extra_required_arg", format!("{}({})", fl.name.s, fa.name.s)));
                    }
                }
            }
        }
    }

    /// IsValidImplementationFieldType
    fn is_subtype(&self, field: &Ty, iface: &Ty) -> bool {
        match (field, iface) {
            (Ty::NonNull(a), Ty::NonNull(b)) => self.is_subtype(a, b),
            (Ty::NonNull(a), b) => self.is_subtype(a, b),
            (_, Ty::NonNull(_)) => false,
            (Ty::List(_, a), Ty::List(_, b)) => self.is_subtype(a, b),
            (Ty::List(..), _) | (_, Ty::List(..)) => false,
            (Ty::Named(a), Ty::Named(b)) => {
                if a.s == b.s {
                    return true;
                }
                match (self.sch.kind(&a.s), self.sch.kind(&b.s)) {
                    (Some(TsKind::Object), Some(TsKind::Union)) => self.sch.types[&b.s].members.iter().any(|m| m.s == a.s),
                    (Some(TsKind::Object | TsKind::Interface), Some(TsKind::Interface)) => self.sch.types[&a.s].implements.iter().any(|i| i.s == b.s),
                    _ => false,
                }
            }
        }
    }

    fn def(&self, d: &TsDef, out: &mut Vec<Finding>) {
        if d.kind != TsKind::Schema {
            self.reserved(d.name_str(), out);
        }
        match d.kind {
            TsKind::Schema => self.dirs(&d.dirs, "SCHEMA", out),
            TsKind::Scalar => self.dirs(&d.dirs, "SCALAR", out),
            TsKind::Object => {
                self.dirs(&d.dirs, "OBJECT", out);
                self.fields(d, out);
                self.implements(d, out);
            }
            TsKind::Interface => {
                self.dirs(&d.dirs, "INTERFACE", out);
                self.fields(d, out);
                self.implements(d, out);
            }
            TsKind::Union => {
                self.dirs(&d.dirs, "UNION", out);
                if d.members.is_empty() {
                    out.push(f("union.no_members", d.name_str().to_string()));
                }
                let mut seen = BTreeSet::new();
                for m in &d.members {
                    if !seen.insert(m.s.clone()) {
                        out.push(f("dup.member", m.s.clone()));
                    }
                    match self.sch.kind(&m.s) {
                        None => out.push(f("type.unknown", format!("union member {}", m.s))),
                        Some(TsKind::Object) => {}
                        Some(_) => out.push(f("union.member_not_object", m.s.clone())),
                    }
                }
            }
            TsKind::Enum => {
                self.dirs(&d.dirs, "ENUM", out);
                if d.values.is_empty() {
                    out.push(f("enum.no_values", d.name_str().to_string()));
                }
                let mut seen = BTreeSet::new();
                for v in &d.values {
                    self.reserved(&v.name.s, out);
                    if !seen.insert(v.name.s.clone()) {
                        out.push(f("dup.enum_value", v.name.s.clone()));
                    }
                    self.dirs(&v.dirs, "ENUM_VALUE", out);
                }
            }
            TsKind::Input => {
                self.dirs(&d.dirs, "INPUT_OBJECT", out);
                if d.input_fields.is_empty() {
                    out.push(f("input.no_fields", d.name_str().to_string()));
                }
                let mut seen = BTreeSet::new();
                for a in &d.input_fields {
                    self.reserved(&a.name.s, out);
                    if !seen.insert(a.name.s.clone()) {
                        out.push(f("dup.field", a.name.s.clone()));
                    }
                    match self.sch.kind(a.ty.base()) {
                        None => out.push(f("type.unknown", format!("input field type {}", a.ty.base()))),
                        Some(_) if !self.sch.is_input_type(a.ty.base()) => out.push(f("type.input_expected", a.ty.base().to_string())),
                        Some(_) => {
                            if let Some(dv) = &a.default
                                && !self.const_value_ok(dv, &a.ty)
                            {
                                out.push(f("default.type", a.name.s.clone()));
                            }
                        }
                    }
                    self.dirs(&a.dirs, "INPUT_FIELD_DEFINITION", out);
                }
                // non-null self reference cycles
                if self.input_cycle(d.name_str(), d.name_str(), &mut BTreeSet::new()) {
                    out.push(f("input.circular_nonnull", d.name_str().to_string()));
                }
            }
            TsKind::Directive => {
                self.args(d.dir_args.as_deref().unwrap_or(&[]), out);
            }
        }
    }

    fn input_cycle(&self, start: &str, cur: &str, seen: &mut BTreeSet<String>) -> bool {
        let Some(t) = self.sch.types.get(cur) else { return false };
        for fl in &t.input_fields {
            // only a chain of non-null, non-list fields is unbreakable
            if let Ty::NonNull(inner) = &fl.ty
                && let Ty::Named(n) = &**inner
                && self.sch.kind(&n.s) == Some(TsKind::Input)
            {
                if n.s == start {
                    return true;
                }
                if seen.insert(n.s.clone()) && self.input_cycle(start, &n.s, seen) {
                    return true;
                }
            }
        }
        false
    }
}
