//! nitrogql AST -> R-MODEL (with positions), for comparison with R-PARSE.

use crate::gql::*;
use nitrogql_ast::base::{Ident, Pos};
use nitrogql_ast::directive::Directive;
use nitrogql_ast::operation::{ExecutableDefinition, OperationDocument, OperationType};
use nitrogql_ast::operation_ext::{ExecutableDefinitionExt, ImportTarget, OperationDocumentExt};
use nitrogql_ast::selection_set::{Selection, SelectionSet};
use nitrogql_ast::r#type::Type;
use nitrogql_ast::type_system as ts;
use nitrogql_ast::value as v;
use nitrogql_ast::variable::VariablesDefinition;

pub fn p(pos: &Pos) -> P {
    P {
        line: pos.line as u32,
        col: pos.column as u32,
        file: pos.file as u32,
        known: !pos.builtin,
    }
}
fn name(i: &Ident) -> Name {
    Name {
        p: p(&i.position),
        s: i.name.to_string(),
    }
}
pub fn value(x: &v::Value) -> Value {
    match x {
        v::Value::Variable(w) => Value::Var(p(&w.position), w.name.to_string()),
        v::Value::IntValue(w) => Value::Int(p(&w.position), w.value.to_string()),
        v::Value::FloatValue(w) => Value::Float(p(&w.position), w.value.to_string()),
        v::Value::StringValue(w) => Value::Str(p(&w.position), w.value.clone()),
        v::Value::BooleanValue(w) => Value::Bool(p(&w.position), w.value),
        v::Value::NullValue(w) => Value::Null(p(&w.position)),
        v::Value::EnumValue(w) => Value::Enum(p(&w.position), w.value.to_string()),
        v::Value::ListValue(w) => Value::List(p(&w.position), w.values.iter().map(value).collect()),
        v::Value::ObjectValue(w) => Value::Obj(
            p(&w.position),
            w.fields.iter().map(|(k, x)| (name(k), value(x))).collect(),
        ),
    }
}
pub fn ty(t: &Type) -> Ty {
    match t {
        Type::Named(n) => Ty::Named(name(&n.name)),
        Type::List(l) => Ty::List(p(&l.position), Box::new(ty(&l.r#type))),
        Type::NonNull(n) => Ty::NonNull(Box::new(ty(&n.r#type))),
    }
}
fn args(a: &Option<v::Arguments>) -> Option<Args> {
    a.as_ref().map(|a| Args {
        p: p(&a.position),
        items: a.arguments.iter().map(|(k, x)| (name(k), value(x))).collect(),
    })
}
pub fn dirs(ds: &[Directive]) -> Vec<Dir> {
    ds.iter()
        .map(|d| Dir {
            p: p(&d.position),
            name: name(&d.name),
            args: args(&d.arguments),
        })
        .collect()
}
pub fn selset(s: &SelectionSet) -> SelSet {
    SelSet {
        p: p(&s.position),
        items: s
            .selections
            .iter()
            .map(|x| match x {
                Selection::Field(f) => Sel::Field {
                    alias: f.alias.as_ref().map(name),
                    name: name(&f.name),
                    args: args(&f.arguments),
                    dirs: dirs(&f.directives),
                    sel: f.selection_set.as_ref().map(selset),
                },
                Selection::FragmentSpread(f) => Sel::Spread {
                    p: p(&f.position),
                    name: name(&f.fragment_name),
                    dirs: dirs(&f.directives),
                },
                Selection::InlineFragment(f) => Sel::Inline {
                    p: p(&f.position),
                    cond: f.type_condition.as_ref().map(name),
                    dirs: dirs(&f.directives),
                    sel: selset(&f.selection_set),
                },
            })
            .collect(),
    }
}
fn opkind(k: OperationType) -> OpKind {
    match k {
        OperationType::Query => OpKind::Query,
        OperationType::Mutation => OpKind::Mutation,
        OperationType::Subscription => OpKind::Subscription,
    }
}
fn vardefs(vd: &Option<VariablesDefinition>) -> Option<(P, Vec<VarDef>)> {
    vd.as_ref().map(|vd| {
        (
            p(&vd.position),
            vd.definitions
                .iter()
                .map(|d| VarDef {
                    p: p(&d.pos),
                    name: Name {
                        p: p(&d.name.position),
                        s: d.name.name.to_string(),
                    },
                    ty: ty(&d.r#type),
                    default: d.default_value.as_ref().map(value),
                    dirs: dirs(&d.directives),
                })
                .collect(),
        )
    })
}
fn op(o: &nitrogql_ast::operation::OperationDefinition) -> ExecDef {
    ExecDef::Op {
        p: p(&o.position),
        kind: opkind(o.operation_type),
        name: o.name.as_ref().map(name),
        vars: vardefs(&o.variables_definition),
        dirs: dirs(&o.directives),
        sel: selset(&o.selection_set),
    }
}
fn frag(f: &nitrogql_ast::operation::FragmentDefinition) -> ExecDef {
    ExecDef::Frag {
        p: p(&f.position),
        name: name(&f.name),
        cond: name(&f.type_condition),
        dirs: dirs(&f.directives),
        sel: selset(&f.selection_set),
    }
}
pub fn exec_ext(d: &OperationDocumentExt) -> ExecDoc {
    ExecDoc {
        defs: d
            .definitions
            .iter()
            .map(|x| match x {
                ExecutableDefinitionExt::OperationDefinition(o) => op(o),
                ExecutableDefinitionExt::FragmentDefinition(f) => frag(f),
                ExecutableDefinitionExt::Import(i) => ExecDef::Import {
                    p: p(&i.position),
                    targets: i
                        .targets
                        .iter()
                        .map(|t| match t {
                            ImportTarget::Wildcard => None,
                            ImportTarget::Name(n) => Some(name(n)),
                        })
                        .collect(),
                    path: (p(&i.path.position), i.path.value.clone()),
                },
            })
            .collect(),
    }
}
pub fn exec(d: &OperationDocument) -> ExecDoc {
    ExecDoc {
        defs: d
            .definitions
            .iter()
            .map(|x| match x {
                ExecutableDefinition::OperationDefinition(o) => op(o),
                ExecutableDefinition::FragmentDefinition(f) => frag(f),
            })
            .collect(),
    }
}

fn desc(d: &Option<v::StringValue>) -> Option<(P, String)> {
    d.as_ref().map(|s| (p(&s.position), s.value.clone()))
}
fn ivd(x: &ts::InputValueDefinition) -> InputValueDef {
    InputValueDef {
        desc: desc(&x.description),
        p: p(&x.position),
        name: name(&x.name),
        ty: ty(&x.r#type),
        default: x.default_value.as_ref().map(value),
        dirs: dirs(&x.directives),
    }
}
fn fields(fs: &[ts::FieldDefinition]) -> Vec<FieldDef> {
    fs.iter()
        .map(|f| FieldDef {
            desc: desc(&f.description),
            name: name(&f.name),
            args: f.arguments.as_ref().map(|a| a.input_values.iter().map(ivd).collect()),
            ty: ty(&f.r#type),
            dirs: dirs(&f.directives),
        })
        .collect()
}
fn enum_values(vs: &[ts::EnumValueDefinition]) -> Vec<EnumValDef> {
    vs.iter()
        .map(|x| EnumValDef {
            desc: desc(&x.description),
            name: name(&x.name),
            dirs: dirs(&x.directives),
        })
        .collect()
}
fn roots(rs: &[(OperationType, Ident)]) -> Vec<(OpKind, Name)> {
    rs.iter().map(|(k, n)| (opkind(*k), name(n))).collect()
}

fn base(kind: TsKind, ext: bool, pos: &Pos, n: Option<&Ident>, d: &Option<v::StringValue>) -> TsDef {
    let mut t = TsDef::new(kind, None);
    t.ext = ext;
    t.p_kw = p(pos);
    t.p_first = p(pos);
    t.name = n.map(name);
    t.desc = desc(d);
    t
}

pub fn type_def(x: &ts::TypeDefinition) -> TsDef {
    match x {
        ts::TypeDefinition::Scalar(s) => {
            let mut t = base(TsKind::Scalar, false, &s.position, Some(&s.name), &s.description);
            t.dirs = dirs(&s.directives);
            t
        }
        ts::TypeDefinition::Object(s) => {
            let mut t = base(TsKind::Object, false, &s.position, Some(&s.name), &s.description);
            t.dirs = dirs(&s.directives);
            t.implements = s.implements.iter().map(name).collect();
            t.fields = fields(&s.fields);
            t
        }
        ts::TypeDefinition::Interface(s) => {
            let mut t = base(TsKind::Interface, false, &s.position, Some(&s.name), &s.description);
            t.dirs = dirs(&s.directives);
            t.implements = s.implements.iter().map(name).collect();
            t.fields = fields(&s.fields);
            t
        }
        ts::TypeDefinition::Union(s) => {
            let mut t = base(TsKind::Union, false, &s.position, Some(&s.name), &s.description);
            t.dirs = dirs(&s.directives);
            t.members = s.members.iter().map(name).collect();
            t
        }
        ts::TypeDefinition::Enum(s) => {
            let mut t = base(TsKind::Enum, false, &s.position, Some(&s.name), &s.description);
            t.dirs = dirs(&s.directives);
            t.values = enum_values(&s.values);
            t
        }
        ts::TypeDefinition::InputObject(s) => {
            let mut t = base(TsKind::Input, false, &s.position, Some(&s.name), &s.description);
            t.dirs = dirs(&s.directives);
            t.input_fields = s.fields.iter().map(ivd).collect();
            t
        }
    }
}

pub fn schema_def(s: &ts::SchemaDefinition) -> TsDef {
    let mut t = base(TsKind::Schema, false, &s.position, None, &s.description);
    t.dirs = dirs(&s.directives);
    t.roots = roots(&s.definitions);
    t
}
pub fn directive_def(s: &ts::DirectiveDefinition) -> TsDef {
    let mut t = base(TsKind::Directive, false, &s.position, Some(&s.name), &s.description);
    t.dir_args = s.arguments.as_ref().map(|a| a.input_values.iter().map(ivd).collect());
    t.repeatable = s.repeatable.is_some();
    t.locations = s.locations.iter().map(name).collect();
    t
}

pub fn type_ext(x: &ts::TypeExtension) -> TsDef {
    let none = None;
    match x {
        ts::TypeExtension::Scalar(s) => {
            let mut t = base(TsKind::Scalar, true, &s.position, Some(&s.name), &none);
            t.dirs = dirs(&s.directives);
            t
        }
        ts::TypeExtension::Object(s) => {
            let mut t = base(TsKind::Object, true, &s.position, Some(&s.name), &none);
            t.dirs = dirs(&s.directives);
            t.implements = s.implements.iter().map(name).collect();
            t.fields = fields(&s.fields);
            t
        }
        ts::TypeExtension::Interface(s) => {
            let mut t = base(TsKind::Interface, true, &s.position, Some(&s.name), &none);
            t.dirs = dirs(&s.directives);
            t.implements = s.implements.iter().map(name).collect();
            t.fields = fields(&s.fields);
            t
        }
        ts::TypeExtension::Union(s) => {
            let mut t = base(TsKind::Union, true, &s.position, Some(&s.name), &none);
            t.dirs = dirs(&s.directives);
            t.members = s.members.iter().map(name).collect();
            t
        }
        ts::TypeExtension::Enum(s) => {
            let mut t = base(TsKind::Enum, true, &s.position, Some(&s.name), &none);
            t.dirs = dirs(&s.directives);
            t.values = enum_values(&s.values);
            t
        }
        ts::TypeExtension::InputObject(s) => {
            let mut t = base(TsKind::Input, true, &s.position, Some(&s.name), &none);
            t.dirs = dirs(&s.directives);
            t.input_fields = s.fields.iter().map(ivd).collect();
            t
        }
    }
}

pub fn ts_ext_doc(d: &nitrogql_ast::TypeSystemOrExtensionDocument) -> TsDoc {
    TsDoc {
        defs: d
            .definitions
            .iter()
            .map(|x| match x {
                ts::TypeSystemDefinitionOrExtension::SchemaDefinition(s) => schema_def(s),
                ts::TypeSystemDefinitionOrExtension::TypeDefinition(t) => type_def(t),
                ts::TypeSystemDefinitionOrExtension::DirectiveDefinition(d) => directive_def(d),
                ts::TypeSystemDefinitionOrExtension::SchemaExtension(s) => {
                    let mut t = base(TsKind::Schema, true, &s.position, None, &None);
                    t.dirs = dirs(&s.directives);
                    t.roots = roots(&s.definitions);
                    t
                }
                ts::TypeSystemDefinitionOrExtension::TypeExtension(e) => type_ext(e),
            })
            .collect(),
    }
}

pub fn ts_doc(d: &nitrogql_ast::TypeSystemDocument) -> TsDoc {
    TsDoc {
        defs: d
            .definitions
            .iter()
            .map(|x| match x {
                ts::TypeSystemDefinition::SchemaDefinition(s) => schema_def(s),
                ts::TypeSystemDefinition::TypeDefinition(t) => type_def(t),
                ts::TypeSystemDefinition::DirectiveDefinition(d) => directive_def(d),
            })
            .collect(),
    }
}
