use nqverif::{corpus::*, rparse, schema::Sch, valid_op, valid_ts, gql::*};
fn main() {
    let a: Vec<String> = std::env::args().collect();
    if a.len() > 1 && a[1] == "corpus" {
        let mut ts = rparse::parse_ts(SCHEMA_MAIN).unwrap();
        ts.defs.extend(rparse::parse_ts(SCHEMA_EXT).unwrap().defs);
        println!("schema findings: {:?}", valid_ts::validate(&ts));
        let sch = Sch::from_doc(&ts).unwrap();
        let mut op = rparse::parse_exec(OP_MAIN).unwrap();
        op.defs.retain(|d| !matches!(d, ExecDef::Import{..}));
        op.defs.extend(rparse::parse_exec(OP_FRAGS).unwrap().defs);
        println!("op findings: {:?}", valid_op::validate(&sch, &op));
        let op2 = rparse::parse_exec("query Q($a: Int, $a: Int, $u: User) { me { nope id { x } friends } ...F ...G @nope @skip users(filter: {zz: 1, kind: XX}, first: \"s\") { id } } fragment G on Kind { a } fragment H on Post { ...H } ").unwrap();
        for f in valid_op::validate(&sch, &op2) { println!("  {:?}", f); }
        return;
    }
    let t = std::fs::read_to_string(&a[2]).unwrap();
    if a[1] == "ts" {
        match nitrogql_parser::parse_type_system_document(&t) { Ok(_) => println!("ok"), Err(e) => { let pe: nitrogql_error::PositionedError = e.into(); println!("{:?}", pe) } }
        println!("ref: {:?}", nqverif::rparse::parse_ts(&t).map(|d| d.defs.len()));
    } else {
        match nitrogql_parser::parse_operation_document(&t) { Ok(_) => println!("ok"), Err(e) => { let pe: nitrogql_error::PositionedError = e.into(); println!("{:?}", pe) } }
        println!("ref: {:?}", nqverif::rparse::parse_exec(&t).map(|d| d.defs.len()));
    }
}
