use nqverif::{pipeline, c03, gen_sem};
fn main() {
    let a: Vec<String> = std::env::args().collect();
    let s = c03::subject_schema();
    let mut cfg = pipeline::default_config();
    cfg.generate.r#type.scalar_types.insert("Date".into(), nitrogql_config_file::ScalarTypeConfig::Single("string".into()));
    if a[1] == "schema" { println!("{}", pipeline::schema_dts(&s.doc, &cfg).unwrap().buffer); }
    if a[1] == "resolvers" { println!("{}", pipeline::resolvers_dts(&s.doc, &cfg, "./schema.js").unwrap().buffer); }
    if a[1] == "op" {
        let text = std::fs::read_to_string(&a[2]).unwrap();
        let ops = vec![(std::path::PathBuf::from("/p/a.graphql"), text)];
        let loaded = pipeline::load_operations(&ops, 1).map_err(|f| format!("{:?}", f.diags)).unwrap();
        let mut cfg = cfg;
        if a.len() > 3 { cfg.generate.mode = nitrogql_config_file::GenerateMode::StandaloneTS4_0; }
        for (_, d, _, _) in &loaded { println!("{}", pipeline::operation_dts(&s.schema, d, &cfg, "./schema.js").buffer); println!("---JS---\n{}", pipeline::operation_js(d, &cfg)); }
    }
    if a[1] == "server" {
        let texts = vec![std::fs::read_to_string(&a[2]).unwrap()];
        let parsed = pipeline::parse_schema_files(&texts).map_err(|f| format!("{:?}", f.diags)).unwrap();
        let doc = pipeline::resolve_and_check_schema(parsed).map_err(|f| format!("{:?}", f.diags)).unwrap();
        println!("{}", pipeline::server_graphql(&doc));
    }
    let _ = gen_sem::SEM_SCHEMA;
}
