fn main() {
    let a: Vec<String> = std::env::args().collect();
    let t = std::fs::read_to_string(&a[2]).unwrap();
    if a[1] == "ts" {
        match nitrogql_parser::parse_type_system_document(&t) { Ok(_) => println!("ok"), Err(e) => { let pe: nitrogql_error::PositionedError = e.into(); println!("{:?}", pe) } }
        println!("ref: {:?}", nqverif::rparse::parse_ts(&t).map(|d| d.defs.len()));
    } else {
        match nitrogql_parser::parse_operation_document(&t) { Ok(_) => println!("ok"), Err(e) => { let pe: nitrogql_error::PositionedError = e.into(); println!("{:?}", pe) } }
        println!("ref: {:?}", nqverif::rparse::parse_exec(&t).map(|d| d.defs.len()));
    }
}
