use nqverif::report::Args;

fn main() {
    let argv: Vec<String> = std::env::args().collect();
    if argv.len() < 2 {
        eprintln!("usage: nqv <property> [--tier quick|thorough] [--replay file]");
        std::process::exit(2);
    }
    let prop = argv[1].clone();
    if prop == "CHILD" {
        let code = match std::env::var("NQV_CHILD").as_deref() {
            Ok("loader-text") => nqverif::c08::child_loader_text(),
            Ok("c19") => nqverif::c19::child(),
            Ok("c17-probe") => nqverif::c17::child_probe(),
            Ok("c12-loader") => nqverif::c12::child_loader(),
            Ok("c03-generate") => nqverif::c03::child_generate(),
            other => {
                eprintln!("MACHINERY unknown child mode {other:?}");
                2
            }
        };
        std::process::exit(code);
    }
    let mut tier = std::env::var("VERIF_TIER").unwrap_or_else(|_| "quick".into());
    let mut replay = None;
    let mut threads = std::thread::available_parallelism().map(|n| n.get()).unwrap_or(8);
    let mut i = 2;
    while i < argv.len() {
        match argv[i].as_str() {
            "--tier" => {
                tier = argv[i + 1].clone();
                i += 2;
            }
            "--replay" => {
                replay = Some(argv[i + 1].clone());
                i += 2;
            }
            "--threads" => {
                threads = argv[i + 1].parse().unwrap();
                i += 2;
            }
            other => {
                eprintln!("MACHINERY unknown argument {other}");
                std::process::exit(2);
            }
        }
    }
    if tier != "quick" && tier != "thorough" {
        eprintln!("MACHINERY unknown tier {tier}");
        std::process::exit(2);
    }
    let args = Args { tier, replay, threads };
    if let Some(path) = &args.replay {
        let text = std::fs::read_to_string(path).unwrap_or_else(|e| {
            eprintln!("MACHINERY cannot read replay {path}: {e}");
            std::process::exit(2)
        });
        let v: serde_json::Value = serde_json::from_str(&text).expect("replay json");
        println!("replay property={} key={} what={}", v["property"], v["key"], v["what"]);
        let case = &v["case"];
        let code = match prop.as_str() {
            "C20" => nqverif::c20::replay(case),
            "C01" | "C02" => nqverif::c01::replay(case, &prop),
            "C03" | "C04" => nqverif::c03::replay(case),
            "C05" => nqverif::c05::replay(case),
            "C06" => nqverif::c06::replay(case),
            "C07" => nqverif::c07::replay(case),
            "C08" => nqverif::c08::replay(case),
            "C09" => nqverif::c09::replay(case),
            "C10" => nqverif::c10::replay(case),
            "C11" => nqverif::c11::replay(case),
            "C12" => nqverif::c12::replay(case),
            "C13" => nqverif::c13::replay(case),
            "C14" => nqverif::c14::replay(case),
            "C15" => nqverif::c15::replay(case),
            "C16" => nqverif::c16::replay(case),
            "C17" => nqverif::c17::replay(case),
            "C18" => nqverif::c18::replay(case),
            "C19" => nqverif::c19::replay(case),
            _ => {
                println!("{}", serde_json::to_string_pretty(case).unwrap());
                0
            }
        };
        std::process::exit(code);
    }
    let code = match prop.as_str() {
        "C20" => nqverif::c20::run(&args),
        "C01" | "C02" => nqverif::c01::run(&args, &prop),
        "C03" => nqverif::c03::run03(&args),
        "C04" => nqverif::c03::run04(&args),
        "C05" => nqverif::c05::run(&args),
        "C06" => nqverif::c06::run(&args),
        "C07" => nqverif::c07::run(&args),
        "C08" => nqverif::c08::run(&args),
        "C09" => nqverif::c09::run(&args),
        "C10" => nqverif::c10::run(&args),
        "C11" => nqverif::c11::run(&args),
        "C12" => nqverif::c12::run(&args),
        "C13" => nqverif::c13::run(&args),
        "C14" => nqverif::c14::run(&args),
        "C15" => nqverif::c15::run(&args),
        "C16" => nqverif::c16::run(&args),
        "C17" => nqverif::c17::run(&args),
        "C18" => nqverif::c18::run(&args),
        "C19" => nqverif::c19::run(&args),
        _ => {
            eprintln!("MACHINERY unknown property {prop}");
            2
        }
    };
    std::process::exit(code);
}
