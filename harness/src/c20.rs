//! C20 — relative and resolved paths are mutually inverse.
//!
//! Exhaustive over all pairs of absolute paths with at most N components over the
//! alphabet {x, xy, ., ..} (two names, one a string prefix of the other, so that a
//! string-level common-prefix computation is distinguishable from a component-level
//! one), never climbing above the root and ending in a file name.
//! Reference: component-list algebra (R-PATH) sharing no code with the subject.

use crate::explore::{DistinctSet, fnv, par_for};
use crate::report::{Args, Reporter, Violation};
use nitrogql_utils::{normalize_path, relative_path, resolve_relative_path};
use serde_json::json;
use std::path::Path;
use std::sync::atomic::{AtomicU64, Ordering};

const ALPHA: [&str; 4] = ["x", "xy", ".", ".."];

/// All absolute paths (as component lists) with 1..=n components, last one a name,
/// never climbing above root at any prefix.
fn gen_paths(n: usize) -> Vec<Vec<&'static str>> {
    let mut out = vec![];
    fn rec(
        cur: &mut Vec<&'static str>,
        depth: isize,
        n: usize,
        out: &mut Vec<Vec<&'static str>>,
    ) {
        if !cur.is_empty() {
            let last = *cur.last().unwrap();
            if last != "." && last != ".." {
                out.push(cur.clone());
            }
        }
        if cur.len() == n {
            return;
        }
        for c in ALPHA {
            let nd = match c {
                "." => depth,
                ".." => depth - 1,
                _ => depth + 1,
            };
            if nd < 0 {
                continue;
            }
            cur.push(c);
            rec(cur, nd, n, out);
            cur.pop();
        }
    }
    rec(&mut vec![], 0, n, &mut out);
    out
}

/// Relative path component lists: start with "." or "..", then alphabet, ending in a name.
fn gen_rel(n: usize) -> Vec<Vec<&'static str>> {
    let mut out = vec![];
    fn rec(cur: &mut Vec<&'static str>, n: usize, out: &mut Vec<Vec<&'static str>>) {
        let last = *cur.last().unwrap();
        if last != "." && last != ".." {
            out.push(cur.clone());
        }
        if cur.len() == n {
            return;
        }
        for c in ALPHA {
            cur.push(c);
            rec(cur, n, out);
            cur.pop();
        }
    }
    for first in [".", ".."] {
        rec(&mut vec![first], n, &mut out);
    }
    out
}

fn ref_normalize(comps: &[&str]) -> Option<Vec<String>> {
    let mut st: Vec<String> = vec![];
    for c in comps {
        match *c {
            "." | "" => {}
            ".." => {
                st.pop()?;
            }
            n => st.push(n.to_string()),
        }
    }
    Some(st)
}

fn abs_str(comps: &[&str]) -> String {
    format!("/{}", comps.join("/"))
}
fn abs_string(comps: &[String]) -> String {
    format!("/{}", comps.join("/"))
}

/// reference resolution of relative string `rel` against file path `a`
fn ref_resolve(a: &[&str], rel: &str) -> Option<Vec<String>> {
    let mut all: Vec<&str> = a.to_vec();
    all.pop();
    if rel.starts_with('/') {
        all.clear();
    }
    for c in rel.split('/') {
        all.push(c);
    }
    ref_normalize(&all)
}

pub fn run(args: &Args) -> i32 {
    let rep = Reporter::new("C20", &args.tier);
    let n = if args.quick() { 5 } else { 7 };
    let nrel = if args.quick() { 4 } else { 5 };
    let paths = gen_paths(n);
    let rels = gen_rel(nrel);
    let calls = AtomicU64::new(0);
    let pairs = AtomicU64::new(0);
    let skipped_prefix = AtomicU64::new(0);
    let distinct_outcomes = DistinctSet::new();
    let distinct_rel = DistinctSet::new();

    // 1. normalize: exact, idempotent, free of . and ..
    for p in &paths {
        let s = abs_str(p);
        let got = normalize_path(Path::new(&s));
        calls.fetch_add(2, Ordering::Relaxed);
        let want = abs_string(&ref_normalize(p).unwrap());
        let got_s = got.to_string_lossy().to_string();
        if got_s != want {
            rep.report(Violation {
                key: "normalize.mismatch".into(),
                what: format!("normalize_path({s}) = {got_s}, reference {want}"),
                case: json!({"op":"normalize","path":s,"got":got_s,"want":want}),
            });
        }
        let again = normalize_path(&got).to_string_lossy().to_string();
        if again != got_s {
            rep.report(Violation {
                key: "normalize.not_idempotent".into(),
                what: format!("normalize_path not idempotent on {s}: {got_s} -> {again}"),
                case: json!({"op":"normalize2","path":s,"got":got_s,"again":again}),
            });
        }
        if got_s.split('/').any(|c| c == "." || c == "..") {
            rep.report(Violation {
                key: "normalize.dots_left".into(),
                what: format!("normalize_path({s}) = {got_s} still contains . or .."),
                case: json!({"op":"normalize","path":s,"got":got_s}),
            });
        }
    }

    // 2. all pairs
    par_for(paths.len(), args.threads, |i| {
        let a = &paths[i];
        let a_s = abs_str(a);
        let na = ref_normalize(a).unwrap();
        let a_dir = &na[..na.len() - 1];
        for b in &paths {
            let nb = ref_normalize(b).unwrap();
            // excluded by the property: b is an ancestor directory of a
            if nb.len() <= a_dir.len() && a_dir[..nb.len()] == nb[..] {
                skipped_prefix.fetch_add(1, Ordering::Relaxed);
                continue;
            }
            pairs.fetch_add(1, Ordering::Relaxed);
            let b_s = abs_str(b);
            let want = abs_string(&nb);
            let rel = match std::panic::catch_unwind(|| {
                relative_path(Path::new(&a_s), Path::new(&b_s))
            }) {
                Ok(r) => r,
                Err(_) => {
                    rep.report(Violation {
                        key: "relative.panic".into(),
                        what: format!("relative_path({a_s}, {b_s}) panicked"),
                        case: json!({"op":"pair","a":a_s,"b":b_s}),
                    });
                    continue;
                }
            };
            let rel_s = rel.to_string_lossy().to_string();
            distinct_rel.insert(fnv(rel_s.as_bytes()));
            calls.fetch_add(2, Ordering::Relaxed);
            if !(rel_s.starts_with("./") || rel_s.starts_with("../")) {
                rep.report(Violation {
                    key: "relative.no_dot_prefix".into(),
                    what: format!("relative_path({a_s}, {b_s}) = {rel_s:?} does not start with ./ or ../"),
                    case: json!({"op":"pair","a":a_s,"b":b_s,"rel":rel_s}),
                });
            }
            // judged by the reference resolver (so that cancelling bugs do not hide)
            let ref_back = ref_resolve(a, &rel_s).map(|v| abs_string(&v));
            if ref_back.as_deref() != Some(want.as_str()) {
                rep.report(Violation {
                    key: "relative.wrong_target".into(),
                    what: format!("relative_path({a_s}, {b_s}) = {rel_s}, which denotes {ref_back:?}, not {want}"),
                    case: json!({"op":"pair","a":a_s,"b":b_s,"rel":rel_s,"denotes":ref_back,"want":want}),
                });
            }
            let back = resolve_relative_path(Path::new(&a_s), &rel)
                .to_string_lossy()
                .to_string();
            distinct_outcomes.insert(fnv(format!("{rel_s}|{back}").as_bytes()));
            if back != want {
                rep.report(Violation {
                    key: "roundtrip.mismatch".into(),
                    what: format!("resolve({a_s}, relative({a_s},{b_s})={rel_s}) = {back}, want {want}"),
                    case: json!({"op":"pair","a":a_s,"b":b_s,"rel":rel_s,"back":back,"want":want}),
                });
            }
        }
    });

    // 3. resolve_relative_path against the reference for every relative spelling
    let resolve_cases = AtomicU64::new(0);
    par_for(paths.len(), args.threads, |i| {
        let a = &paths[i];
        let a_s = abs_str(a);
        for r in &rels {
            let r_s = r.join("/");
            let Some(want) = ref_resolve(a, &r_s) else {
                continue; // climbs above root: outside the property
            };
            resolve_cases.fetch_add(1, Ordering::Relaxed);
            calls.fetch_add(1, Ordering::Relaxed);
            let got = resolve_relative_path(Path::new(&a_s), Path::new(&r_s))
                .to_string_lossy()
                .to_string();
            let want = abs_string(&want);
            if got != want {
                rep.report(Violation {
                    key: "resolve.mismatch".into(),
                    what: format!("resolve_relative_path({a_s}, {r_s}) = {got}, reference {want}"),
                    case: json!({"op":"resolve","a":a_s,"rel":r_s,"got":got,"want":want}),
                });
            }
        }
    });

    let npairs = pairs.load(Ordering::Relaxed);
    let nres = resolve_cases.load(Ordering::Relaxed);
    // the CLI clause: specifiers and sources[] of whole projects over output layouts
    let cli_layer = crate::e2e::c20_layer(&rep, args);
    let loader_layer = loader_layer(&rep, args);
    let cov = json!({
        "states": npairs + nres + paths.len() as u64,
        "transitions": calls.load(Ordering::Relaxed),
        "traces_validated_against_impl": npairs + nres + paths.len() as u64,
        "evaluations": npairs + nres + paths.len() as u64,
        "distinct_nontrivial": distinct_outcomes.len(),
        "rule": "every pair (a,b) of absolute paths with <= N components over {x,xy,.,..} ending in a name and never climbing above root, b not an ancestor directory of a; plus every (a, relative spelling) for resolve. distinct_nontrivial = distinct (relative path, resolved path) outcomes",
        "exhaustive": true,
        "bound": {"max_components": n, "max_relative_components": nrel},
        "paths": paths.len(),
        "pairs": npairs,
        "cli_layer(specifier and sources[] of generated projects)": cli_layer,
        "loader_layer(import chains across directories through the loader protocol)": loader_layer,
        "pairs_excluded_b_ancestor_of_a": skipped_prefix.load(Ordering::Relaxed),
        "resolve_cases": nres,
        "distinct_relative_paths_produced": distinct_rel.len(),
        "samples": [
            {"a": abs_str(&paths[paths.len()/3]), "b": abs_str(&paths[paths.len()/2])},
            {"a": abs_str(&paths[paths.len()-1]), "rel": rels[rels.len()/2].join("/")}
        ],
    });
    rep.finish(
        cov,
        vec![
            "reference path algebra (component lists) is correct".into(),
            "Unix path syntax; no symlinks; names without separators".into(),
        ],
    )
}

/// The loader clause: an import chain root -> middle -> leaf with each file in one of four directories, the
/// specifiers written in three styles, and a decoy of the leaf's base name wherever resolving the middle file's
/// import against the ROOT file's directory would look. The loader must ask for exactly the files the statements
/// name (the worker fails when it asks for a file the project does not have) and emit the real leaf.
fn loader_layer(rep: &Reporter, args: &Args) -> serde_json::Value {
    const DIRS: [&[&str]; 4] = [&["r"], &["r", "a"], &["r", "a", "b"], &["r", "c"]];
    fn spec(from: &[&str], to: &[&str], name: &str, style: usize) -> String {
        let common = from.iter().zip(to.iter()).take_while(|(a, b)| a == b).count();
        let ups = from.len() - common;
        let mut rest: Vec<String> = to[common..].iter().map(|s| s.to_string()).collect();
        rest.push(name.to_string());
        let rest = rest.join("/");
        match (style, ups) {
            (0, 0) => format!("./{rest}"),
            (1, 0) => rest,
            (2, 0) => format!("./zz/../{rest}"),
            (2, _) => format!("{}./{rest}", "../".repeat(ups)),
            _ => format!("{}{rest}", "../".repeat(ups)),
        }
    }
    let path = |d: &[&str], name: &str| format!("/{}/{name}", d.join("/"));
    let mut jobs = vec![];
    for d0 in 0..4 {
        for d1 in 0..4 {
            for d2 in 0..4 {
                for style in 0..3 {
                    jobs.push((d0, d1, d2, style));
                }
            }
        }
    }
    let pool = crate::worker::Pool::new("c12-loader", args.threads);
    let emitted = AtomicU64::new(0);
    let with_decoy = AtomicU64::new(0);
    thread_local! { static SLOT: std::cell::Cell<usize> = const { std::cell::Cell::new(usize::MAX) }; }
    let next = std::sync::atomic::AtomicUsize::new(0);
    par_for(jobs.len(), args.threads, |i| {
        let (d0, d1, d2, style) = jobs[i];
        let my = SLOT.with(|x| {
            if x.get() == usize::MAX {
                x.set(next.fetch_add(1, Ordering::Relaxed) % args.threads.max(1));
            }
            x.get()
        });
        let s_mid = spec(DIRS[d0], DIRS[d1], "mid.graphql", style);
        let s_leaf = spec(DIRS[d1], DIRS[d2], "leaf.graphql", style);
        let mut files = vec![
            (path(DIRS[d0], "root.graphql"), format!("#import Mid from \"{s_mid}\"\nquery ChainRoot {{ u {{ ...Mid }} }}\n")),
            (path(DIRS[d1], "mid.graphql"), format!("#import Leaf from \"{s_leaf}\"\nfragment Mid on User {{ id ...Leaf }}\n")),
            (path(DIRS[d2], "leaf.graphql"), "fragment Leaf on User { realLeaf }\n".to_string()),
        ];
        // where the leaf's specifier lands when it is (wrongly) read from the root file's directory
        let mut comps: Vec<String> = DIRS[d0].iter().map(|s| s.to_string()).collect();
        let mut above_root = false;
        for c in s_leaf.split('/') {
            match c {
                "." | "" => {}
                ".." => above_root |= comps.pop().is_none(),
                x => comps.push(x.to_string()),
            }
        }
        let decoy = format!("/{}", comps.join("/"));
        if !above_root && files.iter().all(|f| f.0 != decoy) {
            files.push((decoy, "fragment Leaf on User { decoyLeaf }\n".to_string()));
            with_decoy.fetch_add(1, Ordering::Relaxed);
        }
        let case = || json!({"op": "loader-chain", "files": files, "style": style});
        let pairs: Vec<serde_json::Value> = files.iter().map(|(p, t)| json!([p, t])).collect();
        match pool.ask(my, &json!({"text": "", "files": pairs, "strategy": i % 3})) {
            crate::worker::Answer::Done(v) => match v["js"].as_str() {
                Some(js) if js.contains("realLeaf") && !js.contains("decoyLeaf") && js.contains("ChainRoot") => {
                    emitted.fetch_add(1, Ordering::Relaxed);
                }
                Some(js) => rep.report(Violation { key: "loader.chain_resolves_to_another_file".into(), what: format!("the module of {} does not carry the leaf fragment its import chain names ({} -> {})", files[0].0, s_mid, s_leaf), case: json!({"case": case(), "js": js}) }),
                None => rep.report(Violation { key: "loader.chain_fails".into(), what: format!("the loader fails on an import chain across directories ({s_mid} -> {s_leaf}): {}", v["error"]), case: case() }),
            },
            crate::worker::Answer::Died { panic, status } => rep.report(Violation { key: "loader.trap".into(), what: format!("loader died: {panic:?} {status}"), case: case() }),
        }
    });
    json!({"chains": jobs.len(), "directories": DIRS.iter().map(|d| format!("/{}", d.join("/"))).collect::<Vec<_>>(), "specifier_styles": ["./x or ../x", "bare x or ../x", "with a redundant ./ or zz/../ segment"], "chains_with_a_decoy_file": with_decoy.load(Ordering::Relaxed), "modules_emitted_with_the_real_leaf": emitted.load(Ordering::Relaxed)})
}

pub fn replay(case: &serde_json::Value) -> i32 {
    if case["layer"].as_str() == Some("e2e") {
        return crate::e2e::replay(case, true);
    }
    match case["op"].as_str() {
        Some("pair") => {
            let a = case["a"].as_str().unwrap();
            let b = case["b"].as_str().unwrap();
            let rel = relative_path(Path::new(a), Path::new(b));
            let back = resolve_relative_path(Path::new(a), &rel);
            println!("relative_path({a},{b}) = {}", rel.display());
            println!("resolve_relative_path({a}, that) = {}", back.display());
            println!("normalize({b}) = {}", normalize_path(Path::new(b)).display());
        }
        Some("resolve") => {
            let a = case["a"].as_str().unwrap();
            let r = case["rel"].as_str().unwrap();
            println!(
                "resolve_relative_path({a},{r}) = {} (reference {})",
                resolve_relative_path(Path::new(a), Path::new(r)).display(),
                case["want"]
            );
        }
        _ => {
            let p = case["path"].as_str().unwrap_or("");
            println!("normalize({p}) = {}", normalize_path(Path::new(p)).display());
        }
    }
    0
}
