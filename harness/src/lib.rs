pub mod explore;
pub mod report;
pub mod c20;
