//! C19 — loader tasks are isolated and safe under any call sequence.
//!
//! E2 over call histories of the loader's real `extern "C"` ABI (reached through a shadow
//! library package), run in worker subprocesses because a panic in an `extern "C"` function
//! aborts. Every history runs on a fresh thread (fresh thread-local task table); after every
//! call all tasks ever issued, and never-issued ids, are probed and compared with a reference
//! model; `emit` is compared with the module a fresh task produces from the same files.

use crate::explore::{DistinctSet, fnv, par_for};
use crate::report::{Args, Reporter, Violation};
use crate::worker::{Answer, Pool};
use serde_json::{Value as J, json};
use std::collections::{BTreeMap, BTreeSet, HashMap};
use std::sync::Mutex;
use std::sync::atomic::{AtomicU64, Ordering};

/// the last one is a legal but not normalised spelling of the first (used by its own families only)
/// one of the names lies in a subdirectory: import specifiers are relative to the file that holds them, not to the root
pub const FILES: [&str; 4] = ["/p/a.graphql", "/p/b.graphql", "/p/sub/c.graphql", "/p/x/../a.graphql"];
/// (text, import specifiers, parses)
pub const SOURCES: [(&str, &[&str], bool); 8] = [
    ("query Q { a }\n", &[], true),
    ("#import F from \"./b.graphql\"\nquery Q { a ...F }\n", &["./b.graphql"], true),
    // three sources are multi-line CR LF texts (a checkout with autocrlf): a buffer that a line-end normalisation
    // would shrink, also for a root file that does not parse
    ("fragment F on T {\r\n  x\r\n}\r\n", &[], true),
    // sources 3 and 5 open with a comment of two-byte characters that starts at an odd / an even byte offset, so that
    // every byte offset from 2 to 80 lies inside a character in one of them
    ("#éééééééééééééééééééééééééééééééééééééééé\n#import * from \"./a.graphql\"\nfragment F on T { x }\n", &["./a.graphql"], true),
    ("query Q {\r\n  a\r\n", &[], false),
    ("# éééééééééééééééééééééééééééééééééééééééé\r\n#import * from \"./sub/c.graphql\"\r\n#import * from \"./b.graphql\"\r\nquery R {\r\n  r\r\n}\r\nfragment G on T { y }\r\n", &["./sub/c.graphql", "./b.graphql"], true),
    // same names as 2 and 0 with other bodies: re-supplying a file changes the module (explicit-call families only)
    ("fragment F on T { y z }\n", &[], true),
    ("query Q { b }\n", &[], true),
];
/// sources of the full alphabet (6 and 7 are used by the explicit-call families)
const N_FULL: u8 = 6;

#[derive(Clone, Copy, Debug, PartialEq, Eq, Hash)]
pub enum Op {
    Init(u8, u8),
    Load(u8, u8, u8),
    Free(u8),
    Req(u8),
    Emit(u8),
    /// load_config with configuration text k (shared by all tasks of the thread)
    Config(u8),
    /// get_log: writes the log into the result buffer
    Log,
}

/// configuration texts: the default naming, named exports with a suffix, and one that does not parse
pub const CONFIGS: [(&str, bool); 3] = [
    ("schema: ./s.graphql\n", true),
    ("schema: ./s.graphql\nextensions:\n  nitrogql:\n    generate:\n      name:\n        queryVariableSuffix: Doc\n        fragmentVariableSuffix: Frag\n      export:\n        defaultExportForOperation: false\n", true),
    ("schema: [\n", false),
];

fn op_json(o: &Op) -> J {
    match o {
        Op::Init(f, s) => json!(["init", f, s]),
        Op::Load(t, f, s) => json!(["load", t, f, s]),
        Op::Free(t) => json!(["free", t]),
        Op::Req(t) => json!(["req", t]),
        Op::Emit(t) => json!(["emit", t]),
        Op::Config(k) => json!(["config", k]),
        Op::Log => json!(["log"]),
    }
}
fn op_from(v: &J) -> Op {
    let n = |i: usize| v[i].as_u64().unwrap_or(0) as u8;
    match v[0].as_str().unwrap_or("") {
        "init" => Op::Init(n(1), n(2)),
        "load" => Op::Load(n(1), n(2), n(3)),
        "free" => Op::Free(n(1)),
        "req" => Op::Req(n(1)),
        "config" => Op::Config(n(1)),
        "log" => Op::Log,
        _ => Op::Emit(n(1)),
    }
}
fn op_show(o: &Op) -> String {
    match o {
        Op::Init(f, s) => format!("initiate({}, src{})", FILES[*f as usize], s),
        Op::Load(t, f, s) => format!("load(task#{t}, {}, src{})", FILES[*f as usize], s),
        Op::Free(t) => format!("free(task#{t})"),
        Op::Req(t) => format!("required(task#{t})"),
        Op::Emit(t) => format!("emit(task#{t})"),
        Op::Config(k) => format!("load_config(cfg{k})"),
        Op::Log => "get_log()".to_string(),
    }
}

// ---------------------------------------------------------------- ABI helpers (child side)

fn abi_str(s: &str) -> (*mut u8, usize) {
    let p = graphql_loader::alloc_string(s.len());
    unsafe { std::ptr::copy_nonoverlapping(s.as_ptr(), p, s.len()) };
    (p, s.len())
}
fn abi_free(p: (*mut u8, usize)) {
    unsafe { graphql_loader::free_string(p.0, p.1) };
}
fn abi_result() -> String {
    let p = graphql_loader::get_result_ptr();
    let n = graphql_loader::get_result_size();
    unsafe { String::from_utf8_lossy(std::slice::from_raw_parts(p, n)).into_owned() }
}
fn abi_initiate(file: &str, src: &str) -> usize {
    let (f, s) = (abi_str(file), abi_str(src));
    let id = graphql_loader::initiate_task(f.0, f.1, s.0, s.1);
    abi_free(f);
    abi_free(s);
    id
}
fn abi_load(id: usize, file: &str, src: &str) -> bool {
    let (f, s) = (abi_str(file), abi_str(src));
    let r = graphql_loader::load_file(id, f.0, f.1, s.0, s.1);
    abi_free(f);
    abi_free(s);
    r
}

#[derive(Clone, Debug)]
struct MTask {
    id: usize,
    root: String,
    files: BTreeMap<String, usize>,
    live: bool,
}

/// the file an import specifier names: the specifier joined to the directory of the file that holds it, `.` and `..` removed
fn import_target(holder: &str, spec: &str) -> String {
    let mut comps: Vec<&str> = holder.split('/').filter(|c| !c.is_empty()).collect();
    comps.pop();
    comps.extend(spec.split('/').filter(|c| !c.is_empty()));
    let mut out: Vec<&str> = vec![];
    for c in comps {
        match c {
            "." => {}
            ".." => {
                out.pop();
            }
            x => out.push(x),
        }
    }
    format!("/{}", out.join("/"))
}

fn expected_required(t: &MTask) -> BTreeSet<String> {
    let mut out = BTreeSet::new();
    for (holder, s) in &t.files {
        for spec in SOURCES[*s].1 {
            let imp = import_target(holder, spec);
            if !t.files.contains_key(&imp) {
                out.insert(imp);
            }
        }
    }
    out
}

/// the module (or failure) a fresh task produces from the same files, on a fresh thread
fn fresh_emit(root: &str, files: &BTreeMap<String, usize>, cfg: usize) -> (bool, String) {
    static CACHE: Mutex<Option<HashMap<String, (bool, String)>>> = Mutex::new(None);
    let key = format!("{root}|{files:?}|{cfg}");
    if let Some(v) = CACHE.lock().unwrap().get_or_insert_with(HashMap::new).get(&key) {
        return v.clone();
    }
    let root2 = root.to_string();
    let files2 = files.clone();
    let r = std::thread::spawn(move || {
        if cfg != 0 {
            let c = abi_str(CONFIGS[cfg].0);
            graphql_loader::load_config(c.0, c.1);
            abi_free(c);
        }
        let id = abi_initiate(&root2, SOURCES[files2[&root2]].0);
        if id == 0 {
            return (false, String::new());
        }
        for (f, s) in &files2 {
            if *f != root2 {
                abi_load(id, f, SOURCES[*s].0);
            }
        }
        let ok = graphql_loader::emit_js(id);
        let text = abi_result();
        graphql_loader::free_task(id);
        (ok, if ok { text } else { String::new() })
    })
    .join()
    .unwrap();
    CACHE.lock().unwrap().get_or_insert_with(HashMap::new).insert(key, r.clone());
    r
}

/// Runs one history on a fresh thread; Ok(stats) or Err((key, what)).
fn check_history(ops: Vec<Op>, probe_every_step: bool) -> Result<J, (String, String)> {
    std::thread::spawn(move || check_history_here(&ops, probe_every_step)).join().unwrap_or_else(|_| Err(("machinery.child_thread_panicked".into(), String::new())))
}

/// one required() or emit() call on the id denoted by `t`, judged against the model
fn judge_call(tasks: &[MTask], cfg: usize, t: usize, emit: bool, ctx: &str, calls: &mut u64, emits_ok: &mut u64) -> Result<(), (String, String)> {
    let (id, idx) = {
        if t < tasks.len() {
            (tasks[t].id, Some(t))
        } else {
            let max = tasks.iter().map(|x| x.id).max().unwrap_or(0);
            (max + 1 + (t - tasks.len()), None)
        }
    };
    let live = idx.is_some_and(|i| tasks[i].live);
    *calls += 1;
    if !emit {
        let r = graphql_loader::get_required_files(id);
        let text = abi_result();
        if r != live {
            let cls = if idx.is_none() { "never_issued_id" } else if !live { "freed_id" } else { "live_task" };
            return Err((format!("required.wrong_status:{cls}"), format!("{ctx}; then required(id {id}) returned {r}, expected {live}")));
        }
        if live {
            let got: Vec<&str> = text.split('\n').filter(|s| !s.is_empty()).collect();
            let set: BTreeSet<String> = got.iter().map(|s| s.to_string()).collect();
            let want = expected_required(&tasks[idx.unwrap()]);
            if set.len() != got.len() {
                return Err(("required.duplicates".into(), format!("{ctx}; then required(id {id}) lists a file twice: {got:?}")));
            }
            if set != want {
                return Err(("required.wrong_set".into(), format!("{ctx}; then required(id {id}) = {set:?}, expected {want:?}")));
            }
        } else if text.is_empty() {
            return Err(("required.no_error_text".into(), format!("{ctx}; then required(id {id}) failed without an error text")));
        }
        return Ok(());
    }
    let r = graphql_loader::emit_js(id);
    let text = abi_result();
    if !live {
        if r {
            let cls = if idx.is_none() { "never_issued_id" } else { "freed_id" };
            return Err((format!("emit.wrong_status:{cls}"), format!("{ctx}; then emit(id {id}) succeeded on an id that is not live")));
        }
        return Ok(());
    }
    let task = &tasks[idx.unwrap()];
    let (fok, ftext) = fresh_emit(&task.root, &task.files, cfg);
    if r != fok {
        return Err(("emit.differs_from_fresh_task:status".into(), format!("{ctx}; then emit(id {id}) returned {r} but a fresh task with the same files returns {fok}")));
    }
    if r {
        *emits_ok += 1;
        if text != ftext {
            return Err(("emit.differs_from_fresh_task:module".into(), format!("{ctx}; then emit(id {id}) differs from the module of a fresh task with the same files")));
        }
    }
    Ok(())
}

fn check_history_here(ops: &[Op], probe_every_step: bool) -> Result<J, (String, String)> {
    let mut tasks: Vec<MTask> = vec![];
    let mut cfg = 0usize;
    let mut calls = 0u64;
    let mut emits_ok = 0u64;
    let id_of = |tasks: &Vec<MTask>, t: u8| -> (usize, Option<usize>) {
        // (abi id, index into tasks) ; an index beyond the issued ones denotes a never-issued id
        let t = t as usize;
        if t < tasks.len() {
            (tasks[t].id, Some(t))
        } else {
            let max = tasks.iter().map(|x| x.id).max().unwrap_or(0);
            (max + 1 + (t - tasks.len()), None)
        }
    };
    for (step, op) in ops.iter().enumerate() {
        let ctx = format!("step {step} {}", op_show(op));
        calls += 1;
        match *op {
            Op::Init(f, s) => {
                let id = abi_initiate(FILES[f as usize], SOURCES[s as usize].0);
                if SOURCES[s as usize].2 {
                    if id == 0 {
                        return Err(("initiate.fails_on_valid_source".into(), format!("{ctx}: returned 0: {}", abi_result())));
                    }
                    if tasks.iter().any(|t| t.id == id) {
                        return Err(("initiate.id_reused".into(), format!("{ctx}: returned id {id}, which was issued before")));
                    }
                    let mut files = BTreeMap::new();
                    files.insert(FILES[f as usize].to_string(), s as usize);
                    tasks.push(MTask { id, root: FILES[f as usize].to_string(), files, live: true });
                } else {
                    if id != 0 {
                        return Err(("initiate.accepts_syntax_error".into(), format!("{ctx}: returned id {id} for a source that does not parse")));
                    }
                    if abi_result().is_empty() {
                        return Err(("initiate.no_error_text".into(), format!("{ctx}: failure without an error text")));
                    }
                }
            }
            Op::Load(t, f, s) => {
                let (id, idx) = id_of(&tasks, t);
                let r = abi_load(id, FILES[f as usize], SOURCES[s as usize].0);
                let live = idx.is_some_and(|i| tasks[i].live);
                let want = live && SOURCES[s as usize].2;
                if r != want {
                    let cls = if !live { "unknown_or_freed_id" } else { "live_task" };
                    return Err((format!("load.wrong_status:{cls}"), format!("{ctx}: returned {r}, expected {want}")));
                }
                if !r && abi_result().is_empty() {
                    return Err(("load.no_error_text".into(), format!("{ctx}: failure without an error text")));
                }
                if r {
                    tasks[idx.unwrap()].files.insert(FILES[f as usize].to_string(), s as usize);
                }
            }
            Op::Free(t) => {
                let (id, idx) = id_of(&tasks, t);
                graphql_loader::free_task(id);
                if let Some(i) = idx {
                    tasks[i].live = false;
                }
            }
            Op::Req(t) => judge_call(&tasks, cfg, t as usize, false, &ctx, &mut calls, &mut emits_ok)?,
            Op::Emit(t) => judge_call(&tasks, cfg, t as usize, true, &ctx, &mut calls, &mut emits_ok)?,
            Op::Config(k) => {
                let c = abi_str(CONFIGS[k as usize].0);
                let ok = graphql_loader::load_config(c.0, c.1);
                abi_free(c);
                if ok != CONFIGS[k as usize].1 {
                    return Err(("config.wrong_status".into(), format!("{ctx}: returned {ok}")));
                }
                // a configuration that does not parse leaves the loaded one in place
                if ok {
                    cfg = k as usize;
                }
            }
            Op::Log => graphql_loader::get_log(),
        }
        // probes: every id ever issued, and two never-issued ids - after every call, or (explicit-call
        // families, where required()/emit() are letters of the alphabet and nothing is called in
        // between) only after the last one
        if !probe_every_step && step + 1 != ops.len() {
            continue;
        }
        let n = tasks.len();
        for t in 0..n + 2 {
            judge_call(&tasks, cfg, t, false, &ctx, &mut calls, &mut emits_ok)?;
            judge_call(&tasks, cfg, t, true, &ctx, &mut calls, &mut emits_ok)?;
        }
    }
    Ok(json!({"calls": calls, "emits_ok": emits_ok, "tasks": tasks.len()}))
}

pub fn child() -> i32 {
    crate::worker::serve(|req| {
        let ops: Vec<Op> = req["ops"].as_array().map(|a| a.iter().map(op_from).collect()).unwrap_or_default();
        // the loader's debug mode (`init(1)`, NITROGQL_DEBUG in the bundler plugins): once per process; every call then
        // formats its log line, and the log is drained after each history
        static DEBUG_ON: std::sync::Once = std::sync::Once::new();
        let debug = req["debug"].as_bool() == Some(true);
        if debug {
            DEBUG_ON.call_once(|| graphql_loader::init(1));
        }
        let r = check_history(ops, req["probes"].as_str() != Some("end-only"));
        if debug {
            graphql_loader::get_log();
        }
        match r {
            Ok(stats) => json!({"ok": stats}),
            Err((k, w)) => json!({"err": [k, w]}),
        }
    })
}

fn alphabet(files: usize, sources: &[u8], tasks: u8, with_probes: bool) -> Vec<Op> {
    let fs: Vec<u8> = (0..files as u8).collect();
    alphabet_on(&fs, sources, tasks, with_probes)
}

fn alphabet_on(files: &[u8], sources: &[u8], tasks: u8, with_probes: bool) -> Vec<Op> {
    let mut v = vec![];
    for &f in files {
        for &s in sources {
            v.push(Op::Init(f, s));
        }
    }
    for t in 0..tasks {
        for &f in files {
            for &s in sources {
                v.push(Op::Load(t, f, s));
            }
        }
    }
    for t in 0..tasks {
        v.push(Op::Free(t));
    }
    if with_probes {
        for t in 0..tasks {
            v.push(Op::Req(t));
            v.push(Op::Emit(t));
        }
    }
    v
}

/// the explicit-call alphabet plus the calls that are not about one task: load_config and get_log
fn alphabet_with_config(files: usize, sources: &[u8], tasks: u8) -> Vec<Op> {
    let mut v = alphabet(files, sources, tasks, true);
    for k in 0..CONFIGS.len() as u8 {
        v.push(Op::Config(k));
    }
    v.push(Op::Log);
    v
}

pub fn run(args: &Args) -> i32 {
    let rep = Reporter::new("C19", &args.tier);
    let pool = Pool::new("c19", args.threads);
    let histories = AtomicU64::new(0);
    let calls = AtomicU64::new(0);
    let emits = AtomicU64::new(0);
    let nontrivial = AtomicU64::new(0);
    let distinct = DistinctSet::new();
    let mut fam = serde_json::Map::new();
    // (name, alphabet, depth)
    let all: Vec<u8> = (0..N_FULL).collect();
    let mut plans = vec![("full-alphabet", alphabet(3, &all, 3, false), if args.quick() { 3 } else { 3 })];
    if args.quick() {
        plans.push(("2files-3sources-depth4", alphabet(2, &[1, 3, 4], 2, false), 4));
        // a file name with a `..` segment, as root and as supplied file, next to its normalised spelling
        plans.push(("not-normalised-name:3names-3sources-1task-depth3", alphabet_on(&[0, 1, 3], &[0, 1, 3], 1, false), 3));
        // required()/emit() as letters, nothing called between the letters: one task, files re-supplied with other bodies
        plans.push(("explicit-calls:2files-5sources-1task-depth4", alphabet(2, &[0, 1, 2, 6, 7], 1, true), 4));
        plans.push(("explicit-calls+config+log:1file-2sources-1task-depth4", alphabet_with_config(1, &[0, 2], 1), 4));
    } else {
        plans.push(("3files-4sources-2tasks-depth4", alphabet(3, &[1, 2, 3, 4], 2, false), 4));
        plans.push(("2files-3sources-2tasks-depth5", alphabet(2, &[1, 3, 4], 2, false), 5));
        plans.push(("probes-as-operations-depth4", alphabet(2, &[1, 3], 2, true), 4));
        plans.push(("not-normalised-name:3names-4sources-2tasks-depth4", alphabet_on(&[0, 1, 3], &[0, 1, 2, 3], 2, false), 4));
        plans.push(("explicit-calls:2files-5sources-2tasks-depth4", alphabet(2, &[0, 1, 2, 6, 7], 2, true), 4));
        plans.push(("explicit-calls:2files-4sources-1task-depth5", alphabet(2, &[0, 1, 2, 6], 1, true), 5));
        plans.push(("explicit-calls+config+log:2files-3sources-1task-depth5", alphabet_with_config(2, &[1, 2, 6], 1), 5));
    }
    // AddressSanitizer pass: the same engine, served by the sanitizer build of this binary
    let asan_exe = std::env::var("NQV_ASAN_EXE").ok().filter(|p| std::path::Path::new(p).exists());
    let asan_dir = format!("{}/c19-asan-{}", std::env::var("NQV_TMP").unwrap_or_else(|_| "/verif/.build/tmp".into()), std::process::id());
    let asan_pool = asan_exe.as_ref().map(|exe| {
        let _ = std::fs::create_dir_all(&asan_dir);
        Pool::with_exe(
            Some(exe.clone()),
            "c19",
            args.threads,
            vec![("ASAN_OPTIONS".to_string(), format!("detect_leaks=0:abort_on_error=0:exitcode=86:log_path={asan_dir}/asan"))],
        )
    });
    let mut plans: Vec<(&str, Vec<Op>, usize, bool)> = plans.into_iter().map(|(n, a, d)| (n, a, d, false)).collect();
    // the same engine with the loader in debug mode (worker processes of their own)
    let debug_pool = Pool::new("c19", args.threads);
    if args.quick() {
        plans.push(("debug-log:2files-4sources-2tasks-depth3", alphabet(2, &[1, 2, 3, 5], 2, false), 3, false));
    } else {
        plans.push(("debug-log:3files-6sources-2tasks-depth3", alphabet(3, &all, 2, false), 3, false));
        plans.push(("debug-log:2files-3sources-2tasks-depth4", alphabet(2, &[1, 3, 5], 2, false), 4, false));
    }
    if asan_pool.is_some() {
        if args.quick() {
            plans.push(("asan:2files-5sources-2tasks-depth3", alphabet(2, &[1, 2, 3, 4, 5], 2, false), 3, true));
            plans.push(("asan:2files-2sources-2tasks-depth4", alphabet(2, &[1, 3], 2, false), 4, true));
        } else {
            plans.push(("asan:full-alphabet-depth3", alphabet(3, &all, 3, false), 3, true));
            plans.push(("asan:2files-3sources-2tasks-depth4", alphabet(2, &[1, 3, 4], 2, false), 4, true));
            plans.push(("asan:2files-2sources-2tasks-depth5", alphabet(2, &[1, 3], 2, false), 5, true));
        }
    }
    let asan_histories = AtomicU64::new(0);
    for (name, alpha, depth, asan) in plans {
        let debug = name.starts_with("debug-log");
        let pool: &Pool = if asan { asan_pool.as_ref().unwrap() } else if debug { &debug_pool } else { &pool };
        let a = alpha.len();
        let before = histories.load(Ordering::Relaxed);
        // only maximal-length histories are sent: every prefix is checked on the way
        let len = depth;
        let total = a.pow(len as u32);
        let heads = a.pow(2.min(len) as u32);
        let tail = total / heads;
        let slot_ctr = std::sync::atomic::AtomicUsize::new(0);
        par_for(heads, args.threads, |h| {
            let slot = slot_ctr.fetch_add(1, Ordering::Relaxed);
            let mut ops = vec![alpha[0]; len];
            let mut hh = h;
            for s in ops.iter_mut().take(2.min(len)) {
                *s = alpha[hh % a];
                hh /= a;
            }
            for t in 0..tail {
                let mut tt = t;
                for s in ops.iter_mut().skip(2) {
                    *s = alpha[tt % a];
                    tt /= a;
                }
                histories.fetch_add(1, Ordering::Relaxed);
                if asan {
                    asan_histories.fetch_add(1, Ordering::Relaxed);
                }
                let worker_pid = if asan { pool.pid(slot) } else { 0 };
                let req = json!({"ops": ops.iter().map(op_json).collect::<Vec<_>>(), "debug": debug, "probes": if name.starts_with("explicit-calls") { "end-only" } else { "every-step" }});
                let case = || json!({"ops": ops.iter().map(op_json).collect::<Vec<_>>(), "shown": ops.iter().map(op_show).collect::<Vec<_>>(), "probes": if name.starts_with("explicit-calls") { "end-only" } else { "every-step" }});
                match pool.ask(slot, &req) {
                    Answer::Done(v) => {
                        if let Some(e) = v.get("err") {
                            rep.report(Violation {
                                key: e[0].as_str().unwrap_or("?").to_string(),
                                what: e[1].as_str().unwrap_or("?").to_string(),
                                case: case(),
                            });
                        } else {
                            let st = &v["ok"];
                            calls.fetch_add(st["calls"].as_u64().unwrap_or(0), Ordering::Relaxed);
                            let e = st["emits_ok"].as_u64().unwrap_or(0);
                            emits.fetch_add(e, Ordering::Relaxed);
                            if e > 0 {
                                nontrivial.fetch_add(1, Ordering::Relaxed);
                            }
                            distinct.insert(fnv(format!("{ops:?}").as_bytes()));
                        }
                    }
                    Answer::Died { panic, status } if asan && panic.is_none() => {
                        // the sanitizer's report is in its log file
                        let log = std::fs::read_to_string(format!("{asan_dir}/asan.{worker_pid}")).unwrap_or_default();
                        let kind = log.lines().find_map(|l| l.split("ERROR: AddressSanitizer: ").nth(1)).map(|r| r.split(" on ").next().unwrap_or("?").split(" in ").next().unwrap_or("?").split(':').next().unwrap_or("?").trim().replace(' ', "-")).unwrap_or_else(|| "no-report".into());
                        let frame = log.lines().filter(|l| l.trim_start().starts_with('#')).find(|l| l.contains("/crates/")).map(|l| l.trim().to_string()).unwrap_or_default();
                        let site = frame.split("/crates/").nth(1).map(|x| format!("crates/{}", x.split(':').next().unwrap_or(""))).unwrap_or_else(|| "?".into());
                        rep.report(Violation {
                            key: format!("asan:{kind}@{site}"),
                            what: format!("AddressSanitizer: {kind} (process {status}); first frame in the repository: {frame}"),
                            case: json!({"ops": ops.iter().map(op_json).collect::<Vec<_>>(), "shown": ops.iter().map(op_show).collect::<Vec<_>>(), "asan_report": log.chars().take(6000).collect::<String>()}),
                        });
                    }
                    Answer::Died { panic, status } => {
                        let (site, msg) = panic.unwrap_or(("no-panic-message".into(), status.clone()));
                        let p = crate::util::Panic { site, msg };
                        rep.report(Violation {
                            key: format!("trap@{}", p.key()),
                            what: format!("the loader trapped (process {status}) at {}: {}", p.site, p.msg),
                            case: case(),
                        });
                    }
                }
            }
        });
        fam.insert(name.to_string(), json!({"alphabet": a, "depth": depth, "histories": histories.load(Ordering::Relaxed) - before}));
    }
    let n = histories.load(Ordering::Relaxed);
    let cov = json!({
        "states": distinct.len(),
        "transitions": calls.load(Ordering::Relaxed),
        "traces_validated_against_impl": n,
        "evaluations": n,
        "distinct_nontrivial": nontrivial.load(Ordering::Relaxed),
        "rule": "every history of exactly `depth` calls over the alphabets below (prefixes are checked on the way); in the initiate/load/free families all issued ids and two never-issued ids are probed with required() and emit() after every call; in the explicit-calls families required()/emit() are letters themselves, judged as they occur, with nothing called in between (probes only after the last call); non-trivial = at least one emit succeeded and was compared with a fresh task's module",
        "exhaustive": true,
        "families": fam,
        "address_sanitizer_pass": if asan_pool.is_some() { json!({"histories": asan_histories.load(Ordering::Relaxed), "build": "nightly -Zsanitizer=address, leak detection off (the ABI leaks the 24-byte String header of alloc_string by design)"}) } else { json!("not run: the sanitizer build is not available") },
        "abi_calls": calls.load(Ordering::Relaxed),
        "emit_modules_compared_with_fresh_task": emits.load(Ordering::Relaxed),
        "samples": [["initiate(/p/a.graphql, src1)", "load(task#0, /p/b.graphql, src3)", "free(task#0)", "then probes on ids 1,2,3"]],
    });
    let _ = std::fs::remove_dir_all(&asan_dir);
    rep.finish(
        cov,
        vec![
            "reference model: a task is its set of supplied files; required = unresolved import targets; emit = what a fresh task (fresh thread) produces from the same files".into(),
            "file names are supplied in the normalised form the loader asks for; the id numbering itself is not prescribed, only that ids are never reused".into(),
            "the result buffer is read only after calls for which the protocol defines one".into(),
        ],
    )
}

pub fn replay(case: &J) -> i32 {
    let mut w = crate::worker::Worker::spawn("c19");
    for s in case["shown"].as_array().unwrap_or(&vec![]) {
        println!("  {}", s.as_str().unwrap_or(""));
    }
    println!("worker answer: {:?}", w.ask(&json!({"ops": case["ops"], "probes": case["probes"]})));
    0
}
