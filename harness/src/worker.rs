//! Worker subprocesses for subjects that can abort the process (the loader's `extern "C"` ABI:
//! a panic there is a trap). JSON-lines protocol over stdin/stdout; a dead child is a verdict
//! about the case in flight, never about the harness.

use serde_json::{Value as J, json};
use std::io::{BufRead, BufReader, Write};
use std::process::{Child, ChildStdin, ChildStdout, Command, Stdio};
use std::sync::Mutex;

pub struct Worker {
    child: Child,
    stdin: ChildStdin,
    stdout: BufReader<ChildStdout>,
}

#[derive(Debug, Clone)]
pub enum Answer {
    Done(J),
    /// the child died; panic line (site|msg) if it printed one, and the exit status text
    Died { panic: Option<(String, String)>, status: String },
}

impl Worker {
    pub fn spawn(mode: &str) -> Worker {
        Self::spawn_exe(None, mode, &[])
    }
    /// `exe`: another build of this binary (e.g. the AddressSanitizer build) to serve the requests
    pub fn spawn_exe(exe: Option<&str>, mode: &str, env: &[(String, String)]) -> Worker {
        let exe = match exe {
            Some(e) => std::path::PathBuf::from(e),
            None => std::env::current_exe().expect("current_exe"),
        };
        let mut child = Command::new(exe)
            .arg("CHILD")
            .env("NQV_CHILD", mode)
            .env("NQV_CHILD_ABORT_ON_PANIC", "1")
            .env("RUST_BACKTRACE", "0")
            .env("RUST_LIB_BACKTRACE", "0")
            .envs(env.iter().map(|(k, v)| (k.as_str(), v.as_str())))
            .stdin(Stdio::piped())
            .stdout(Stdio::piped())
            .stderr(Stdio::null())
            .spawn()
            .unwrap_or_else(|e| crate::report::machinery(&format!("cannot spawn worker: {e}")));
        let stdin = child.stdin.take().unwrap();
        let stdout = BufReader::new(child.stdout.take().unwrap());
        Worker { child, stdin, stdout }
    }
    /// Send one request; on child death the worker must be replaced by the caller.
    pub fn ask(&mut self, req: &J) -> Answer {
        let line = serde_json::to_string(req).unwrap();
        if self.stdin.write_all(line.as_bytes()).is_err() || self.stdin.write_all(b"\n").is_err() || self.stdin.flush().is_err() {
            return self.dead(None);
        }
        let mut panic = None;
        loop {
            let mut buf = String::new();
            match self.stdout.read_line(&mut buf) {
                Ok(0) | Err(_) => return self.dead(panic),
                Ok(_) => {}
            }
            let l = buf.trim_end();
            if let Some(rest) = l.strip_prefix("PANIC ") {
                let (s, m) = rest.split_once('|').unwrap_or((rest, ""));
                // keep the first panic: the second one is the runtime's "cannot unwind" abort
                if panic.is_none() {
                    panic = Some((s.to_string(), m.to_string()));
                }
            } else if let Some(rest) = l.strip_prefix("DONE ") {
                return Answer::Done(serde_json::from_str(rest).unwrap_or(J::Null));
            }
        }
    }
    fn dead(&mut self, panic: Option<(String, String)>) -> Answer {
        let status = match self.child.wait() {
            Ok(s) => format!("{s:?}"),
            Err(e) => format!("wait failed: {e}"),
        };
        Answer::Died { panic, status }
    }
}

impl Drop for Worker {
    fn drop(&mut self) {
        let _ = self.child.kill();
        let _ = self.child.wait();
    }
}

pub struct Pool {
    mode: String,
    exe: Option<String>,
    env: Vec<(String, String)>,
    workers: Vec<Mutex<Worker>>,
}

impl Pool {
    pub fn new(mode: &str, n: usize) -> Pool {
        Self::with_exe(None, mode, n, vec![])
    }
    pub fn with_exe(exe: Option<String>, mode: &str, n: usize, env: Vec<(String, String)>) -> Pool {
        Pool {
            mode: mode.to_string(),
            workers: (0..n.max(1)).map(|_| Mutex::new(Worker::spawn_exe(exe.as_deref(), mode, &env))).collect(),
            exe,
            env,
        }
    }
    pub fn ask(&self, slot: usize, req: &J) -> Answer {
        let mut w = self.workers[slot % self.workers.len()].lock().unwrap();
        let a = w.ask(req);
        if matches!(a, Answer::Died { .. }) {
            *w = Worker::spawn_exe(self.exe.as_deref(), &self.mode, &self.env);
        }
        a
    }
    /// process id of the worker currently serving `slot` (to find a sanitizer's log file)
    pub fn pid(&self, slot: usize) -> u32 {
        self.workers[slot % self.workers.len()].lock().unwrap().child.id()
    }
    pub fn len(&self) -> usize {
        self.workers.len()
    }
    pub fn is_empty(&self) -> bool {
        self.workers.is_empty()
    }
}

/// Child side: install a hook that prints `PANIC site|msg` (the process then aborts if the panic
/// crosses an `extern "C"` boundary), then serve requests with `handle`.
pub fn serve(mut handle: impl FnMut(&J) -> J) -> i32 {
    std::panic::set_hook(Box::new(|info| {
        let loc = info.location().map(|l| format!("{}:{}", l.file(), l.line())).unwrap_or_else(|| "?".into());
        let msg = if let Some(s) = info.payload().downcast_ref::<&str>() {
            s.to_string()
        } else if let Some(s) = info.payload().downcast_ref::<String>() {
            s.clone()
        } else {
            "?".into()
        };
        let site = loc.find("/repo/crates/").map_or(loc.as_str(), |i| &loc[i + 6..]).to_string();
        let out = std::io::stdout();
        let mut o = out.lock();
        let _ = writeln!(o, "PANIC {}|{}", site, msg.replace('\n', " "));
        let _ = o.flush();
        if std::env::var("NQV_CHILD_ABORT_ON_PANIC").is_ok() {
            std::process::abort();
        }
    }));
    let stdin = std::io::stdin();
    for line in stdin.lock().lines() {
        let Ok(line) = line else { break };
        if line.is_empty() {
            continue;
        }
        let req: J = match serde_json::from_str(&line) {
            Ok(v) => v,
            Err(e) => json!({"bad_request": e.to_string()}),
        };
        let ans = handle(&req);
        let out = std::io::stdout();
        let mut o = out.lock();
        let _ = writeln!(o, "DONE {}", serde_json::to_string(&ans).unwrap());
        let _ = o.flush();
    }
    0
}
