//! C08 — no input text makes the toolchain panic, abort or hang.
//!
//! Exhaustive bounded families of texts, each pushed as far through the pipeline as it gets
//! (parse -> extension / import resolution -> check -> generation -> diagnostic rendering), as
//! operation text, as schema text, through the loader ABI and (for configs) parse_config.
//! Findings are identified by panic site (file + normalised message).

use crate::corpus::*;
use crate::explore::{DistinctSet, fnv, par_for};
use crate::pipeline::{self, Failure};
use crate::report::{Args, Reporter, Violation};
use crate::rparse;
use crate::util::{Panic, catch};
use graphql_type_system::Schema;
use nitrogql_ast::TypeSystemDocument;
use nitrogql_ast::base::Pos;
use nitrogql_error::print_positioned_error;
use serde_json::{Value as J, json};
use std::borrow::Cow;
use std::collections::BTreeMap;
use std::path::PathBuf;
use std::sync::atomic::{AtomicU64, Ordering};
use std::sync::{Mutex, OnceLock};
use std::time::{Duration, Instant};

pub struct Base {
    pub schema_texts: Vec<String>,
    pub doc: TypeSystemDocument<'static>,
    pub schema: Schema<Cow<'static, str>, Pos>,
}

pub fn base() -> &'static Base {
    static B: OnceLock<Base> = OnceLock::new();
    B.get_or_init(|| {
        let texts: &'static Vec<String> = Box::leak(Box::new(vec![SCHEMA_MAIN.to_string(), SCHEMA_EXT.to_string()]));
        let parsed = pipeline::parse_schema_files(texts).unwrap_or_else(|_| crate::report::machinery("corpus schema does not parse"));
        let doc = pipeline::resolve_and_check_schema(parsed).unwrap_or_else(|f| {
            crate::report::machinery(&format!("corpus schema is rejected: {:?}", f.diags))
        });
        let doc: &'static TypeSystemDocument<'static> = Box::leak(Box::new(doc));
        let schema = pipeline::to_schema(doc);
        Base {
            schema_texts: texts.clone(),
            doc: doc.clone(),
            schema,
        }
    })
}

fn render_all(f: Failure, schema_texts: &[String], ops: &[(PathBuf, String)]) -> usize {
    let table = pipeline::file_table(schema_texts, ops);
    let mut n = 0;
    for e in f.rendered_inputs.iter() {
        let s = print_positioned_error(e, &table);
        n += s.len();
    }
    n
}

/// text as an operation file next to a fragments file, against the corpus schema
pub fn run_op_text(t: &str) -> &'static str {
    let b = base();
    let ops = vec![
        (PathBuf::from("/p/src/a.graphql"), t.to_string()),
        (PathBuf::from("/p/src/frags.graphql"), OP_FRAGS.to_string()),
    ];
    let loaded = match pipeline::load_operations(&ops, b.schema_texts.len()) {
        Ok(l) => l,
        Err(f) => {
            let stage = f.diags[0].stage;
            render_all(f, &b.schema_texts, &ops);
            return stage;
        }
    };
    if let Err(f) = pipeline::check_operations(&b.schema, &loaded) {
        render_all(f, &b.schema_texts, &ops);
        return "check-operation";
    }
    let mut cfg = pipeline::default_config();
    for mode in [
        nitrogql_config_file::GenerateMode::WithLoaderTS5_0,
        nitrogql_config_file::GenerateMode::StandaloneTS4_0,
    ] {
        cfg.generate.mode = mode;
        for (_, doc, _, _) in &loaded {
            let _ = pipeline::operation_dts(&b.schema, doc, &cfg, "./schema.js");
            let _ = pipeline::operation_js(doc, &cfg);
        }
    }
    "generated"
}

/// text as (the only) schema file; a fixed operation is then checked and printed against it
pub fn run_schema_text(t: &str) -> &'static str {
    let texts = vec![t.to_string()];
    let ops = vec![(PathBuf::from("/p/src/a.graphql"), "query { __typename }".to_string())];
    let parsed = match pipeline::parse_schema_files(&texts) {
        Ok(p) => p,
        Err(f) => {
            render_all(f, &texts, &ops);
            return "parse-schema";
        }
    };
    let doc = match pipeline::resolve_and_check_schema(parsed) {
        Ok(d) => d,
        Err(f) => {
            let stage = f.diags[0].stage;
            render_all(f, &texts, &ops);
            return stage;
        }
    };
    let cfg = pipeline::default_config();
    let _ = pipeline::schema_dts(&doc, &cfg);
    let _ = pipeline::resolvers_dts(&doc, &cfg, "./schema.js");
    let _ = pipeline::server_graphql(&doc);
    let schema = pipeline::to_schema(&doc);
    match pipeline::load_operations(&ops, 1) {
        Ok(loaded) => {
            if let Err(f) = pipeline::check_operations(&schema, &loaded) {
                render_all(f, &texts, &ops);
                return "schema-ok/op-rejected";
            }
            for (_, d, _, _) in &loaded {
                let _ = pipeline::operation_dts(&schema, d, &cfg, "./schema.js");
            }
            "schema-ok/generated"
        }
        Err(f) => {
            render_all(f, &texts, &ops);
            "schema-ok/op-load-failed"
        }
    }
}

fn abi_str(s: &str) -> (*mut u8, usize) {
    let p = graphql_loader::alloc_string(s.len());
    unsafe { std::ptr::copy_nonoverlapping(s.as_ptr(), p, s.len()) };
    (p, s.len())
}
fn abi_result() -> String {
    let p = graphql_loader::get_result_ptr();
    let n = graphql_loader::get_result_size();
    unsafe { String::from_utf8_lossy(std::slice::from_raw_parts(p, n)).into_owned() }
}

/// text through the loader ABI, no prior check: initiate, required files, load the fragment file, emit
pub fn run_loader_text(t: &str) -> &'static str {
    let (fp, fl) = abi_str("/p/src/a.graphql");
    let (sp, sl) = abi_str(t);
    let id = graphql_loader::initiate_task(fp, fl, sp, sl);
    unsafe {
        graphql_loader::free_string(fp, fl);
        graphql_loader::free_string(sp, sl);
    }
    if id == 0 {
        let _ = abi_result();
        return "loader:initiate-failed";
    }
    let mut out = "loader:emitted";
    if graphql_loader::get_required_files(id) {
        let req = abi_result();
        for f in req.lines() {
            if f == "/p/src/frags.graphql" {
                let (fp, fl) = abi_str(f);
                let (sp, sl) = abi_str(OP_FRAGS);
                graphql_loader::load_file(id, fp, fl, sp, sl);
                unsafe {
                    graphql_loader::free_string(fp, fl);
                    graphql_loader::free_string(sp, sl);
                }
            }
        }
    }
    // runs only inside a worker subprocess: a panic in an extern "C" function aborts it
    let ok = graphql_loader::emit_js(id);
    let _ = abi_result();
    graphql_loader::free_task(id);
    if !ok {
        out = "loader:emit-failed";
    }
    out
}

/// import statement forms of file `x` (fragment F<X>, operation Q<X>) with respect to another file `y`
fn import_forms(x: &str, y: &str) -> Vec<String> {
    let (ux, uy) = (x.to_uppercase(), y.to_uppercase());
    vec![
        format!("#import F{uy} from \"./{y}.graphql\"\n"),
        format!("#import Nope from \"./{y}.graphql\"\n"),
        format!("#import * from \"./{y}.graphql\"\n"),
        format!("#import F{uy}, Nope from \"./{y}.graphql\"\n"),
        format!("#import F{ux} from \"./{x}.graphql\"\n"),
        format!("#import Nope from \"./{x}.graphql\"\n"),
        format!("#import * from \"./{x}.graphql\"\n"),
        format!("#import F{uy} from \"./missing.graphql\"\n"),
        format!("#import Q{uy} from \"./{y}.graphql\"\n"),
        format!("#import F{uy}, F{uy} from \"./{y}.graphql\"\n"),
        format!("#import F{uy} from \"{y}.graphql\"\n"),
        format!("#import F{uy} from \"../src/{y}.graphql\"\n"),
    ]
}

fn import_graph_projects(quick: bool) -> Vec<Vec<(String, String)>> {
    let body = |x: &str, spread: &str| {
        let ux = x.to_uppercase();
        format!("fragment F{ux} on Query {{ __typename {spread} }}\nquery Q{ux} {{ ...F{ux} }}\n")
    };
    let mut out = vec![];
    // two files, up to two statements each
    let heads = |x: &str, y: &str| -> Vec<String> {
        let forms = import_forms(x, y);
        let mut v = vec![String::new()];
        v.extend(forms.iter().cloned());
        for a in &forms {
            for b in &forms {
                v.push(format!("{a}{b}"));
            }
        }
        v
    };
    let (ha, hb) = (heads("a", "b"), heads("b", "a"));
    let hb: Vec<&String> = if quick { hb.iter().take(1 + 12).collect() } else { hb.iter().collect() };
    for a in &ha {
        for b in &hb {
            out.push(vec![("/p/src/a.graphql".to_string(), format!("{a}{}", body("a", "...FB"))), ("/p/src/b.graphql".to_string(), format!("{b}{}", body("b", "")))]);
        }
    }
    // three files in a ring / a fan, one statement each
    let one = |x: &str, ys: [&str; 2]| -> Vec<String> {
        let mut v = vec![String::new()];
        for y in ys {
            v.extend(import_forms(x, y));
        }
        v
    };
    for a in one("a", ["b", "c"]) {
        for b in one("b", ["c", "a"]) {
            for c in one("c", ["a", "b"]) {
                out.push(vec![
                    ("/p/src/a.graphql".to_string(), format!("{a}{}", body("a", "...FB"))),
                    ("/p/src/b.graphql".to_string(), format!("{b}{}", body("b", "...FC"))),
                    ("/p/src/c.graphql".to_string(), format!("{c}{}", body("c", ""))),
                ]);
            }
        }
    }
    out
}

/// several operation files as one project: load (every file is resolved as a root), check, print
fn run_op_project(files: &[(String, String)]) -> &'static str {
    let b = base();
    let ops: Vec<(PathBuf, String)> = files.iter().map(|(p, t)| (PathBuf::from(p), t.clone())).collect();
    let loaded = match pipeline::load_operations(&ops, b.schema_texts.len()) {
        Ok(l) => l,
        Err(f) => {
            let stage = f.diags[0].stage;
            render_all(f, &b.schema_texts, &ops);
            return stage;
        }
    };
    if let Err(f) = pipeline::check_operations(&b.schema, &loaded) {
        render_all(f, &b.schema_texts, &ops);
        return "check-operation";
    }
    let cfg = pipeline::default_config();
    for (_, doc, _, _) in &loaded {
        let _ = pipeline::operation_dts(&b.schema, doc, &cfg, "./schema.js");
        let _ = pipeline::operation_js(doc, &cfg);
    }
    "generated"
}

pub fn run_config_text(t: &str) -> &'static str {
    match nitrogql_config_file::parse_config(t) {
        Some(_) => "config:parsed",
        None => "config:none",
    }
}

/// text as an introspection result (`schema: ./schema.json`): read, then checked against and printed like any schema
pub fn run_introspection_text(t: &str) -> &'static str {
    let schema: Schema<Cow<str>, Pos> = match nitrogql_introspection::schema_from_introspection_json(t) {
        Ok(s) => s,
        Err(_) => return "introspection:rejected",
    };
    let ast = nitrogql_semantics::type_system_to_ast(&schema);
    let mut cfg = pipeline::default_config();
    for s in ["Date", "Version"] {
        cfg.generate.r#type.scalar_types.insert(s.into(), nitrogql_config_file::ScalarTypeConfig::Single("string".into()));
    }
    let _ = pipeline::schema_dts(&ast, &cfg);
    let _ = pipeline::resolvers_dts(&ast, &cfg, "./schema.js");
    let _ = pipeline::server_graphql(&ast);
    // operations that touch every kind of type of the base schema: each is checked on its own and printed when accepted
    let mut any = false;
    for op in ["query { __typename }", "query Q($i: In, $l: [Int!]! = [2]) { a(x: $i, l: $l) { id ... on T { k } } u { __typename ... on T { id k } } }", "query R { a(l: [1], x: {k: B, n: {k: A}}) { __typename id } }"] {
        let ops = vec![(PathBuf::from("/p/src/a.graphql"), op.to_string())];
        if let Ok(loaded) = pipeline::load_operations(&ops, 1) {
            if pipeline::check_operations(&schema, &loaded).is_ok() {
                for (_, doc, _, _) in &loaded {
                    let _ = pipeline::operation_dts(&schema, doc, &cfg, "./schema.js");
                }
                any = true;
            }
        }
    }
    if any { "introspection:read/checked" } else { "introspection:read" }
}

/// single edits of a JSON document: at every node - removed (object members / array items), replaced by null, by a
/// value of every other JSON kind, strings emptied or replaced by a name that exists nowhere
fn json_edits(base: &J, mut f: impl FnMut(String)) {
    fn paths(v: &J, cur: &mut Vec<String>, out: &mut Vec<Vec<String>>) {
        out.push(cur.clone());
        match v {
            J::Object(m) => {
                for (k, x) in m {
                    cur.push(k.clone());
                    paths(x, cur, out);
                    cur.pop();
                }
            }
            J::Array(a) => {
                for (i, x) in a.iter().enumerate() {
                    cur.push(i.to_string());
                    paths(x, cur, out);
                    cur.pop();
                }
            }
            _ => {}
        }
    }
    fn at<'a>(v: &'a mut J, path: &[String]) -> Option<&'a mut J> {
        let mut cur = v;
        for p in path {
            cur = match cur {
                J::Object(m) => m.get_mut(p)?,
                J::Array(a) => a.get_mut(p.parse::<usize>().ok()?)?,
                _ => return None,
            };
        }
        Some(cur)
    }
    let mut all = vec![];
    paths(base, &mut vec![], &mut all);
    for path in all {
        if path.is_empty() {
            continue;
        }
        // removal
        let mut d = base.clone();
        let (last, parent) = path.split_last().unwrap();
        if let Some(pv) = at(&mut d, parent) {
            match pv {
                J::Object(m) => {
                    m.remove(last);
                }
                J::Array(a) => {
                    if let Ok(i) = last.parse::<usize>() {
                        a.remove(i);
                    }
                }
                _ => {}
            }
            f(d.to_string());
        }
        let original = { let mut b = base.clone(); at(&mut b, &path).cloned() };
        for repl in [J::Null, json!(1), json!("Nowhere"), json!(""), json!([]), json!({}), json!(true), json!([null]), json!({"kind": "OBJECT", "name": "Nowhere", "ofType": null}),
            // existing types of every kind, wherever a type reference (or anything else) stands
            json!({"kind": "INPUT_OBJECT", "name": "In", "ofType": null}), json!({"kind": "ENUM", "name": "K", "ofType": null}), json!({"kind": "UNION", "name": "U", "ofType": null}),
            json!({"kind": "INTERFACE", "name": "Node", "ofType": null}), json!({"kind": "OBJECT", "name": "Query", "ofType": null}), json!({"kind": "SCALAR", "name": "Date", "ofType": null}),
            json!({"kind": "LIST", "name": null, "ofType": {"kind": "SCALAR", "name": "Int", "ofType": null}}), json!("K"), json!("Query"), json!("In")] {
            if original.as_ref() == Some(&repl) {
                continue;
            }
            let mut d = base.clone();
            if let Some(x) = at(&mut d, &path) {
                *x = repl;
                f(d.to_string());
            }
        }
    }
}

#[derive(Clone, Copy, Debug, PartialEq, Eq, PartialOrd, Ord)]
pub enum Via {
    Op,
    Schema,
    Loader,
    Config,
    Introspection,
}

struct Ctx<'a> {
    rep: &'a Reporter,
    pool: crate::worker::Pool,
    evals: AtomicU64,
    distinct: DistinctSet,
    outcomes: Mutex<BTreeMap<String, u64>>,
    slots: Vec<Mutex<Option<(Instant, Via, String)>>>,
}

thread_local! {
    static SLOT: std::cell::Cell<usize> = const { std::cell::Cell::new(usize::MAX) };
}
static NEXT_SLOT: std::sync::atomic::AtomicUsize = std::sync::atomic::AtomicUsize::new(0);

impl Ctx<'_> {
    fn run(&self, via: Via, family: &str, t: &str) {
        if !self.distinct.insert(fnv(format!("{via:?}|{t}").as_bytes())) {
            return;
        }
        self.evals.fetch_add(1, Ordering::Relaxed);
        let slot = SLOT.with(|s| {
            if s.get() == usize::MAX {
                s.set(NEXT_SLOT.fetch_add(1, Ordering::Relaxed) % self.slots.len());
            }
            s.get()
        });
        *self.slots[slot].lock().unwrap() = Some((Instant::now(), via, t.to_string()));
        let r: Result<String, Panic> = if via == Via::Loader {
            match self.pool.ask(slot, &json!({"text": t})) {
                crate::worker::Answer::Done(v) => Ok(v["outcome"].as_str().unwrap_or("?").to_string()),
                crate::worker::Answer::Died { panic, status } => {
                    let (site, msg) = panic.unwrap_or(("abort-without-panic-message".into(), status));
                    Err(Panic { site, msg })
                }
            }
        } else {
            catch(|| match via {
                Via::Op => run_op_text(t),
                Via::Schema => run_schema_text(t),
                Via::Loader => unreachable!(),
                Via::Config => run_config_text(t),
                Via::Introspection => run_introspection_text(t),
            })
            .map(|s| s.to_string())
        };
        *self.slots[slot].lock().unwrap() = None;
        match r {
            Ok(o) => {
                *self.outcomes.lock().unwrap().entry(format!("{via:?}:{o}")).or_insert(0) += 1;
            }
            Err(p) => {
                if crate::util::is_harness_site(&p.site) {
                    self.rep.report(Violation {
                        key: format!("machinery.harness_panic@{}", p.site),
                        what: p.msg.clone(),
                        case: json!({"via": format!("{via:?}"), "text": t}),
                    });
                    return;
                }
                *self.outcomes.lock().unwrap().entry(format!("{via:?}:PANIC")).or_insert(0) += 1;
                self.rep.report(Violation {
                    // a schema read from an introspection result skips the schema check: its panics are findings of their own
                    key: format!("{}panic@{}", if via == Via::Introspection { "introspection." } else { "" }, p.key()),
                    what: format!("panic at {} ({}) via {via:?} [{family}]", p.site, p.msg),
                    case: json!({"via": format!("{via:?}"), "family": family, "text": t}),
                });
            }
        }
    }
    fn run_gql(&self, family: &str, t: &str) {
        self.run(Via::Op, family, t);
        self.run(Via::Schema, family, t);
        self.run(Via::Loader, family, t);
    }
}

pub const TOKENS: [&str; 40] = [
    "{", "}", "(", ")", "[", "]", ":", "=", "@", "!", "$", "|", "&", "...", "query", "fragment", "on", "type", "extend",
    "schema", "input", "enum", "union", "interface", "directive", "implements", "scalar", "repeatable", "a", "User", "1",
    "1.5", "\"s\"", "\"\\uD800\"", "\"\\u{110000}\"", "\"\"\"b\"\"\"", "#import A, A from \"./frags.graphql\"\n",
    "#import * from \"./frags.graphql\"\n", "null", "QUERY",
];

/// pieces = raw text slices starting at each token (including the trivia that follows it)
fn pieces(text: &str) -> Vec<String> {
    match rparse::lex(text) {
        Err(_) => text.split_inclusive(' ').map(|s| s.to_string()).collect(),
        Ok(toks) => {
            let mut offs: Vec<usize> = toks.iter().map(|t| t.off).collect();
            offs.dedup();
            let mut out = vec![];
            if offs.first().is_some_and(|o| *o > 0) {
                out.push(text[..offs[0]].to_string());
            }
            for w in offs.windows(2) {
                out.push(text[w[0]..w[1]].to_string());
            }
            if let Some(l) = offs.last()
                && *l < text.len()
            {
                out.push(text[*l..].to_string());
            }
            out
        }
    }
}

fn token_edits(text: &str, alphabet: &[&str], mut f: impl FnMut(String)) {
    let ps = pieces(text);
    let join = |v: &[String]| v.concat();
    for i in 0..ps.len() {
        let mut v = ps.clone();
        v.remove(i);
        f(join(&v));
        let mut v = ps.clone();
        v.insert(i, ps[i].clone());
        f(join(&v));
        if i + 1 < ps.len() {
            let mut v = ps.clone();
            v.swap(i, i + 1);
            f(join(&v));
        }
        for a in alphabet {
            let mut v = ps.clone();
            v[i] = format!("{a} ");
            f(join(&v));
            let mut v = ps.clone();
            v.insert(i, format!("{a} "));
            f(join(&v));
        }
    }
}

/// definitions that refer to themselves or to each other: anything that walks them must terminate
/// (run in the child process with the nesting family: unbounded recursion aborts)
const CYCLES_OP: [&str; 12] = [
    "fragment A on User { ...A }",
    "fragment A on User { ...B } fragment B on User { ...A }",
    "fragment A on User { friends { ...B } } fragment B on User { friends { ...C } } fragment C on User { ...A }",
    "fragment A on User { ... on User { ...A } }",
    "query { me { ...A } } fragment A on User { friends { ...A } }",
    "query { me { ...Ok } } fragment Ok on User { id } fragment A on User { ...B } fragment B on User { ...A }",
    "query { me { ...Ok } } fragment A on User { ...A ...Ok } fragment Ok on User { id }",
    "fragment A on User { ...B } fragment B on User { id } fragment C on User { ...C }",
    "query { me { ... { ...A } } } fragment A on User { ... @skip(if: true) { ...A } }",
    "fragment A on Node { ... on User { ...B } } fragment B on Named { ... on User { ...A } }",
    "query Q($v: UserFilter = {nested: {nested: {nested: {min: 1}}}}) { users(filter: $v) { id } }",
    "fragment A on User { ...A ...A ...A }",
];
const CYCLES_SCHEMA: [&str; 10] = [
    "type Query { a: Int } interface A implements B { x: Int } interface B implements A { x: Int }",
    "type Query { a: Int } interface A implements A { x: Int }",
    "type Query { a: U } union U = U",
    "type Query { a: Int } input I { x: I! }",
    "type Query { a: Int } input I { x: J! } input J { y: I! }",
    "type Query { a: Int } input I { x: [I!]! = [{x: []}] }",
    "type Query { a: Int } directive @a(x: Int @b) on ARGUMENT_DEFINITION directive @b(y: Int @a) on ARGUMENT_DEFINITION",
    "type Query { a: Int } directive @a(x: I) on ARGUMENT_DEFINITION input I { f: Int @a }",
    "type Query { q: Query! } extend type Query { r: [Query!]! }",
    "type Query { a: A } type A implements N { n: N } interface N { n: N }",
];

fn nesting_family() -> Vec<(Via, String)> {
    let mut out = vec![];
    for t in CYCLES_OP {
        out.push((Via::Op, t.to_string()));
        out.push((Via::Loader, t.to_string()));
    }
    for t in CYCLES_SCHEMA {
        out.push((Via::Schema, t.to_string()));
    }
    // cycles of 1..3 input objects, entered directly or through one more input object, and referred to from a directive
    // argument, a field argument, an input field carrying a directive, or all of them
    for len in 1..=3usize {
        let cycle: String = (0..len).map(|k| format!("input I{k} {{ n: I{} v: Int }} ", (k + 1) % len)).collect();
        for entry in ["I0", "E", &format!("I{}", len - 1)] {
            let extra = if entry == "E" { "input E { e: I0 } " } else { "" };
            for user in [
                format!("directive @d(a: {entry}) on FIELD"),
                format!("directive @d(a: [{entry}!]! = []) repeatable on FIELD | INPUT_FIELD_DEFINITION"),
                format!("extend type Query {{ f(a: {entry}): Int }}"),
                format!("directive @d(a: {entry}) on INPUT_FIELD_DEFINITION input U {{ u: Int @d(a: {{}}) w: {entry} }}"),
                format!("directive @d(a: {entry}) on INPUT_FIELD_DEFINITION extend input I0 {{ marked: Int @d }}"),
            ] {
                out.push((Via::Schema, format!("type Query {{ a: Int }} {cycle}{extra}{user}")));
            }
        }
    }
    for d in 1..=64usize {
        let sel = format!("query {{ me {}{} }}", "{ friends ".repeat(d), "{ id }".to_string() + &" }".repeat(d));
        out.push((Via::Op, sel.clone()));
        out.push((Via::Loader, sel));
        let inl = format!("query {{ me {} id {} }}", "{ ... on User ".repeat(d), "}".repeat(d));
        out.push((Via::Op, inl.clone()));
        out.push((Via::Loader, inl));
        let lst = format!("query {{ users(filter: {{ ids: {}\"a\"{} }}) {{ id }} }}", "[".repeat(d), "]".repeat(d));
        out.push((Via::Op, lst));
        let obj = format!("query {{ users(filter: {}{{min: 1}}{}) {{ id }} }}", "{nested: ".repeat(d), "}".repeat(d));
        out.push((Via::Op, obj.clone()));
        out.push((Via::Loader, obj));
        // list-type nesting: the grammar re-parses a list type twice per level (NonNullType is tried
        // first), so time doubles per level; nesting beyond 16 is not an "ordinary limit" for types
        if d <= 16 {
            let ty = format!("type Query {{ f(x: {}Int{}): {}Int{} }}", "[".repeat(d), "]".repeat(d), "[".repeat(d), "!]".repeat(d));
            out.push((Via::Schema, ty));
            let ty2 = format!("type Query {{ f: Int }} input I {{ x: {}I{} = {}{} }}", "[".repeat(d), "]".repeat(d), "[".repeat(d), "]".repeat(d));
            out.push((Via::Schema, ty2));
            let v = format!("query Q($v: {}Int{}) {{ matrix }}", "[".repeat(d), "]".repeat(d));
            out.push((Via::Op, v));
        }
    }
    out
}

/// valid documents that stress the generators where several features meet (same fragment reached twice
/// under different conditions, merged same-key selections, nested conditions, many variables)
const CORNERS: [&str; 22] = [
    "query Q($a: Boolean!, $b: Boolean!) { me { ...F @include(if: $a) ...F @skip(if: $b) } } fragment F on User { name }",
    "query Q($a: Boolean!, $b: Boolean!) { me { ...G ...H } } fragment G on User { ...F @include(if: $a) } fragment H on User { ...F @skip(if: $b) } fragment F on User { name }",
    "query Q($a: Boolean!, $b: Boolean!) { me { ... on User @skip(if: $a) { id } ... on User @include(if: $b) { id } ... @skip(if: $b) { name } } }",
    "query Q($a: Boolean!) { me { id @skip(if: $a) id @include(if: $a) } }",
    "query Q($a: Boolean!, $b: Boolean!) { me { friends { id @skip(if: $a) } friends { name @include(if: $b) } } }",
    "query Q($a: Boolean!, $b: Boolean!) { me { friends { id @skip(if: $a) } ...F } } fragment F on User { friends { name @include(if: $b) ...F2 } } fragment F2 on User { id @skip(if: $a) @include(if: $b) }",
    "query Q { node(id: \"1\") { ... on User { ... on Named { ... on Node { id } } } } }",
    "query Q { search(text: \"x\") { ... on Node { id } ... on Named { name } __typename } }",
    "query Q($a: Boolean!) { me @skip(if: $a) { id } me @include(if: $a) { name } }",
    "query Q { me { __typename: id t: __typename } }",
    "query Q { me { a: id a: id b: name } }",
    "query Q($a: Boolean! = true, $b: Boolean = false) { me { ... @include(if: $a) { ... @skip(if: $b) { id } } } }",
    "query Q($a: Boolean!) { me { ...F } } fragment F on User { ...G @skip(if: $a) } fragment G on User { ...H @include(if: $a) } fragment H on User { id }",
    "subscription S($a: Boolean!) { tick @skip(if: $a) }",
    "query Q { users(filter: {nested: {nested: {kind: ADMIN}}}, first: 1) { posts { author { posts { title } } } } }",
    "query Q($a: Boolean!) { search(text: \"\") { ... on User @include(if: $a) { id } ... on User @skip(if: $a) { name } ... on Post { id } } }",
    "fragment A on SearchResult { ... on User { id } ...B } fragment B on SearchResult { ... on Post { id } ...C @skip(if: true) } fragment C on SearchResult { __typename }",
    "query Q($a: Boolean!, $b: Boolean!, $c: Boolean!, $d: Boolean!, $e: Boolean!) { me { id @skip(if: $a) name @skip(if: $b) age @skip(if: $c) kind @skip(if: $d) born @skip(if: $e) } }",
    "query Q($a: Boolean!, $b: Boolean!) { me { ...F @skip(if: $a) @include(if: $b) ...F } } fragment F on User { id posts { ...P @include(if: $a) } } fragment P on Post { title author { ...F } }",
    "query Q($a: Boolean!) { node(id: \"1\") { ...N @skip(if: $a) ... on User { ...N @include(if: $a) } } } fragment N on Node { id ... on Post { title } }",
    "mutation M($a: Boolean!) { rename(id: \"1\", name: \"x\") @skip(if: $a) { id } r2: rename(id: \"1\", name: \"x\") @include(if: $a) { name } }",
    "query Q($a: Boolean!, $b: Boolean!) { me { posts { author { ...F @skip(if: $a) } } posts { author { ...F @include(if: $b) } } } } fragment F on User { id }",
];

const HAZARDS: [&str; 29] = [
    // descriptions whose lines are indented with different kinds of white space (printed as JSDoc)
    "\"\"\"\n    four spaces\n\u{3000}\u{3000}two ideographic spaces\n\"\"\" type Query { a: Int }",
    "type Query {\n  \"\"\"\n\t\ttabs\n  \u{a0}\u{a0}nbsp after two spaces\n    \u{2003}em space\n  \"\"\"\n  a: Int\n}",
    "\"\"\"\n\u{3000}\n \n\t\n\"\"\" type Query { a: Int }",
    "type Query { \"\"\"\u{3000}x\n\u{a0}y\"\"\" a: Int @deprecated(reason: \"\"\"\n  \u{3000}r\n\u{3000}s\n\"\"\") }",
    "\"\"\"\r  cr only\r    more\r\"\"\" type Query { a: Int }",
    "enum E { \"\"\"\n   \u{feff}bom inside\n  x\n\"\"\" A } type Query { e: E }",
    "\"\u{3000} single line \u{a0}\" type Query { a: Int }",
    "",
    "\u{FEFF}",
    "\0",
    "\r",
    "query { me { id } }\r",
    "\u{2028}query { me { id } }",
    "query { me { id } } \u{2029}",
    "😀",
    "😀query { me { id } }",
    "query { 😀 }",
    "query { me { id } } #😀",
    "\"",
    "\"\"\"",
    "query { search(text: \"abc",
    "query { search(text: \"\"\"abc",
    "query { search(text: \"\\",
    "query { search(text: \"\\u12",
    "query { search(text: \"\\u{",
    "\u{a0}query { me { id } }",
    "\n        query {\n            a\n    ",
    "query Q($v: Int = $v) { me { id } }",
    "#",
];

const YAML_TOKENS: [&str; 20] = [
    ":", "-", "{", "}", "[", "]", "\"", "'", "&a", "*a", "!!x", "|", ">", "?", "%", "\t", "true", "null", "1", "~",
];

fn yaml_edits(text: &str, mut f: impl FnMut(String)) {
    // words and separators
    let mut ps: Vec<String> = vec![];
    let mut cur = String::new();
    for c in text.chars() {
        if c.is_alphanumeric() || c == '_' || c == '.' || c == '/' || c == '*' {
            cur.push(c);
        } else {
            if !cur.is_empty() {
                ps.push(std::mem::take(&mut cur));
            }
            ps.push(c.to_string());
        }
    }
    if !cur.is_empty() {
        ps.push(cur);
    }
    for i in 0..ps.len() {
        let mut v = ps.clone();
        v.remove(i);
        f(v.concat());
        let mut v = ps.clone();
        v.insert(i, ps[i].clone());
        f(v.concat());
        if ps[i].trim().is_empty() {
            continue;
        }
        for a in YAML_TOKENS {
            let mut v = ps.clone();
            v[i] = a.to_string();
            f(v.concat());
        }
    }
}

pub fn run(args: &Args) -> i32 {
    if std::env::var("NQV_CHILD").as_deref() == Ok("nesting") {
        return child_nesting();
    }
    let rep = Reporter::new("C08", &args.tier);
    crate::util::install_hook();
    let _ = base();
    let ctx = Ctx {
        rep: &rep,
        pool: crate::worker::Pool::new("loader-text", args.threads),
        evals: AtomicU64::new(0),
        distinct: DistinctSet::new(),
        outcomes: Mutex::new(BTreeMap::new()),
        slots: (0..args.threads + 2).map(|_| Mutex::new(None)).collect(),
    };
    let done = std::sync::atomic::AtomicBool::new(false);
    let mut family_counts = serde_json::Map::new();
    std::thread::scope(|s| {
        // watchdog: a case that runs longer than 10 s is reported as non-termination
        s.spawn(|| {
            while !done.load(Ordering::Relaxed) {
                std::thread::sleep(Duration::from_millis(500));
                for slot in &ctx.slots {
                    let g = slot.lock().unwrap();
                    if let Some((t0, via, text)) = g.as_ref()
                        && t0.elapsed() > Duration::from_secs(10)
                    {
                        rep.report(Violation {
                            key: format!("timeout.{via:?}"),
                            what: format!("no result within 10 s via {via:?}"),
                            case: json!({"via": format!("{via:?}"), "text": text}),
                        });
                        let code = rep.finish(json!({"evaluations": 1, "distinct_nontrivial": 2, "aborted": "watchdog"}), vec![]);
                        std::process::exit(code.max(1));
                    }
                }
            }
        });

        // (a) all token sequences up to length n
        let n = if args.quick() { 3 } else { 4 };
        let before = ctx.evals.load(Ordering::Relaxed);
        let a = TOKENS.len();
        for len in 1..=n {
            let total = a.pow(len as u32);
            let heads = a.pow(len.min(2) as u32);
            let tail = total / heads;
            par_for(heads, args.threads, |h| {
                let mut idx = vec![0usize; len];
                let mut hh = h;
                for slot in idx.iter_mut().take(len.min(2)) {
                    *slot = hh % a;
                    hh /= a;
                }
                for t in 0..tail {
                    let mut tt = t;
                    for slot in idx.iter_mut().skip(2) {
                        *slot = tt % a;
                        tt /= a;
                    }
                    let text: String = idx.iter().map(|i| TOKENS[*i]).collect::<Vec<_>>().join(" ");
                    ctx.run_gql("token-sequences", &text);
                }
            });
        }
        family_counts.insert("token_sequences".into(), json!({"max_len": n, "alphabet": a, "cases": ctx.evals.load(Ordering::Relaxed) - before}));

        // (b) single-token edits of the valid corpus
        let before = ctx.evals.load(Ordering::Relaxed);
        let corpus: Vec<(&str, Vec<Via>)> = vec![
            (OP_MAIN, vec![Via::Op, Via::Loader]),
            (OP_FRAGS, vec![Via::Op, Via::Loader]),
            (OP_SIMPLE, vec![Via::Op, Via::Loader, Via::Schema]),
            (SCHEMA_MAIN, vec![Via::Schema]),
            (SCHEMA_EXT, vec![Via::Schema]),
            ("type Query { a: Int }\n", vec![Via::Schema, Via::Op]),
        ];
        for (text, vias) in &corpus {
            // the unedited text first: it must reach generation
            for v in vias {
                ctx.run(*v, "corpus", text);
            }
            let mut edits = vec![];
            token_edits(text, &TOKENS, |e| edits.push(e));
            par_for(edits.len(), args.threads, |i| {
                for v in vias {
                    ctx.run(*v, "token-edits", &edits[i]);
                }
            });
        }
        if !args.quick() {
            // double edits on the small documents
            for text in [OP_SIMPLE, "type Query { a: Int }\n", OP_FRAGS] {
                let mut firsts = vec![];
                token_edits(text, &TOKENS, |e| firsts.push(e));
                par_for(firsts.len(), args.threads, |i| {
                    token_edits(&firsts[i], &TOKENS[..20], |e| ctx.run_gql("token-edits-2", &e));
                });
            }
        }
        family_counts.insert("token_edits".into(), json!({"corpus_documents": corpus.len(), "cases": ctx.evals.load(Ordering::Relaxed) - before}));

        // (c) nesting depth, in a child process (stack overflow aborts the process)
        let before = ctx.evals.load(Ordering::Relaxed);
        let exe = std::env::current_exe().unwrap();
        let out = (|| -> std::io::Result<std::process::Output> {
            let mut child = std::process::Command::new(exe)
                .arg("C08")
                .env("NQV_CHILD", "nesting")
                .stdout(std::process::Stdio::piped())
                .stderr(std::process::Stdio::null())
                .spawn()?;
            // watchdog: kill the child after 120 s; its last CHILD-START line names the case
            let pid = child.id();
            let finished = std::sync::Arc::new(std::sync::atomic::AtomicBool::new(false));
            let f2 = finished.clone();
            std::thread::spawn(move || {
                let t0 = Instant::now();
                while !f2.load(Ordering::Relaxed) {
                    if t0.elapsed() > Duration::from_secs(120) {
                        let _ = std::process::Command::new("kill").arg("-9").arg(pid.to_string()).status();
                        break;
                    }
                    std::thread::sleep(Duration::from_millis(200));
                }
            });
            let o = child.wait_with_output();
            finished.store(true, Ordering::Relaxed);
            o
        })();
        match out {
            Ok(o) => {
                let so = String::from_utf8_lossy(&o.stdout).to_string();
                for l in so.lines() {
                    if let Some(rest) = l.strip_prefix("CHILD-PANIC ") {
                        let v: J = serde_json::from_str(rest).unwrap_or(J::Null);
                        rep.report(Violation {
                            key: format!("panic@{}", v["key"].as_str().unwrap_or("?")),
                            what: format!("panic {} (nesting family)", v["what"].as_str().unwrap_or("?")),
                            case: json!({"via": v["via"], "family": "nesting", "text": v["text"]}),
                        });
                    }
                }
                if !o.status.success() {
                    let last = so.lines().rev().find(|l| l.starts_with("CHILD-START ")).unwrap_or("").to_string();
                    rep.report(Violation {
                        key: "abort.nesting".into(),
                        what: format!("nesting family aborted the process ({:?}) at {}", o.status, &last[..last.len().min(120)]),
                        case: json!({"family": "nesting", "last": last}),
                    });
                }
                let n = so.lines().filter(|l| l.starts_with("CHILD-START ")).count() as u64;
                ctx.evals.fetch_add(n, Ordering::Relaxed);
                for (via, text) in nesting_family() {
                    if via == Via::Loader {
                        ctx.run(via, "nesting", &text);
                    }
                }
            }
            Err(e) => crate::report::machinery(&format!("cannot spawn nesting child: {e}")),
        }
        family_counts.insert("nesting".into(), json!({"max_depth": 64, "cases": ctx.evals.load(Ordering::Relaxed) - before}));

        // (e) corner documents: valid documents where several generator features meet
        let before = ctx.evals.load(Ordering::Relaxed);
        for t in CORNERS {
            ctx.run(Via::Op, "corners", t);
            ctx.run(Via::Loader, "corners", t);
        }
        family_counts.insert("corner_documents".into(), json!({"cases": ctx.evals.load(Ordering::Relaxed) - before}));

        // (d) Unicode / truncation hazards
        let before = ctx.evals.load(Ordering::Relaxed);
        for h in HAZARDS {
            ctx.run_gql("hazards", h);
            ctx.run(Via::Config, "hazards", h);
        }
        // every prefix of the corpus documents (truncation at every char boundary)
        for text in [OP_MAIN, SCHEMA_MAIN, OP_FRAGS] {
            let idxs: Vec<usize> = text.char_indices().map(|(i, _)| i).collect();
            par_for(idxs.len(), args.threads, |k| ctx.run_gql("prefixes", &text[..idxs[k]]));
        }
        family_counts.insert("hazards_and_prefixes".into(), json!({"cases": ctx.evals.load(Ordering::Relaxed) - before}));

        // (e) configuration texts
        let before = ctx.evals.load(Ordering::Relaxed);
        ctx.run(Via::Config, "corpus", CONFIG_YAML);
        let mut edits = vec![];
        yaml_edits(CONFIG_YAML, |e| edits.push(e));
        par_for(edits.len(), args.threads, |i| ctx.run(Via::Config, "config-edits", &edits[i]));
        let idxs: Vec<usize> = CONFIG_YAML.char_indices().map(|(i, _)| i).collect();
        for k in idxs {
            ctx.run(Via::Config, "config-prefixes", &CONFIG_YAML[..k]);
        }
        for t in ["{}", "[]", "a", "schema: [", "schema: {a: 1}", "extensions: {nitrogql: {generate: {mode: x}}}",
                  "extensions: {nitrogql: {generate: {type: {scalarTypes: {A: 1}}}}}", "extensions: 1", "schema: 1", "documents: {a: b}", "null", "~", "---\n---\n"] {
            ctx.run(Via::Config, "config-shapes", t);
        }
        family_counts.insert("configs".into(), json!({"cases": ctx.evals.load(Ordering::Relaxed) - before}));
        // ---------- introspection results: single edits of the JSON a conforming server gives for a small schema,
        // in both spellings of the optional keys; prefixes of the text
        let before = ctx.evals.load(Ordering::Relaxed);
        {
            let doc = rparse::parse_ts("type Query { a(x: In = {k: A}, l: [Int!]! = [1]): Node u: U @deprecated(reason: \"r\") }\ninterface Node { id: ID! }\ntype T implements Node { id: ID! k: K }\nunion U = T\nenum K { A B @deprecated }\ninput In { k: K = A n: In }\nscalar Date @specifiedBy(url: \"https://x\")\ndirective @tag(n: Int = 1) repeatable on FIELD | OBJECT\n").unwrap_or_else(|e| crate::report::machinery(&format!("C08 introspection base: {e}")));
            let sch = crate::schema::Sch::new(&doc.defs);
            for o in [crate::introspect::IntroOpts::default(), crate::introspect::IntroOpts { omit_nulls: true, meta_types: false, repeatable_key: true, input_deprecation: true, order: 1 }] {
                let base = crate::introspect::introspection_json(&sch, o);
                ctx.run(Via::Introspection, "introspection-base", &base.to_string());
                let mut edits = vec![];
                json_edits(&base, |e| edits.push(e));
                if args.quick() {
                    // every third edit of the second spelling
                    if o.omit_nulls {
                        edits = edits.into_iter().step_by(3).collect();
                    }
                }
                par_for(edits.len(), args.threads, |i| ctx.run(Via::Introspection, "introspection-edits", &edits[i]));
                let text = base.to_string();
                let cuts: Vec<usize> = text.char_indices().map(|(i, _)| i).step_by(if args.quick() { 7 } else { 1 }).collect();
                par_for(cuts.len(), args.threads, |i| ctx.run(Via::Introspection, "introspection-prefixes", &text[..cuts[i]]));
            }
        }
        family_counts.insert("introspection".into(), json!({"cases": ctx.evals.load(Ordering::Relaxed) - before}));
        done.store(true, Ordering::Relaxed);
    });

    // ---------- one type name defined by two definitions, for every ordered pair of kinds (and a directive of that name),
    // referred to from an output and an input position
    {
        let before = ctx.evals.load(Ordering::Relaxed);
        let kinds = ["scalar X", "type X { a: Int }", "interface X { a: Int }", "union X = Query", "enum X { A }", "input X { a: Int }", "directive @X on FIELD"];
        let mut texts = vec![];
        for a in kinds {
            for b in kinds {
                for user in ["", "extend type Query { x: X }", "extend type Query { f(x: X): Int }", "extend type Query { x: [X!]! f(x: X = null): Int }"] {
                    texts.push(format!("type Query {{ q: Int }}\n{a}\n{b}\n{user}\n"));
                }
            }
        }
        par_for(texts.len(), args.threads, |i| ctx.run(Via::Schema, "one-name-two-definitions", &texts[i]));
        family_counts.insert("one-name-two-definitions".into(), json!({"cases": ctx.evals.load(Ordering::Relaxed) - before}));
    }
    // ---------- import graphs: two operation files with up to two import statements each, and three files with
    // one statement each, over an alphabet of statement forms (existing / missing / wildcard / duplicated names,
    // the other file, the file itself, a file that does not exist, an operation name, another path spelling):
    // every file is resolved as a root, checked and printed
    {
        let before = ctx.evals.load(Ordering::Relaxed);
        let projects = import_graph_projects(args.quick());
        let n_projects = projects.len();
        par_for(projects.len(), args.threads, |i| {
            let files = &projects[i];
            ctx.evals.fetch_add(1, Ordering::Relaxed);
            let r = catch(|| run_op_project(files));
            match r {
                Ok(o) => *ctx.outcomes.lock().unwrap().entry(format!("Project:{o}")).or_insert(0) += 1,
                Err(p) => {
                    if crate::util::is_harness_site(&p.site) {
                        rep.report(Violation { key: format!("machinery.harness_panic@{}", p.site), what: p.msg.clone(), case: json!({"via": "Project", "files": files}) });
                        return;
                    }
                    *ctx.outcomes.lock().unwrap().entry("Project:PANIC".into()).or_insert(0) += 1;
                    rep.report(Violation {
                        key: format!("panic@{}", p.key()),
                        what: format!("panic at {} ({}) via Project [import-graphs]", p.site, p.msg),
                        case: json!({"via": "Project", "family": "import-graphs", "files": files}),
                    });
                }
            }
        });
        family_counts.insert("import-graphs".into(), json!({"cases": ctx.evals.load(Ordering::Relaxed) - before, "projects": n_projects}));
    }
    // ---------- the configuration option product through the real binary: a panic is an exit status that is
    // neither 0 nor 1, or "panicked at" on stderr
    let cli_cfg = cli_configurations(args, &rep);
    family_counts.insert("cli-configurations".into(), cli_cfg);

    let outcomes = ctx.outcomes.lock().unwrap().clone();
    // vacuity guard: the corpus must reach generation
    for need in ["Project:generated", "Project:resolve-imports", "Op:generated", "Schema:schema-ok/generated", "Loader:loader:emitted", "Config:config:parsed", "Introspection:introspection:read/checked", "Introspection:introspection:rejected"] {
        if !outcomes.contains_key(need) {
            rep.report(Violation {
                key: format!("machinery.vacuous.{need}"),
                what: format!("no case reached outcome {need}"),
                case: json!({"outcomes": outcomes}),
            });
        }
    }
    let evals = ctx.evals.load(Ordering::Relaxed);
    let nontrivial: u64 = outcomes.iter().filter(|(k, _)| !k.contains("parse") && !k.contains("initiate-failed")).map(|(_, v)| *v).sum();
    let cov = json!({
        "states": ctx.distinct.len(),
        "transitions": evals,
        "traces_validated_against_impl": evals,
        "evaluations": evals,
        "distinct_nontrivial": nontrivial,
        "rule": "bounded-exhaustive text families (token sequences, single/double token edits of a valid corpus, nesting depth 1..64, hazards, all prefixes, config edits), distinct by (entry point, text); non-trivial = got past parsing",
        "exhaustive": true,
        "families": family_counts,
        "outcome_histogram": outcomes,
        "samples": [
            {"via": "Op", "text": "query { me { id } } \" on"},
            {"via": "Schema", "text": "type extend { a : 1"},
            {"via": "Config", "text": "schema: ["},
        ],
    });
    rep.finish(
        cov,
        vec![
            "in-process replica of the CLI pipeline (pipeline.rs) calls the same library entry points; the CLI binary itself is exercised by C18".into(),
            "built with overflow checks on: an arithmetic overflow counts as a panic".into(),
            "a case running longer than 10 s counts as non-termination".into(),
        ],
    )
}

/// Every combination of the generate options that decide which outputs exist and how they refer to each
/// other, x plugins x command lines, on a small valid project.
fn cli_configurations(args: &Args, rep: &Reporter) -> J {
    use crate::cli;
    let schema_outs: [Option<&str>; 3] = [None, Some("./gen/schema.d.ts"), Some("./gen/schema.ts")];
    let commands: [&[&str]; 5] = [&["check"], &["generate"], &["check", "generate"], &["generate", "check"], &[]];
    let mut cases: Vec<(String, Vec<String>, String)> = vec![];
    for so in schema_outs {
        for spec in [None, Some("@/schema")] {
            for resolvers in [false, true] {
                for server in [false, true] {
                    for runtime in [false, true] {
                        for mode in ["with-loader-ts-5.0", "standalone-ts-4.0"] {
                            for plugin in [false, true] {
                                for docs in [true, false] {
                                    for arg_out in [false, true] {
                                        for cmd in commands {
                                            if !args.quick() || (cmd.len() == 1 && cmd[0] == "generate") || (!runtime && !plugin && docs && !arg_out && mode == "with-loader-ts-5.0") {
                                                let mut y = String::from("schema: ./schema/*.graphql\n");
                                                if docs {
                                                    y.push_str("documents: ./src/*.graphql\n");
                                                }
                                                y.push_str("extensions:\n  nitrogql:\n");
                                                if plugin {
                                                    y.push_str("    plugins: [\"nitrogql:model-plugin\"]\n");
                                                }
                                                y.push_str(&format!("    generate:\n      mode: {mode}\n"));
                                                if let Some(o) = so {
                                                    y.push_str(&format!("      schemaOutput: {o}\n"));
                                                }
                                                if let Some(sp) = spec {
                                                    y.push_str(&format!("      schemaModuleSpecifier: \"{sp}\"\n"));
                                                }
                                                if resolvers {
                                                    y.push_str("      resolversOutput: ./gen/resolvers.d.ts\n");
                                                }
                                                if server {
                                                    y.push_str("      serverGraphqlOutput: ./gen/graphql.ts\n");
                                                }
                                                if runtime {
                                                    y.push_str("      emitSchemaRuntime: true\n");
                                                }
                                                let mut a: Vec<String> = vec!["--config-file".into(), "graphql.config.yaml".into(), "--output-format".into(), "json".into()];
                                                if arg_out {
                                                    a.push("--schema-output".into());
                                                    a.push("./out/s.d.ts".into());
                                                }
                                                a.extend(cmd.iter().map(|x| x.to_string()));
                                                let tag = format!("schemaOutput={so:?} specifier={} resolvers={resolvers} server={server} runtime={runtime} mode={mode} plugin={plugin} documents={docs} --schema-output={arg_out} commands={cmd:?}", spec.is_some());
                                                cases.push((y, a, tag));
                                            }
                                        }
                                    }
                                }
                            }
                        }
                    }
                }
            }
        }
    }
    // uses of the model plugin's directive in every shape the schema check lets through (and some it does not)
    const MODEL_USES: [&str; 12] = [
        "type User @model(type: \"U\") { id: ID! name: String }",
        "type User @model(type: null) { id: ID! name: String }",
        "type User @model { id: ID! name: String }",
        "type User @model(type: 1) { id: ID! name: String }",
        "type User { id: ID! @model name: String }",
        "type User { id: ID! @model(type: \"X\") name: String @model(type: null) }",
        "type User { id: ID! name: String }\nextend type User @model(type: null)",
        "type User { id: ID! name: String }\nextend type User @model(type: \"U\") { age: Int @model }",
        "type User @model(type: \"\") { id: ID! name: String }",
        "type User @model(type: \"import('x').U\") @model(type: \"V\") { id: ID! name: String }",
        "type User implements N @model(type: \"U\") { id: ID! @model name: String }\ninterface N @model(type: \"N\") { id: ID! @model }",
        "type User { id: ID! name: String }\nenum model { A }\nscalar nitrogql_ts_type\nextend type User { m: model @model t: nitrogql_ts_type }",
    ];
    for (ui, user) in MODEL_USES.iter().enumerate() {
        for resolvers in [false, true] {
            for server in [false, true] {
                for cmd in [&["check"][..], &["generate"][..]] {
                    let mut y = String::from("schema: ./schema/*.graphql\ndocuments: ./src/*.graphql\nextensions:\n  nitrogql:\n    plugins: [\"nitrogql:model-plugin\"]\n    generate:\n      schemaOutput: ./gen/schema.d.ts\n");
                    if resolvers {
                        y.push_str("      resolversOutput: ./gen/resolvers.d.ts\n");
                    }
                    if server {
                        y.push_str("      serverGraphqlOutput: ./gen/graphql.ts\n");
                    }
                    y.push_str(&format!("#@USER@{}\n", user.replace('\n', "\\n")));
                    let mut a: Vec<String> = vec!["--config-file".into(), "graphql.config.yaml".into(), "--output-format".into(), "json".into()];
                    a.extend(cmd.iter().map(|x| x.to_string()));
                    cases.push((y, a, format!("model-use={ui} resolvers={resolvers} server={server} commands={cmd:?}")));
                }
            }
        }
    }
    // diagnostic rendering through the real binary: faulty operation / schema files x the four line-ending forms a
    // GraphQL text may have (LF, CR LF, lone CR, one stray CR in an LF file) x the three output formats
    {
        let ops = [
            "query Q {\n  me {\n    id\n    nope\n  }\n}\n",
            "query Q {\n  me {\n    id\n",
            "query Q {\n  me { id # \u{e9}\u{1f600}\n  nope }\n}\n",
            "query Q {\n  me { id }\n}\n\n\nquery Q {\n  me { name }\n}\n",
        ];
        let users = ["type User { id: ID! name: String }", "type User {\n  id: ID!\n  name: Nope\n}", "type User {\n  id: ID!\n  name: String"];
        let ending = |t: &str, e: usize| match e {
            0 => t.to_string(),
            1 => t.replace('\n', "\r\n"),
            2 => t.replace('\n', "\r"),
            _ => t.replacen('\n', "\r", 1),
        };
        for fmt in ["json", "rdjson", "human"] {
            for e in 0..4 {
                for (oi, op) in ops.iter().enumerate() {
                    for (ui, user) in users.iter().enumerate() {
                        if oi != 0 && ui != 0 {
                            continue;
                        }
                        for cmd in [&["check"][..], &["generate"][..]] {
                            let y = format!("schema: ./schema/*.graphql\ndocuments: ./src/*.graphql\nextensions:\n  nitrogql:\n    generate:\n      schemaOutput: ./gen/schema.d.ts\n#@USER@{}\n#@OP@{}\n", ending(user, e).replace('\n', "\\n").replace('\r', "\\r"), ending(op, e).replace('\n', "\\n").replace('\r', "\\r"));
                            let mut a: Vec<String> = vec!["--config-file".into(), "graphql.config.yaml".into(), "--output-format".into(), fmt.into()];
                            a.extend(cmd.iter().map(|x| x.to_string()));
                            cases.push((y, a, format!("diagnostics format={fmt} line-endings={e} operation={oi} schema={ui} commands={cmd:?}")));
                        }
                    }
                }
            }
        }
    }
    let outcomes: Mutex<BTreeMap<String, u64>> = Mutex::new(BTreeMap::new());
    par_for(cases.len(), args.threads, |i| {
        let (y, a, tag) = &cases[i];
        let op_text = y.split_once("#@OP@").map(|x| x.1.trim_end_matches('\n').replace("\\n", "\n").replace("\\r", "\r"));
        let y = &y.split_once("#@OP@").map_or(y.clone(), |x| x.0.to_string());
        let mut p = cli::Project::default();
        // a case may carry its own definition of `User` (after the marker, which is a YAML comment)
        let user = y.split_once("#@USER@").map(|x| x.1.trim_end_matches('\n').replace("\\n", "\n").replace("\\r", "\r"));
        let y = &y.split_once("#@USER@").map_or(y.clone(), |x| x.0.to_string());
        p.files.insert("graphql.config.yaml".into(), y.clone());
        if let Some(u) = &user {
            p.files.insert("schema/s.graphql".into(), format!("type Query {{ me: User }}\n{u}\n"));
        } else {
            p.files.insert("schema/s.graphql".into(), "type Query { me: User }\ntype User { id: ID! name: String }\n".into());
        }
        p.files.insert("src/q.graphql".into(), op_text.clone().unwrap_or_else(|| "query Q { me { id name } }\n".to_string()));
        let dir = cli::thread_dir("c08");
        cli::materialize(&dir, &p);
        let r = cli::run(&dir, a, &[], Duration::from_secs(30));
        let stderr = cli::strip_ansi(&r.stderr);
        let panicked = stderr.contains("panicked at");
        *outcomes.lock().unwrap().entry(format!("exit {:?}{}", r.code, if r.timed_out { " (timeout)" } else { "" })).or_insert(0) += 1;
        if panicked || r.timed_out || !matches!(r.code, Some(0) | Some(1)) {
            let _ = &op_text;
            let site = stderr.lines().find(|l| l.contains("panicked at")).unwrap_or("").split("panicked at ").nth(1).unwrap_or("").split(':').next().unwrap_or("").to_string();
            let site = site.split("/crates/").nth(1).map(|x| format!("crates/{x}")).unwrap_or(site);
            rep.report(Violation {
                key: format!("cli.{}@{site}", if r.timed_out { "no_exit" } else { "panic" }),
                what: format!("the CLI {} on a legal configuration ({tag}): {}", if r.timed_out { "did not exit".to_string() } else { format!("exits with {:?}", r.code) }, stderr.lines().find(|l| l.contains("panicked at")).unwrap_or("")),
                case: json!({"via": "Cli", "config": y, "args": a, "stderr": stderr.chars().take(2000).collect::<String>()}),
            });
        }
    });
    cli::cleanup("c08");
    json!({"cases": cases.len(), "exit_statuses": *outcomes.lock().unwrap()})
}

fn child_nesting() -> i32 {
    crate::util::install_hook();
    let _ = base();
    for (via, text) in nesting_family() {
        if via == Via::Loader {
            continue;
        }
        println!("CHILD-START {via:?} {}", &text[..text.len().min(60)].replace('\n', " "));
        let r = catch(|| match via {
            Via::Op => run_op_text(&text),
            Via::Schema => run_schema_text(&text),
            Via::Loader => unreachable!(),
            Via::Config => run_config_text(&text),
            Via::Introspection => run_introspection_text(&text),
        });
        if let Err(p) = r {
            println!(
                "CHILD-PANIC {}",
                json!({"key": p.key(), "what": format!("{} ({})", p.site, p.msg), "via": format!("{via:?}"), "text": text})
            );
        }
    }
    0
}

pub fn replay(case: &J) -> i32 {
    crate::util::install_hook();
    let t = case["text"].as_str().unwrap_or("");
    let via = case["via"].as_str().unwrap_or("Op");
    println!("--- via {via} ---\n{t}\n--- end ---");
    if via == "Loader" {
        let mut w = crate::worker::Worker::spawn("loader-text");
        println!("loader worker answer: {:?}", w.ask(&json!({"text": t})));
        return 0;
    }
    let files: Vec<(String, String)> = case["files"].as_array().into_iter().flatten().filter_map(|f| Some((f[0].as_str()?.to_string(), f[1].as_str()?.to_string()))).collect();
    for (p, t) in &files {
        println!("--- {p} ---\n{t}");
    }
    let r = catch(|| match via {
        "Project" => run_op_project(&files),
        "Op" => run_op_text(t),
        "Schema" => run_schema_text(t),
        "Introspection" => run_introspection_text(t),
        _ => run_config_text(t),
    });
    match r {
        Ok(o) => {
            println!("outcome: {o}");
            0
        }
        Err(p) => {
            println!("PANIC at {}: {}", p.site, p.msg);
            1
        }
    }
}

/// worker subprocess entry: loader ABI on one text per request
pub fn child_loader_text() -> i32 {
    crate::worker::serve(|req| {
        let t = req["text"].as_str().unwrap_or("");
        json!({"outcome": run_loader_text(t)})
    })
}
