//! C09 — Variables types admit only coercible inputs and every explicit one.
//!
//! Exhaustive over variable definitions: 10 base types (built-in scalars, enum, custom scalars typed
//! by config and by directive, input objects) x 8 wrapper shapes x default / no default, singly and
//! in pairs (E1), x allowUndefinedAsOptionalInput on/off. Oracles on the emitted `<Op>Variables`
//! type read with the schema file's input namespace (R-TS):
//!   (subset)   every enumerated member supplies, for each variable, a value the server's variable
//!              coercion accepts (R-COERCE);
//!   (superset) every assignment giving each variable and input field explicitly a coercible value
//!              (lists as arrays) is a member; omission of a nullable variable / field is a member
//!              exactly when the option is on.

use crate::c01::{Enum, typed_document_aliases};
use crate::c03::subject_schema;
use crate::explore::{Chooser, DistinctSet, ExploreCfg, explore, fnv};
use crate::gen_sem::{scalar_ts, sem_schema};
use crate::gql::*;
use crate::pipeline;
use crate::report::{Args as RunArgs, Reporter, Violation, stats_json};
use crate::rts::{Val, World, parse_module, parse_type};
use crate::schema::Sch;
use crate::util::catch;
use serde_json::{Value as J, json};
use std::collections::BTreeMap;
use std::path::PathBuf;
use std::sync::atomic::{AtomicU64, Ordering};
use std::sync::{Mutex, OnceLock};
use std::time::Duration;

const BASES: [&str; 10] = ["Int", "Float", "String", "Boolean", "ID", "Kind", "Date", "Stamp", "Filter", "Pair"];

fn cfg(optional: bool, remap: bool) -> nitrogql_config_file::Config {
    let mut c = crate::c01::config_with_date();
    c.generate.r#type.allow_undefined_as_optional_input = optional;
    if remap {
        // the configuration re-types built-in scalars
        use nitrogql_config_file::{ScalarTypeConfig, SendReceiveScalarTypeConfig};
        c.generate.r#type.scalar_types.insert("ID".into(), ScalarTypeConfig::Single("string".into()));
        c.generate.r#type.scalar_types.insert("Int".into(), ScalarTypeConfig::SendReceive(SendReceiveScalarTypeConfig { send: "number | bigint".into(), receive: "number".into() }));
        // a mapping that mentions an identifier equal to the scalar's own schema name (the printer then
        // declares the scalar under a temporary local name)
        c.generate.r#type.scalar_types.insert("Date".into(), ScalarTypeConfig::SendReceive(SendReceiveScalarTypeConfig { send: "Date | string".into(), receive: "string".into() }));
    }
    // the subject reads it as configuration-file text
    crate::pipeline::via_config_text(&c)
}

thread_local! {
    static REMAP: std::cell::Cell<bool> = const { std::cell::Cell::new(false) };
}
/// the configured operation-input TypeScript text of a scalar under the current configuration
fn scalar_in(name: &str) -> Option<&'static str> {
    if REMAP.with(|r| r.get()) {
        match name {
            "ID" => return Some("string"),
            "Int" => return Some("number | bigint"),
            "Date" => return Some("Date | string"),
            _ => {}
        }
    }
    scalar_ts(name).map(|t| t[0])
}

/// SEM_SCHEMA plus a small input object without defaults/required fields
fn schema_text() -> String {
    format!("{}\ninput Pair {{ a: Int b: [Kind!] m: [[Int]!] d: Date ds: [Date!] }}\nextend type Query {{ pair(p: Pair): Int }}\n", crate::gen_sem::SEM_SCHEMA)
}

struct Subj {
    doc: nitrogql_ast::TypeSystemDocument<'static>,
    schema: graphql_type_system::Schema<std::borrow::Cow<'static, str>, nitrogql_ast::base::Pos>,
    /// [remap][optional]
    worlds: [[World; 2]; 2],
    sch: Sch,
}

fn subj() -> &'static Subj {
    static S: OnceLock<Subj> = OnceLock::new();
    S.get_or_init(|| {
        let texts: &'static Vec<String> = Box::leak(Box::new(vec![schema_text()]));
        let parsed = pipeline::parse_schema_files(texts).unwrap_or_else(|_| crate::report::machinery("C09 schema does not parse"));
        let doc = pipeline::resolve_and_check_schema(parsed).unwrap_or_else(|f| crate::report::machinery(&format!("C09 schema rejected: {:?}", f.diags)));
        let doc: &'static nitrogql_ast::TypeSystemDocument<'static> = Box::leak(Box::new(doc));
        let mk = |optional: bool, remap: bool| {
            let text = pipeline::schema_dts(doc, &cfg(optional, remap)).unwrap_or_else(|e| crate::report::machinery(&format!("schema_dts: {e}"))).buffer;
            let mut w = World::new();
            w.load("schema", &text, &BTreeMap::new()).unwrap_or_else(|e| crate::report::machinery(&format!("R-TS cannot read schema file: {e}")));
            w
        };
        let rdoc = crate::rparse::parse_ts(&schema_text()).unwrap();
        let _ = subject_schema;
        let _ = sem_schema;
        Subj { doc: doc.clone(), schema: pipeline::to_schema(doc), worlds: [[mk(false, false), mk(true, false)], [mk(false, true), mk(true, true)]], sch: Sch::from_doc(&rdoc).unwrap() }
    })
}

fn wrap(base: &str, shape: usize) -> Ty {
    let t = Ty::named(base);
    match shape {
        0 => t,
        1 => Ty::nn(t),
        2 => Ty::list(t),
        3 => Ty::list(Ty::nn(t)),
        4 => Ty::nn(Ty::list(t)),
        5 => Ty::nn(Ty::list(Ty::nn(t))),
        6 => Ty::list(Ty::list(t)),
        7 => Ty::nn(Ty::list(Ty::nn(Ty::list(Ty::nn(t))))),
        // the two list levels differ in nullability
        8 => Ty::list(Ty::nn(Ty::list(t))),
        _ => Ty::nn(Ty::list(Ty::list(Ty::nn(t)))),
    }
}

fn default_for(sch: &Sch, ty: &Ty) -> Value {
    match ty {
        Ty::NonNull(t) => default_for(sch, t),
        Ty::List(..) => Value::List(P::default(), vec![]),
        Ty::Named(n) => {
            if n.s == "Pair" {
                Value::Obj(P::default(), vec![])
            } else {
                crate::gen_sem::simple_literal(sch, &n.s)
            }
        }
    }
}

// ---------------- R-COERCE on abstract values

fn scalar_input_member(name: &str, v: &Val) -> bool {
    let Some(ts) = scalar_in(name) else { return false };
    let w = World::new();
    match parse_type(ts).and_then(|te| w.eval_in_empty(&te)) {
        Ok(t) => w.member(v, &t).unwrap_or(false),
        Err(_) => false,
    }
}

/// does variable coercion accept `v` (None = not provided) for a location of type `ty` (`has_default`)?
fn coercible(sch: &Sch, v: Option<&Val>, ty: &Ty, has_default: bool) -> bool {
    match v {
        None => !ty.is_nonnull() || has_default,
        Some(Val::Null) => !ty.is_nonnull(),
        Some(x) => coercible_inner(sch, x, ty.nullable()),
    }
}
fn coercible_inner(sch: &Sch, x: &Val, ty: &Ty) -> bool {
    match ty {
        Ty::NonNull(t) => *x != Val::Null && coercible_inner(sch, x, t),
        Ty::List(_, item) => match x {
            Val::List(xs) => xs.iter().all(|i| coercible(sch, Some(i), item, false)),
            // a single value is coerced to a list of one item
            other => coercible(sch, Some(other), item, false),
        },
        Ty::Named(n) => match sch.kind(&n.s) {
            Some(TsKind::Enum) => matches!(x, Val::Str(s) if sch.types[&n.s].values.iter().any(|m| m.name.s == *s)),
            Some(TsKind::Input) => match x {
                Val::Rec(m) => {
                    let def = &sch.types[&n.s];
                    m.keys().all(|k| def.input_fields.iter().any(|f| f.name.s == *k)) && def.input_fields.iter().all(|f| coercible(sch, m.get(&f.name.s), &f.ty, f.default.is_some()))
                }
                _ => false,
            },
            _ => scalar_input_member(&n.s, x),
        },
    }
}

/// explicit coercible values of a type: lists as arrays; a few representatives per position
fn explicit_values(sch: &Sch, ty: &Ty, optional_on: bool, depth: usize) -> Vec<Val> {
    let mut out = vec![];
    if !ty.is_nonnull() {
        out.push(Val::Null);
    }
    match ty.nullable() {
        Ty::NonNull(_) => unreachable!(),
        Ty::List(_, item) => {
            let items = explicit_values(sch, item, optional_on, depth);
            out.push(Val::List(vec![]));
            for i in items.iter().take(4) {
                out.push(Val::List(vec![i.clone()]));
            }
            if items.len() >= 2 {
                out.push(Val::List(vec![items[0].clone(), items[items.len() - 1].clone()]));
            }
        }
        Ty::Named(n) => match sch.kind(&n.s) {
            Some(TsKind::Enum) => out.extend(sch.types[&n.s].values.iter().map(|v| Val::Str(v.name.s.clone()))),
            Some(TsKind::Input) => {
                if depth == 0 {
                    return out;
                }
                let def = &sch.types[&n.s];
                // all fields explicit (first representative each), then vary one field at a time
                let per_field: Vec<(String, Vec<Val>, bool)> = def
                    .input_fields
                    .iter()
                    .map(|f| {
                        let mut vs = explicit_values(sch, &f.ty, optional_on, depth - 1);
                        if vs.is_empty() {
                            vs.push(Val::Null);
                        }
                        (f.name.s.clone(), vs, !f.ty.is_nonnull())
                    })
                    .collect();
                // the recursive field may have no non-null representative at depth 0: then it is given as null
                let base: BTreeMap<String, Val> = per_field.iter().map(|(k, vs, _)| (k.clone(), vs.iter().find(|v| **v != Val::Null).unwrap_or(&vs[0]).clone())).collect();
                out.push(Val::Rec(base.clone()));
                for (k, vs, nullable) in &per_field {
                    for v in vs {
                        let mut m = base.clone();
                        m.insert(k.clone(), v.clone());
                        out.push(Val::Rec(m));
                    }
                    if *nullable && optional_on {
                        let mut m = base.clone();
                        m.remove(k);
                        out.push(Val::Rec(m));
                    }
                }
            }
            _ => {
                // every representative member of the configured input TypeScript type
                let ts = scalar_in(&n.s).unwrap_or("never");
                let w = World::new();
                if let Ok(t) = parse_type(ts).and_then(|te| w.eval_in_empty(&te)) {
                    let mut e = Enum { world: &w, cap: 100, truncated: false };
                    out.extend(e.members(&t, 3));
                }
            }
        },
    }
    out.sort();
    out.dedup();
    out
}

struct Cnt {
    ops: AtomicU64,
    members: AtomicU64,
    explicit: AtomicU64,
    truncated: AtomicU64,
}

fn check_op(rep: &Reporter, vars: &[VarDef], optional_on: bool, remap: bool, cnt: &Cnt, picks: Vec<u16>) {
    REMAP.with(|r| r.set(remap));
    let s = subj();
    let doc = ExecDoc { defs: vec![ExecDef::Op { p: P::default(), kind: OpKind::Query, name: Some(nm("Q")), vars: Some((P::default(), vars.to_vec())), dirs: vec![], sel: selset(vec![crate::gen_sem::typename()]) }] };
    let text = crate::render::exec_text(&doc);
    let case = |extra: J| json!({"text": text, "allowUndefinedAsOptionalInput": optional_on, "builtin_scalars_retyped_by_config": remap, "picks": picks, "detail": extra});
    let ops = vec![(PathBuf::from("/p/a.graphql"), text.clone())];
    let r = catch(|| {
        let loaded = pipeline::load_operations(&ops, 1).map_err(|f| format!("{:?}", f.diags))?;
        pipeline::check_operations(&s.schema, &loaded).map_err(|f| format!("rejected: {:?}", f.diags.iter().map(|d| format!("{}:{}", d.kind, d.msg)).collect::<Vec<_>>()))?;
        Ok::<_, String>(pipeline::operation_dts(&s.schema, &loaded[0].1, &cfg(optional_on, remap), "./schema.js").buffer)
    });
    let dts = match r {
        Err(p) => return rep.report(Violation { key: format!("panic@{}", p.key()), what: format!("panic at {}: {}", p.site, p.msg), case: case(json!({})) }),
        Ok(Err(e)) => {
            // a rejected operation is outside C09 ("accepted operations"); defaults are literals of the right type, so this is unexpected
            return rep.report(Violation { key: "machinery.operation_rejected".into(), what: e, case: case(json!({})) });
        }
        Ok(Ok(d)) => d,
    };
    cnt.ops.fetch_add(1, Ordering::Relaxed);
    let mut world = s.worlds[remap as usize][optional_on as usize].clone();
    let mut imports = BTreeMap::new();
    imports.insert("./schema.js".to_string(), "schema".to_string());
    if let Err(e) = world.load("op", &dts, &imports) {
        return rep.report(Violation { key: "machinery.rts".into(), what: e, case: case(json!({"dts": dts})) });
    }
    let aliases = typed_document_aliases(&parse_module(&dts).unwrap_or_default());
    let Some((_, _, Some(valias))) = aliases.first().cloned() else {
        return rep.report(Violation { key: "no_variables_type".into(), what: "no Variables type found for the operation".into(), case: case(json!({"dts": dts})) });
    };
    let Ok(vt) = world.local("op", &valias) else {
        return rep.report(Violation { key: "machinery.alias".into(), what: valias, case: case(json!({"dts": dts})) });
    };
    let shape_tag = |v: &VarDef| format!("{}{}", crate::c03::shape(&s.sch, &v.ty), if v.default.is_some() { "=default" } else { "" });
    // (subset)
    let mut en = Enum { world: &world, cap: 4000, truncated: false };
    let members = en.members(&vt, 6);
    if en.truncated {
        cnt.truncated.fetch_add(1, Ordering::Relaxed);
    }
    for m in &members {
        cnt.members.fetch_add(1, Ordering::Relaxed);
        let Val::Rec(rec) = m else {
            rep.report(Violation { key: "admits_non_object".into(), what: format!("{valias} admits a non-object {}", m.show()), case: case(json!({"dts": dts})) });
            break;
        };
        let mut bad = None;
        for v in vars {
            if !coercible(&s.sch, rec.get(&v.name.s), &v.ty, v.default.is_some()) {
                bad = Some(v);
                break;
            }
        }
        if let Some(v) = bad {
            rep.report(Violation {
                key: format!("admits_uncoercible[{}]", shape_tag(v)),
                what: format!("{valias} admits {} but variable coercion rejects it for ${}: {}", m.show(), v.name.s, v.ty.show()),
                case: case(json!({"value": m.show(), "dts": dts})),
            });
            break;
        }
    }
    // (superset)
    let per_var: Vec<Vec<Option<Val>>> = vars
        .iter()
        .map(|v| {
            let mut vs: Vec<Option<Val>> = explicit_values(&s.sch, &v.ty, optional_on, 2).into_iter().map(Some).collect();
            // omission of a nullable variable: explicit-set member iff the option is on (checked separately below)
            vs.truncate(60);
            vs
        })
        .collect();
    // every variable at its first value, then vary one variable at a time (deviation-bounded product)
    let base: Vec<Option<Val>> = per_var.iter().map(|vs| vs.iter().find(|v| **v != Some(Val::Null)).or(vs.first()).cloned().flatten()).collect();
    let mut assignments: Vec<(usize, Vec<Option<Val>>)> = vec![(usize::MAX, base.clone())];
    for (i, vs) in per_var.iter().enumerate() {
        for v in vs {
            let mut a = base.clone();
            a[i] = v.clone();
            assignments.push((i, a));
        }
    }
    for (vi, a) in &assignments {
        cnt.explicit.fetch_add(1, Ordering::Relaxed);
        let rec: BTreeMap<String, Val> = vars.iter().zip(a.iter()).filter_map(|(v, x)| x.clone().map(|x| (v.name.s.clone(), x))).collect();
        let val = Val::Rec(rec);
        match world.member(&val, &vt) {
            Ok(true) => {}
            Ok(false) => {
                let v = &vars[if *vi == usize::MAX { 0 } else { *vi }];
                let path = world.explain(&val, &vt);
                rep.report(Violation {
                    key: format!("rejects_explicit[{}]", shape_tag(v)),
                    what: format!("{valias} does not admit the explicit coercible assignment {}", val.show()),
                    case: case(json!({"value": val.show(), "failing_path": path, "dts": dts})),
                });
                break;
            }
            Err(e) => {
                rep.report(Violation { key: "machinery.member".into(), what: e, case: case(json!({"dts": dts})) });
                break;
            }
        }
    }
    // omission of nullable variables: admitted exactly when the option is on
    for (i, v) in vars.iter().enumerate() {
        if v.ty.is_nonnull() {
            continue;
        }
        let rec: BTreeMap<String, Val> = vars.iter().zip(base.iter()).enumerate().filter(|(j, _)| *j != i).filter_map(|(_, (v, x))| x.clone().map(|x| (v.name.s.clone(), x))).collect();
        let val = Val::Rec(rec);
        let is_member = world.member(&val, &vt).unwrap_or(false);
        if is_member != optional_on {
            rep.report(Violation {
                key: format!("omission_{}[{}]", if optional_on { "rejected_although_option_on" } else { "admitted_although_option_off" }, if v.default.is_some() { "nullable-with-default" } else { "nullable" }),
                what: format!("omitting nullable ${} is {} by {valias} but allowUndefinedAsOptionalInput is {}", v.name.s, if is_member { "admitted" } else { "rejected" }, optional_on),
                case: case(json!({"value": val.show(), "dts": dts})),
            });
        }
    }
}

/// The options that shape the input types travel from the configuration file through the CLI to two printers (schema
/// declarations and operation declarations). Every combination of them x which outputs are configured is generated by
/// the real binary and must equal, byte for byte, what the library entry points give for the same configuration text.
fn part_cli(args: &RunArgs, rep: &Reporter) -> J {
    use crate::clilayer::{CProj, run_and_compare, run_and_compare_after};
    let docs: Vec<String> = crate::c12::var_matrix_docs().into_iter().step_by(if args.quick() { 9 } else { 3 }).collect();
    let ops: Vec<(String, String)> = docs.iter().enumerate().map(|(i, t)| (format!("src/q{i:03}.graphql"), t.clone())).collect();
    let mut configs: Vec<(String, CProj)> = vec![];
    let mut coords: Vec<(Option<bool>, bool, bool, usize, bool)> = vec![];
    for optional in [None, Some(true), Some(false)] {
        for resolvers in [false, true] {
            for server in [false, true] {
                for mode in 0..3usize {
                    for remap in [false, true] {
                        if args.quick() && mode == 1 {
                            continue;
                        }
                        let mut p = CProj::new(vec![("schema/s.graphql".to_string(), crate::gen_sem::SEM_SCHEMA.to_string())], ops.clone());
                        p.mode = mode;
                        p.resolvers_out = resolvers.then(|| "generated/resolvers.d.ts".to_string());
                        p.server_out = server.then(|| "generated/graphql.ts".to_string());
                        let mut y = String::from("      type:\n        scalarTypes:\n          Date: string\n");
                        if remap {
                            y.push_str("          ID: string\n          Int: { send: \"number | bigint\", receive: number }\n");
                        }
                        if let Some(o) = optional {
                            y.push_str(&format!("        allowUndefinedAsOptionalInput: {o}\n"));
                        }
                        p.extra_generate = y;
                        configs.push((format!("allowUndefinedAsOptionalInput={optional:?} resolvers={resolvers} server={server} mode={mode} remap={remap}"), p));
                        coords.push((optional, resolvers, server, mode, remap));
                    }
                }
            }
        }
    }
    let files = AtomicU64::new(0);
    let accepted = AtomicU64::new(0);
    crate::explore::par_for(configs.len(), args.threads, |i| {
        let (tag, p) = &configs[i];
        let case = |extra: J| json!({"part": "cli", "configuration": tag, "config_text": p.yaml(), "detail": extra});
        match run_and_compare(p, "c09") {
            Err(pn) => rep.report(Violation { key: format!("cli.library_panic@{}", pn.key()), what: format!("library entry points panic at {}: {}", pn.site, pn.msg), case: case(json!({})) }),
            Ok(Err(e)) => rep.report(Violation { key: "machinery.clilayer".into(), what: e, case: case(json!({})) }),
            Ok(Ok(r)) => {
                if r.accepted {
                    accepted.fetch_add(1, Ordering::Relaxed);
                }
                files.fetch_add(r.files_compared as u64, Ordering::Relaxed);
                for (k, w) in &r.diffs {
                    rep.report(Violation { key: format!("cli.{k}"), what: format!("{tag}: {w}"), case: case(json!({"cli_exit": r.cli.code, "cli_stdout": r.cli.stdout.chars().take(2000).collect::<String>()})) });
                }
            }
        }
    });
    // histories: the project was generated under a configuration that differs in one input-type option only (the
    // option's next value, or the other scalar mapping); then only the configuration file is edited and generate runs
    // again. The second run must leave what a run in a clean directory leaves.
    let histories = AtomicU64::new(0);
    crate::explore::par_for(configs.len() * 2, args.threads, |k| {
        let (i, which) = (k / 2, k % 2);
        let (o, r, sv, m, rm) = coords[i];
        let earlier = if which == 0 {
            let next = match o { None => Some(true), Some(true) => Some(false), Some(false) => None };
            coords.iter().position(|c| *c == (next, r, sv, m, rm))
        } else {
            coords.iter().position(|c| *c == (o, r, sv, m, !rm))
        };
        let Some(j) = earlier else { return };
        let (tag, p) = &configs[i];
        let case = |extra: J| json!({"part": "cli-history", "generated_first_under": configs[j].0, "then_under": tag, "config_text": p.yaml(), "detail": extra});
        histories.fetch_add(1, Ordering::Relaxed);
        match run_and_compare_after(Some(&configs[j].1), p, "c09") {
            Err(pn) => rep.report(Violation { key: format!("cli.library_panic@{}", pn.key()), what: format!("library entry points panic at {}: {}", pn.site, pn.msg), case: case(json!({})) }),
            Ok(Err(e)) => rep.report(Violation { key: "machinery.clilayer".into(), what: e, case: case(json!({})) }),
            Ok(Ok(r)) => {
                files.fetch_add(r.files_compared as u64, Ordering::Relaxed);
                for (k, w) in &r.diffs {
                    rep.report(Violation { key: format!("cli.after_a_configuration_edit.{k}"), what: format!("generated under [{}], configuration edited to [{tag}], generated again: {w}", configs[j].0), case: case(json!({"cli_exit": r.cli.code, "cli_stdout": r.cli.stdout.chars().take(2000).collect::<String>()})) });
                }
            }
        }
    });
    crate::cli::cleanup("c09");
    if accepted.load(Ordering::Relaxed) as usize != configs.len() {
        rep.report(Violation { key: "machinery.c09_cli_projects".into(), what: format!("only {} of {} configurations were accepted by both routes", accepted.load(Ordering::Relaxed), configs.len()), case: json!({}) });
    }
    json!({"configurations": configs.len(), "histories_generate_edit_configuration_generate": histories.load(Ordering::Relaxed), "operation_files": ops.len(), "files_compared_bytewise": files.load(Ordering::Relaxed)})
}

pub fn run(args: &RunArgs) -> i32 {
    let rep = Reporter::new("C09", &args.tier);
    crate::util::install_hook();
    let cli_part = part_cli(args, &rep);
    let _ = subj();
    let cnt = Cnt { ops: AtomicU64::new(0), members: AtomicU64::new(0), explicit: AtomicU64::new(0), truncated: AtomicU64::new(0) };
    let distinct = DistinctSet::new();
    let sample: Mutex<Option<String>> = Mutex::new(None);
    // the space is a plain product; E1 with a bound equal to the number of choice points enumerates it completely
    let nvars_max = if args.quick() { 1 } else { 2 };
    let stats = explore(&ExploreCfg { max_dev: if args.quick() { 6 } else { 7 }, threads: args.threads, budget: Duration::from_secs(if args.quick() { 50 } else { 2400 }) }, |c: &mut Chooser| {
        let optional_on = !c.flag("option.off");
        let remap = c.flag("config.retypes_builtin_scalars");
        let n = 1 + c.choose("vars-1", nvars_max);
        let mut vars = vec![];
        for i in 0..n {
            let base = BASES[c.choose("var.base", BASES.len())];
            let shape = c.choose("var.shape", 10);
            let ty = wrap(base, shape);
            let default = if c.flag("var.default") { Some(default_for(&subj().sch, &ty)) } else { None };
            vars.push(VarDef { p: P::default(), name: nm(&format!("v{i}")), ty, default, dirs: vec![] });
        }
        let key = format!("{optional_on}{remap}{vars:?}");
        if !distinct.insert(fnv(key.as_bytes())) {
            return;
        }
        if c.deviations() == 3 {
            let mut s = sample.lock().unwrap();
            if s.is_none() {
                *s = Some(format!("{} (option {})", vars.iter().map(|v| format!("${}: {}{}", v.name.s, v.ty.show(), if v.default.is_some() { " = <default>" } else { "" })).collect::<Vec<_>>().join(", "), optional_on));
            }
        }
        check_op(&rep, &vars, optional_on, remap, &cnt, c.picks());
    });
    let cov = json!({
        "states": distinct.len(),
        "transitions": stats.choice_edges,
        "traces_validated_against_impl": cnt.members.load(Ordering::Relaxed) + cnt.explicit.load(Ordering::Relaxed),
        "evaluations": distinct.len(),
        "distinct_nontrivial": cnt.ops.load(Ordering::Relaxed),
        "rule": "product of (option, 1..n variables, 10 base types, 8 wrapper shapes, default) enumerated by E1 with a deviation bound; distinct by (option, variable list); non-trivial = accepted by check, Variables type generated and read",
        "exhaustive": true,
        "explorer": stats_json(&stats),
        "operations_checked": cnt.ops.load(Ordering::Relaxed),
        "type_members_tested_for_coercibility": cnt.members.load(Ordering::Relaxed),
        "explicit_assignments_tested_for_membership": cnt.explicit.load(Ordering::Relaxed),
        "operations_with_truncated_member_enumeration": cnt.truncated.load(Ordering::Relaxed),
        "through_the_cli": cli_part,
        "samples": [sample.lock().unwrap().clone().unwrap_or_default()],
    });
    rep.finish(
        cov,
        vec![
            "R-TS reads the emitted types; R-COERCE (spec 6.1.2 / 3.10-3.13) on abstract values; scalars use the configured *input* TypeScript text (harness table)".into(),
            "explicit assignments give lists as arrays; a required non-null variable with a default, and single-value-for-list members, are inside the subset direction and not alarms".into(),
        ],
    )
}

pub fn replay(case: &J) -> i32 {
    println!("{}\noption: {}\n{}", case["text"].as_str().unwrap_or(""), case["allowUndefinedAsOptionalInput"], serde_json::to_string_pretty(&case["detail"]).unwrap_or_default().replace("\\n", "\n"));
    0
}
