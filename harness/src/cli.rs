//! Running the built `nitrogql-cli` binary on a materialised project directory and observing
//! exit status, stdout, stderr and the file system before/after.

use std::cell::RefCell;
use std::collections::BTreeMap;
use std::path::{Path, PathBuf};
use std::process::{Command, Stdio};
use std::sync::atomic::{AtomicUsize, Ordering};
use std::time::{Duration, Instant};

pub type Tree = BTreeMap<String, Vec<u8>>;

#[derive(Clone, Debug, Default)]
pub struct Project {
    /// relative path -> content
    pub files: BTreeMap<String, String>,
}

#[derive(Clone, Debug)]
pub struct CliRun {
    pub code: Option<i32>,
    pub timed_out: bool,
    pub stdout: String,
    pub stderr: String,
    pub before: Tree,
    pub after: Tree,
}

impl CliRun {
    /// files created or changed by the run
    pub fn written(&self) -> Vec<String> {
        self.after.iter().filter(|(k, v)| self.before.get(*k) != Some(v)).map(|(k, _)| k.clone()).collect()
    }
    pub fn removed(&self) -> Vec<String> {
        self.before.keys().filter(|k| !self.after.contains_key(*k)).cloned().collect()
    }
}

pub fn cli_path() -> String {
    std::env::var("NQV_CLI").unwrap_or_else(|_| crate::report::machinery("NQV_CLI is not set (run through /verif/check)"))
}

static NEXT: AtomicUsize = AtomicUsize::new(0);
thread_local! {
    static DIR: RefCell<Option<PathBuf>> = const { RefCell::new(None) };
}

/// a scratch directory owned by the calling thread (under NQV_TMP, removed by `cleanup`)
pub fn thread_dir(tag: &str) -> PathBuf {
    DIR.with(|d| {
        let mut d = d.borrow_mut();
        if d.is_none() {
            let base = std::env::var("NQV_TMP").unwrap_or_else(|_| format!("{}/.build/tmp", crate::report::verif_root()));
            let p = PathBuf::from(base).join(format!("{tag}-{}", std::process::id())).join(format!("t{}", NEXT.fetch_add(1, Ordering::Relaxed)));
            *d = Some(p);
        }
        d.clone().unwrap()
    })
}

pub fn cleanup(tag: &str) {
    let base = std::env::var("NQV_TMP").unwrap_or_else(|_| format!("{}/.build/tmp", crate::report::verif_root()));
    let _ = std::fs::remove_dir_all(PathBuf::from(base).join(format!("{tag}-{}", std::process::id())));
}

/// a project file whose text starts with this mark is created as a symbolic link to the path that follows
pub const SYMLINK_MARK: &str = "\u{0}symlink:";

pub fn materialize(dir: &Path, p: &Project) {
    let _ = std::fs::remove_dir_all(dir);
    for (rel, text) in &p.files {
        let path = dir.join(rel);
        if let Some(parent) = path.parent() {
            std::fs::create_dir_all(parent).unwrap_or_else(|e| crate::report::machinery(&format!("mkdir {parent:?}: {e}")));
        }
        if let Some(target) = text.strip_prefix(SYMLINK_MARK) {
            std::os::unix::fs::symlink(target, &path).unwrap_or_else(|e| crate::report::machinery(&format!("symlink {path:?}: {e}")));
            continue;
        }
        std::fs::write(&path, text).unwrap_or_else(|e| crate::report::machinery(&format!("write {path:?}: {e}")));
    }
}

/// write the project's files over an existing directory (nothing is removed): the state between two runs
pub fn overwrite(dir: &Path, p: &Project) {
    for (rel, text) in &p.files {
        let path = dir.join(rel);
        if let Some(parent) = path.parent() {
            std::fs::create_dir_all(parent).unwrap_or_else(|e| crate::report::machinery(&format!("mkdir {parent:?}: {e}")));
        }
        // an edit writes the files it changes and leaves the others (and their modification times) alone
        if std::fs::read(&path).ok().as_deref() == Some(text.as_bytes()) {
            continue;
        }
        std::fs::write(&path, text).unwrap_or_else(|e| crate::report::machinery(&format!("write {path:?}: {e}")));
    }
}

pub fn snapshot(dir: &Path) -> Tree {
    fn walk(root: &Path, d: &Path, out: &mut Tree) {
        let Ok(rd) = std::fs::read_dir(d) else { return };
        for e in rd.flatten() {
            let p = e.path();
            let Ok(ft) = e.file_type() else { continue };
            if ft.is_dir() {
                walk(root, &p, out);
                // an empty directory is a change too
                out.entry(format!("{}/", p.strip_prefix(root).unwrap().to_string_lossy())).or_default();
            } else {
                out.insert(p.strip_prefix(root).unwrap().to_string_lossy().to_string(), std::fs::read(&p).unwrap_or_default());
            }
        }
    }
    let mut t = Tree::new();
    walk(dir, dir, &mut t);
    // directory markers only matter when the directory has no file in it
    let dirs: Vec<String> = t.keys().filter(|k| k.ends_with('/')).cloned().collect();
    for d in dirs {
        if t.keys().any(|k| k.starts_with(&d) && k != &d && !k.ends_with('/')) {
            t.remove(&d);
        }
    }
    t
}

/// Run the CLI in `dir` (project root; stdout/stderr are collected next to it, not inside).
pub fn run(dir: &Path, args: &[String], env: &[(&str, &str)], timeout: Duration) -> CliRun {
    run_in(dir, "", args, env, timeout)
}

/// the same, started in the sub-directory `cwd_rel` of the project (relative paths in `args` are the caller's business)
pub fn run_in(dir: &Path, cwd_rel: &str, args: &[String], env: &[(&str, &str)], timeout: Duration) -> CliRun {
    let before = snapshot(dir);
    let side = PathBuf::from(format!("{}.io", dir.to_string_lossy()));
    std::fs::create_dir_all(&side).unwrap_or_else(|e| crate::report::machinery(&format!("mkdir {side:?}: {e}")));
    let (so, se) = (side.join("stdout"), side.join("stderr"));
    let mk = |p: &Path| std::fs::File::create(p).unwrap_or_else(|e| crate::report::machinery(&format!("create {p:?}: {e}")));
    let mut cmd = Command::new(cli_path());
    cmd.current_dir(if cwd_rel.is_empty() { dir.to_path_buf() } else { dir.join(cwd_rel) }).args(args).stdin(Stdio::null()).stdout(mk(&so)).stderr(mk(&se));
    cmd.env("NO_COLOR", "1").env_remove("RUST_LOG").env("RUST_BACKTRACE", "0");
    for (k, v) in env {
        cmd.env(k, v);
    }
    let mut child = cmd.spawn().unwrap_or_else(|e| crate::report::machinery(&format!("cannot start {}: {e}", cli_path())));
    let start = Instant::now();
    let mut nap = Duration::from_micros(150);
    let (mut code, mut timed_out) = (None, false);
    loop {
        match child.try_wait() {
            Ok(Some(st)) => {
                code = st.code();
                break;
            }
            Ok(None) => {
                if start.elapsed() > timeout {
                    let _ = child.kill();
                    let _ = child.wait();
                    timed_out = true;
                    break;
                }
                std::thread::sleep(nap);
                nap = (nap * 2).min(Duration::from_millis(5));
            }
            Err(e) => crate::report::machinery(&format!("wait: {e}")),
        }
    }
    let stdout = String::from_utf8_lossy(&std::fs::read(&so).unwrap_or_default()).to_string();
    let stderr = String::from_utf8_lossy(&std::fs::read(&se).unwrap_or_default()).to_string();
    let after = snapshot(dir);
    CliRun { code, timed_out, stdout, stderr, before, after }
}

/// lexical normalisation of a path string: drops `.` components, resolves `..`
pub fn norm_path(p: &str) -> String {
    let mut out: Vec<&str> = vec![];
    for c in p.split('/') {
        match c {
            "" | "." => {}
            ".." => {
                out.pop();
            }
            c => out.push(c),
        }
    }
    format!("{}{}", if p.starts_with('/') { "/" } else { "" }, out.join("/"))
}

/// strip ANSI colour sequences
pub fn strip_ansi(s: &str) -> String {
    let mut out = String::with_capacity(s.len());
    let mut it = s.chars().peekable();
    while let Some(c) = it.next() {
        if c == '\u{1b}' && it.peek() == Some(&'[') {
            it.next();
            for d in it.by_ref() {
                if d.is_ascii_alphabetic() {
                    break;
                }
            }
        } else {
            out.push(c);
        }
    }
    out
}
