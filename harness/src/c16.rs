//! C16 — the emitted server schema string re-parses to the schema that was checked; and printing
//! any parsed document and re-parsing it yields the same document.
//!
//! Part A: schema variations (C05's generator) with hostile strings at description / default /
//! directive-argument sites -> real `serverGraphqlOutput` module text -> own evaluation of the
//! template literal -> R-PARSE (the spec reading a server applies) -> must equal the reference
//! merge of the model minus nitrogql-only directives.
//! Part B: for C07's syntactic documents, parse(print(parse(t))) must equal parse(t).

use crate::c05;
use crate::c07::{Base, generate};
use crate::conv;
use crate::explore::{Chooser, DistinctSet, ExploreCfg, explore, fnv};
use crate::gql::*;
use crate::pipeline;
use crate::render::ts_text;
use crate::report::{Args as RunArgs, Reporter, Violation, stats_json};
use crate::rparse::{block_string_value, parse_ts};
use crate::rts::{Decl, parse_module};
use crate::schema::{BUILTIN_SCALARS, merge_extensions};
use crate::util::catch;
use crate::valid_ts;
use nitrogql_parser::{parse_operation_document, parse_type_system_document};
use nitrogql_printer::GraphQLPrinter;
use serde_json::{Value as J, json};
use sourcemap_writer::JustWriter;
use std::collections::BTreeMap;
use std::sync::Mutex;
use std::sync::atomic::{AtomicU64, Ordering};
use std::time::Duration;

pub const HOSTILE: [(&str, &str); 18] = [
    ("plain", "plain"),
    ("double-quote", "a \"q\" b"),
    ("backslash", "a \\ b"),
    ("backtick", "a ` b"),
    ("dollar-brace", "a ${x} b"),
    ("dollar-at-end", "cost $"),
    ("dollar-then-newline", "US$\n{rounded}"),
    ("newline", "line1\nline2"),
    ("triple-quote", "a \"\"\" b"),
    ("triple-quote-multiline", "a \"\"\"\nb"),
    ("non-ascii", "é 😀"),
    ("control-char", "a\u{1}b"),
    ("trailing-backslash", "dir\\"),
    ("indented-multiline", "  first\n    second\n"),
    ("carriage-return-only", "a\rb"),
    ("cr-lf", "a\r\nb"),
    ("whitespace-only-interior-line", "a\n   \nb"),
    ("spaces-only", "   "),
];

/// evaluate the cooked value of a no-substitution template literal
pub fn eval_template(raw: &str) -> Result<String, String> {
    let cs: Vec<char> = raw.chars().collect();
    let mut out = String::new();
    let mut i = 0;
    while i < cs.len() {
        let c = cs[i];
        if c == '$' && cs.get(i + 1) == Some(&'{') {
            return Err("the template literal contains a ${ substitution".into());
        }
        if c == '\r' {
            // CR and CRLF are normalised to LF in template values
            out.push('\n');
            if cs.get(i + 1) == Some(&'\n') {
                i += 1;
            }
            i += 1;
            continue;
        }
        if c != '\\' {
            out.push(c);
            i += 1;
            continue;
        }
        i += 1;
        let Some(&e) = cs.get(i) else { return Err("dangling backslash".into()) };
        i += 1;
        match e {
            'n' => out.push('\n'),
            'r' => out.push('\r'),
            't' => out.push('\t'),
            'b' => out.push('\u{8}'),
            'f' => out.push('\u{c}'),
            'v' => out.push('\u{b}'),
            '0' if !cs.get(i).is_some_and(|d| d.is_ascii_digit()) => out.push('\0'),
            'x' => {
                let h: String = cs.get(i..i + 2).map(|x| x.iter().collect()).unwrap_or_default();
                out.push(char::from_u32(u32::from_str_radix(&h, 16).map_err(|_| "bad \\x escape")?).ok_or("bad \\x")?);
                i += 2;
            }
            'u' => {
                if cs.get(i) == Some(&'{') {
                    let end = cs[i..].iter().position(|c| *c == '}').ok_or("bad \\u{")? + i;
                    let h: String = cs[i + 1..end].iter().collect();
                    out.push(char::from_u32(u32::from_str_radix(&h, 16).map_err(|_| "bad \\u{}")?).ok_or("bad \\u{}")?);
                    i = end + 1;
                } else {
                    let h: String = cs.get(i..i + 4).map(|x| x.iter().collect()).unwrap_or_default();
                    out.push(char::from_u32(u32::from_str_radix(&h, 16).map_err(|_| "bad \\u escape")?).unwrap_or('\u{fffd}'));
                    i += 4;
                }
            }
            '\n' => {} // line continuation
            d if d.is_ascii_digit() => return Err("octal escape in template literal".into()),
            other => out.push(other),
        }
    }
    Ok(out)
}

#[derive(Clone, Debug)]
enum StrSite {
    DefDesc(usize),
    FieldDesc(usize, usize),
    ArgDesc(usize, usize, usize),
    ArgDefault(usize, usize, usize),
    EnumValueDesc(usize, usize),
    InputFieldDesc(usize, usize),
    InputFieldDefault(usize, usize),
    DirArg(usize),
    DeprecationReason(usize, usize),
    /// the string as an item of a list value: `@note(texts: [s, "|"])`, `@note(grid: [[s], []])`,
    /// a list default of an input field, a list inside an object default
    DirListArg(usize),
    DirNestedListArg(usize),
    InputFieldListDefault(usize, usize),
    InputFieldObjectDefault(usize, usize),
}

fn string_sites(doc: &TsDoc) -> Vec<(StrSite, &'static str)> {
    let mut out = vec![];
    for (i, d) in doc.defs.iter().enumerate() {
        if d.ext {
            continue;
        }
        if d.kind != TsKind::Directive || true {
            out.push((StrSite::DefDesc(i), "description"));
        }
        for (j, f) in d.fields.iter().enumerate() {
            out.push((StrSite::FieldDesc(i, j), "description"));
            out.push((StrSite::DeprecationReason(i, j), "directive-argument"));
            for (k, a) in f.args.iter().flatten().enumerate() {
                out.push((StrSite::ArgDesc(i, j, k), "description"));
                if a.ty.base() == "String" && !matches!(a.ty.nullable(), Ty::List(..)) {
                    out.push((StrSite::ArgDefault(i, j, k), "default-value"));
                }
            }
        }
        for j in 0..d.values.len() {
            out.push((StrSite::EnumValueDesc(i, j), "description"));
        }
        for (j, f) in d.input_fields.iter().enumerate() {
            out.push((StrSite::InputFieldDesc(i, j), "description"));
            if f.ty.base() == "String" && !matches!(f.ty.nullable(), Ty::List(..)) {
                out.push((StrSite::InputFieldDefault(i, j), "default-value"));
            }
            if f.name.s == "labels" {
                out.push((StrSite::InputFieldListDefault(i, j), "default-value"));
            }
            if f.name.s == "nested" && d.input_fields.iter().any(|g| g.name.s == "labels") {
                out.push((StrSite::InputFieldObjectDefault(i, j), "default-value"));
            }
        }
        if d.kind == TsKind::Object {
            out.push((StrSite::DirArg(i), "directive-argument"));
            out.push((StrSite::DirListArg(i), "directive-argument"));
            out.push((StrSite::DirNestedListArg(i), "directive-argument"));
        }
    }
    out
}

fn put(doc: &mut TsDoc, site: &StrSite, s: &str) {
    let p = P::default();
    match site {
        StrSite::DefDesc(i) => doc.defs[*i].desc = Some((p, s.to_string())),
        StrSite::FieldDesc(i, j) => doc.defs[*i].fields[*j].desc = Some((p, s.to_string())),
        StrSite::ArgDesc(i, j, k) => doc.defs[*i].fields[*j].args.as_mut().unwrap()[*k].desc = Some((p, s.to_string())),
        StrSite::ArgDefault(i, j, k) => doc.defs[*i].fields[*j].args.as_mut().unwrap()[*k].default = Some(Value::Str(p, s.to_string())),
        StrSite::EnumValueDesc(i, j) => doc.defs[*i].values[*j].desc = Some((p, s.to_string())),
        StrSite::InputFieldDesc(i, j) => doc.defs[*i].input_fields[*j].desc = Some((p, s.to_string())),
        StrSite::InputFieldDefault(i, j) => doc.defs[*i].input_fields[*j].default = Some(Value::Str(p, s.to_string())),
        StrSite::DirArg(i) => doc.defs[*i].dirs.push(dir("note", vec![("text", Value::Str(p, s.to_string()))])),
        StrSite::DeprecationReason(i, j) => doc.defs[*i].fields[*j].dirs.push(dir("deprecated", vec![("reason", Value::Str(p, s.to_string()))])),
        StrSite::DirListArg(i) => doc.defs[*i].dirs.push(dir("note", vec![("texts", Value::List(p, vec![Value::Str(p, s.to_string()), Value::Str(p, "|".into())]))])),
        StrSite::DirNestedListArg(i) => doc.defs[*i].dirs.push(dir("note", vec![("grid", Value::List(p, vec![Value::List(p, vec![Value::Str(p, s.to_string())]), Value::List(p, vec![])]))])),
        StrSite::InputFieldListDefault(i, j) => doc.defs[*i].input_fields[*j].default = Some(Value::List(p, vec![Value::Str(p, s.to_string()), Value::Str(p, "|".into())])),
        StrSite::InputFieldObjectDefault(i, j) => doc.defs[*i].input_fields[*j].default = Some(Value::Obj(p, vec![(nm("labels"), Value::List(p, vec![Value::Str(p, s.to_string())]))])),
    }
}

fn part_a_case(c: &mut Chooser) -> (Vec<TsDoc>, Vec<String>) {
    let base = c05::gen_valid(c);
    let mut files = base.files;
    let mut tags: Vec<String> = vec![];
    // a directive that takes a string, for directive-argument sites
    let mut note = TsDef::new(TsKind::Directive, Some("note"));
    note.locations = vec![nm("OBJECT")];
    note.repeatable = true;
    let list_of = |t: Ty| Ty::List(P::default(), Box::new(t));
    note.dir_args = Some(vec![
        InputValueDef { desc: None, p: P::default(), name: nm("text"), ty: Ty::named("String"), default: None, dirs: vec![] },
        InputValueDef { desc: None, p: P::default(), name: nm("texts"), ty: list_of(Ty::named("String")), default: None, dirs: vec![] },
        InputValueDef { desc: None, p: P::default(), name: nm("grid"), ty: list_of(list_of(Ty::named("String"))), default: None, dirs: vec![] },
    ]);
    files[0].defs.push(note);
    // an input field that takes a list of strings (for list defaults and lists inside object defaults)
    if let Some(d) = files.iter_mut().flat_map(|f| f.defs.iter_mut()).find(|d| d.kind == TsKind::Input && !d.ext && d.name_str() == "Filter") {
        d.input_fields.push(InputValueDef { desc: None, p: P::default(), name: nm("labels"), ty: list_of(Ty::named("String")), default: None, dirs: vec![] });
    }
    // an interface that gains `implements` only through an extension, with nothing else in the schema depending on
    // it: the checker accepts the schema either way, so only the printed string can show whether the merge kept it
    // (seeded change C16-k; in c05's own variant a lost `implements` makes the check fail and the case is skipped here)
    if c.flag("interface.implements_only_by_extension") {
        let mut b = TsDef::new(TsKind::Interface, Some("Base3"));
        b.fields = vec![FieldDef { desc: None, name: nm("b"), args: None, ty: Ty::named("Int"), dirs: vec![] }];
        let mut m = TsDef::new(TsKind::Interface, Some("Mid3"));
        m.fields = b.fields.clone();
        let mut e = TsDef::new(TsKind::Interface, Some("Mid3"));
        e.ext = true;
        e.implements = vec![nm("Base3")];
        if c.flag("interface.extension_before_definition") {
            files[0].defs.insert(0, e);
            files[0].defs.push(b);
            files[0].defs.push(m);
        } else {
            files[0].defs.push(b);
            files[0].defs.push(m);
            files[0].defs.push(e);
        }
        tags.push("interface-implements-only-by-extension".into());
    }
    // a nitrogql-only directive application that must be stripped
    if c.flag("scalar.nitrogql_ts_type") {
        if let Some(d) = files.iter_mut().flat_map(|f| f.defs.iter_mut()).find(|d| d.kind == TsKind::Scalar && !d.ext) {
            let before = c.flag("ts_type.after_other_directive");
            let tt = dir(
                "nitrogql_ts_type",
                vec![
                    ("resolverInput", Value::Str(P::default(), "a".into())),
                    ("resolverOutput", Value::Str(P::default(), "b".into())),
                    ("operationInput", Value::Str(P::default(), "c".into())),
                    ("operationOutput", Value::Str(P::default(), "d".into())),
                ],
            );
            if before {
                d.dirs.push(dir("all", vec![]));
                d.dirs.push(tt);
            } else {
                d.dirs.insert(0, tt);
            }
            tags.push("nitrogql_ts_type".into());
        }
    }
    for _ in 0..2 {
        let sites = string_sites(&files[0]);
        let k = c.choose("string.site", sites.len() + 1);
        if k == 0 {
            continue;
        }
        let (site, kind) = &sites[k - 1];
        let (hname, hstr) = HOSTILE[c.choose("string.content", HOSTILE.len())];
        put(&mut files[0], site, hstr);
        tags.push(format!("{kind}:{hname}"));
    }
    (files, tags)
}

/// strip nitrogql-only directives and builtins from a merged definition list
fn strip(defs: Vec<TsDef>) -> BTreeMap<(TsKind, String), TsDef> {
    let mut m = BTreeMap::new();
    for mut d in defs {
        if d.kind == TsKind::Directive && (d.name_str() == "nitrogql_ts_type" || ["skip", "include", "deprecated", "specifiedBy"].contains(&d.name_str())) {
            continue;
        }
        if d.kind == TsKind::Scalar && BUILTIN_SCALARS.contains(&d.name_str()) {
            continue;
        }
        d.dirs.retain(|x| x.name.s != "nitrogql_ts_type");
        m.insert((d.kind, d.name_str().to_string()), d);
    }
    m
}

/// Cause classes of a string value, by what the printer would have to get right for it:
/// a value without a line feed is printed as a quoted string (escaping matters), a value with one
/// as a block string (BlockStringValue must map the printed text back to the value).
pub fn string_class(s: &str) -> Option<&'static str> {
    if !s.contains('\n') {
        if s.contains('"') || s.contains('\\') {
            return Some("quoted-string-with-quote-or-backslash");
        }
        return None;
    }
    if s.contains("\"\"\"") {
        return Some("block-string-with-triple-quote");
    }
    if s.ends_with('"') || s.ends_with('\\') {
        return Some("block-string-ending-in-quote-or-backslash");
    }
    if block_string_value(s) != s {
        return Some("block-string-with-indentation-or-blank-edge-lines");
    }
    None
}

const CLASS_ORDER: [&str; 4] = ["quoted-string-with-quote-or-backslash", "block-string-with-triple-quote", "block-string-ending-in-quote-or-backslash", "block-string-with-indentation-or-blank-edge-lines"];

/// the first class (in CLASS_ORDER) that some string of the document has
fn short_path(path: &str) -> String {
    let comps: Vec<&str> = path.split('/').collect();
    comps[comps.len().saturating_sub(2)..].join("/")
}

fn primary_class<'a>(strings: impl Iterator<Item = &'a String>) -> &'static str {
    let mut best: Option<usize> = None;
    for s in strings {
        if let Some(c) = string_class(s) {
            let i = CLASS_ORDER.iter().position(|x| *x == c).unwrap();
            best = Some(best.map_or(i, |b| b.min(i)));
        }
    }
    best.map_or("no-string-cause", |i| CLASS_ORDER[i])
}

/// Part C: `serverGraphqlOutput` through the real CLI with every order of the built-in plugins. The
/// model plugin's `@model` (definition and applications) is nitrogql-only and must be stripped,
/// whatever else is configured; everything else must re-parse to the schema.
fn part_c_plugins(rep: &Reporter) -> J {
    use crate::cli::{self, Project};
    let plugin_lists: [&[&str]; 5] = [&[], &["nitrogql:model-plugin"], &["nitrogql:graphql-scalars-plugin"], &["nitrogql:model-plugin", "nitrogql:graphql-scalars-plugin"], &["nitrogql:graphql-scalars-plugin", "nitrogql:model-plugin"]];
    let mut runs = 0u64;
    for plugins in plugin_lists {
        let has_model = plugins.contains(&"nitrogql:model-plugin");
        for with_model_use in [false, true] {
            if with_model_use && !has_model {
                continue;
            }
            let mut doc = c05::base();
            if with_model_use {
                // @model on two fields of one object type, and @model(type:) on another object type
                let post = doc.defs.iter_mut().find(|d| d.name_str() == "Post" && !d.ext).unwrap();
                post.fields[0].dirs.push(dir("model", vec![]));
                post.fields[1].dirs.push(dir("model", vec![]));
                let user = doc.defs.iter_mut().find(|d| d.name_str() == "User" && !d.ext).unwrap();
                user.dirs.push(dir("model", vec![("type", Value::Str(P::default(), "import('x').U".into()))]));
            }
            for (with_namesakes, only_query_root) in [(false, false), (true, false), (false, true), (true, true)] {
            let mut doc = doc.clone();
            if only_query_root {
                // an undecorated schema definition listing only `query: Query`, while `type Mutation` stays an ordinary type
                if let Some(sd) = doc.defs.iter_mut().find(|d| d.kind == TsKind::Schema && !d.ext) {
                    sd.roots.retain(|r| r.0 == OpKind::Query);
                    sd.dirs.clear();
                }
            }
            if with_namesakes {
                // types of every kind named like the directives plugins and nitrogql itself own
                let mut e = TsDef::new(TsKind::Enum, Some("model"));
                e.values = vec![EnumValDef { desc: None, name: nm("A"), dirs: vec![] }];
                doc.defs.push(e);
                doc.defs.push(TsDef::new(TsKind::Scalar, Some("nitrogql_ts_type")));
                let mut i = TsDef::new(TsKind::Input, Some("deprecated"));
                i.input_fields = vec![InputValueDef { desc: None, p: P::default(), name: nm("model"), ty: Ty::named("model"), default: None, dirs: vec![] }];
                doc.defs.push(i);
                let mut u = TsDef::new(TsKind::Union, Some("include"));
                u.members = vec![nm("Post")];
                doc.defs.push(u);
                let mut it = TsDef::new(TsKind::Interface, Some("skip"));
                it.fields = vec![FieldDef { desc: None, name: nm("model"), args: None, ty: Ty::named("model"), dirs: vec![] }];
                doc.defs.push(it);
                let post = doc.defs.iter_mut().find(|d| d.name_str() == "Post" && !d.ext).unwrap();
                post.fields.push(FieldDef { desc: None, name: nm("model"), args: Some(vec![InputValueDef { desc: None, p: P::default(), name: nm("by"), ty: Ty::named("deprecated"), default: None, dirs: vec![] }]), ty: Ty::named("model"), dirs: vec![] });
                post.fields.push(FieldDef { desc: None, name: nm("raw"), args: None, ty: Ty::named("nitrogql_ts_type"), dirs: vec![] });
                post.fields.push(FieldDef { desc: None, name: nm("inc"), args: None, ty: Ty::named("include"), dirs: vec![] });
            }
            let schema_text = ts_text(&doc);
            let mut y = String::from("schema: ./schema.graphql\ndocuments: ./ops/*.graphql\nextensions:\n  nitrogql:\n");
            if !plugins.is_empty() {
                y.push_str("    plugins:\n");
                for p in plugins {
                    y.push_str(&format!("      - \"{p}\"\n"));
                }
            }
            y.push_str("    generate:\n      schemaOutput: ./g/schema.d.ts\n      resolversOutput: ./g/resolvers.d.ts\n      serverGraphqlOutput: ./g/server.ts\n      type:\n        scalarTypes:\n          Version: string\n          nitrogql_ts_type: string\n");
            let mut p = Project::default();
            p.files.insert("schema.graphql".into(), schema_text.clone());
            p.files.insert("ops/q.graphql".into(), "query Q { kind }\n".into());
            p.files.insert("graphql.config.yaml".into(), y.clone());
            // history: the project was first generated with the schema pattern pointing at another (older, still present)
            // schema file; then only the configuration is edited. The module must denote the schema of THIS run.
            p.files.insert("old.graphql".into(), "type Query { kind: Int oldOnly: Int }\nscalar Version\n".into());
            let mut earlier = p.clone();
            earlier.files.insert("graphql.config.yaml".into(), y.replace("schema: ./schema.graphql", "schema: ./old.graphql"));
            let dirp = cli::thread_dir("c16");
            cli::materialize(&dirp, &earlier);
            let args: Vec<String> = ["--config-file", "graphql.config.yaml", "--output-format", "json", "generate"].iter().map(|s| s.to_string()).collect();
            let first = cli::run(&dirp, &args, &[], Duration::from_secs(30));
            runs += 1;
            if first.code != Some(0) {
                rep.report(Violation { key: "machinery.c16_earlier_project".into(), what: format!("the earlier project of the history is not accepted: {}", first.stdout.chars().take(400).collect::<String>()), case: json!({}) });
            }
            cli::overwrite(&dirp, &p);
            let r = cli::run(&dirp, &args, &[], Duration::from_secs(30));
            runs += 1;
            let case = |extra: J| json!({"part": "C", "plugins": plugins, "model_directive_used": with_model_use, "types_named_like_directives": with_namesakes, "schema_definition_lists_only_query": only_query_root, "files": [schema_text], "config": y, "detail": extra});
            if r.code != Some(0) {
                rep.report(Violation { key: "plugins.generate_fails".into(), what: format!("generate exits with {:?} on a valid project with plugins {plugins:?}", r.code), case: case(json!({"stdout": r.stdout, "stderr": r.stderr})) });
                continue;
            }
            let module = r.after.get("g/server.ts").map(|b| String::from_utf8_lossy(b).to_string()).unwrap_or_default();
            let sdl = parse_module(&module).ok().and_then(|decls| decls.iter().find_map(|d| match d {
                Decl::Const { name, init_tpl: Some(t), exported: true, .. } if name == "schema" => Some(t.clone()),
                _ => None,
            })).ok_or("no schema export".to_string()).and_then(|raw| eval_template(&raw));
            let re = match sdl.as_ref().map_err(|e| e.clone()).and_then(|s| parse_ts(s)) {
                Ok(d) => d,
                Err(e) => {
                    rep.report(Violation { key: "plugins.server_schema_unreadable".into(), what: e, case: case(json!({"module": module})) });
                    continue;
                }
            };
            let leaks = re.defs.iter().any(|d| (d.kind == TsKind::Directive && d.name_str() == "model") || d.dirs.iter().any(|x| x.name.s == "model") || d.fields.iter().any(|f| f.dirs.iter().any(|x| x.name.s == "model")));
            if leaks {
                rep.report(Violation { key: format!("plugins.model_directive_leaks[{}]", plugins.join("+")), what: format!("@model (definition or application) is present in the server schema written with plugins {plugins:?}"), case: case(json!({"sdl": sdl.clone().unwrap_or_default()})) });
            }
            // everything else: the schema itself
            let mut want_doc = doc.clone();
            for d in want_doc.defs.iter_mut() {
                d.dirs.retain(|x| x.name.s != "model");
                for f in d.fields.iter_mut() {
                    f.dirs.retain(|x| x.name.s != "model");
                }
            }
            let want = merge_extensions(&want_doc).map(strip).unwrap_or_default();
            let mut got_defs = re.defs.clone();
            got_defs.retain(|d| !(d.kind == TsKind::Directive && d.name_str() == "model"));
            for d in got_defs.iter_mut() {
                d.dirs.retain(|x| x.name.s != "model");
                for f in d.fields.iter_mut() {
                    f.dirs.retain(|x| x.name.s != "model");
                }
            }
            let got = strip(got_defs);
            for (k, w) in &want {
                match got.get(k) {
                    None => rep.report(Violation { key: format!("plugins.definition_lost:{}", k.0.kw()), what: format!("{} {} is missing from the server schema (plugins {plugins:?})", k.0.kw(), k.1), case: case(json!({})) }),
                    Some(g) if g != w => rep.report(Violation { key: format!("plugins.definition_differs:{}", k.0.kw()), what: format!("{} {} differs at {}", k.0.kw(), k.1, first_diff_path(w, g)), case: case(json!({})) }),
                    _ => {}
                }
            }
            for k in got.keys() {
                if !want.contains_key(k) {
                    rep.report(Violation { key: format!("plugins.definition_invented:{}", k.0.kw()), what: format!("{} {} appears in the server schema but not in the schema", k.0.kw(), k.1), case: case(json!({})) });
                }
            }
            }
        }
    }
    cli::cleanup("c16");
    json!({"cli_runs": runs, "plugin_orders": plugin_lists.len()})
}

pub fn run(args: &RunArgs) -> i32 {
    let rep = Reporter::new("C16", &args.tier);
    crate::util::install_hook();
    let cases = AtomicU64::new(0);
    let checked = AtomicU64::new(0);
    let roundtrips = AtomicU64::new(0);
    let distinct = DistinctSet::new();
    let skipped: Mutex<BTreeMap<String, u64>> = Mutex::new(BTreeMap::new());
    let sample: Mutex<Option<J>> = Mutex::new(None);
    // ---------------- part A
    let (dev, budget) = if args.quick() { (2, 30) } else { (3, 1500) };
    let stats_a = explore(&ExploreCfg { max_dev: dev, threads: args.threads, budget: Duration::from_secs(budget) }, |c: &mut Chooser| {
        let (files, tags) = part_a_case(c);
        let texts: Vec<String> = files.iter().map(ts_text).collect();
        if !distinct.insert(fnv(texts.join("\u{1}").as_bytes())) {
            return;
        }
        cases.fetch_add(1, Ordering::Relaxed);
        let mut whole = TsDoc::default();
        for f in &files {
            whole.defs.extend(f.defs.iter().cloned());
        }
        let case = |extra: J| json!({"part": "A", "files": texts, "tags": tags, "picks": c.picks(), "detail": extra});
        let out = catch(|| {
            let parsed = pipeline::parse_schema_files(&texts).map_err(|f| format!("parse: {:?}", f.diags))?;
            let doc = pipeline::resolve_and_check_schema(parsed).map_err(|f| format!("check: {:?}", f.diags.iter().map(|d| d.kind.clone()).collect::<Vec<_>>()))?;
            Ok::<_, String>(pipeline::server_graphql(&doc))
        });
        let module = match out {
            Err(p) => return rep.report(Violation { key: format!("panic@{}", p.key()), what: format!("panic at {}: {}", p.site, p.msg), case: case(json!({})) }),
            Ok(Err(e)) => {
                *skipped.lock().unwrap().entry(e.split(':').next().unwrap_or("").to_string()).or_insert(0) += 1;
                return;
            }
            Ok(Ok(m)) => m,
        };
        checked.fetch_add(1, Ordering::Relaxed);
        if c.deviations() == 2 {
            let mut s = sample.lock().unwrap();
            if s.is_none() {
                *s = Some(json!({"schema": texts, "module": module}));
            }
        }
        let raw = match parse_module(&module) {
            Ok(decls) => decls.iter().find_map(|d| match d {
                Decl::Const { name, init_tpl: Some(t), exported: true, .. } if name == "schema" => Some(t.clone()),
                _ => None,
            }),
            Err(e) => {
                let f = primary_class(strings_ts(&whole).into_iter());
                return rep.report(Violation { key: format!("module_unreadable[{f}]"), what: format!("the emitted module is not readable JavaScript: {e}"), case: case(json!({"module": module})) });
            }
        };
        let Some(raw) = raw else {
            return rep.report(Violation { key: "no_schema_export".into(), what: "no `export const schema = `...`` found".into(), case: case(json!({"module": module})) });
        };
        let sdl = match eval_template(&raw) {
            Ok(s) => s,
            Err(e) => {
                let f = primary_class(strings_ts(&whole).into_iter());
                return rep.report(Violation { key: format!("template_invalid[{f}]"), what: e, case: case(json!({"module": module})) });
            }
        };
        let re = match parse_ts(&sdl) {
            Ok(d) => d,
            Err(e) => {
                let f = primary_class(strings_ts(&whole).into_iter());
                return rep.report(Violation { key: format!("sdl_does_not_parse[{f}]"), what: format!("the evaluated schema string is not valid SDL: {e}"), case: case(json!({"sdl": sdl})) });
            }
        };
        if re.defs.iter().any(|d| d.ext) {
            return rep.report(Violation { key: "extension_survives".into(), what: "the emitted SDL still contains an `extend` item".into(), case: case(json!({"sdl": sdl})) });
        }
        let want = match merge_extensions(&whole) {
            Ok(m) => strip(m),
            Err(_) => return,
        };
        let got = strip(re.defs.clone());
        if re.defs.iter().any(|d| d.dirs.iter().any(|x| x.name.s == "nitrogql_ts_type") || (d.kind == TsKind::Directive && d.name_str() == "nitrogql_ts_type")) {
            rep.report(Violation { key: "nitrogql_directive_leaks".into(), what: "@nitrogql_ts_type (definition or application) is present in the emitted SDL".into(), case: case(json!({"sdl": sdl})) });
        }
        for (k, w) in &want {
            match got.get(k) {
                None => rep.report(Violation { key: format!("definition_lost:{}", k.0.kw()), what: format!("{} {} is missing from the emitted SDL", k.0.kw(), k.1), case: case(json!({"sdl": sdl})) }),
                Some(g) => {
                    if g != w {
                        let path = first_diff_path(w, g);
                        let comps: Vec<&str> = path.split('/').collect();
                        let short = comps[comps.len().saturating_sub(2)..].join("/");
                        // when the first difference is a string value, the key is that string's class
                        let (dw, dg) = (TsDoc { defs: vec![w.clone()], ..Default::default() }, TsDoc { defs: vec![g.clone()], ..Default::default() });
                        let (sw, sg) = (strings_ts(&dw), strings_ts(&dg));
                        let bad = sw.iter().zip(sg.iter()).find(|(a, b)| a != b).map(|(a, _)| *a);
                        let key = match bad {
                            Some(x) if sw.len() == sg.len() => format!("string_differs[{}]", string_class(x).unwrap_or("no-string-cause")),
                            _ if primary_class(sw.iter().copied()) != "no-string-cause" => format!("string_differs[{}]", primary_class(sw.iter().copied())),
                            _ => format!("definition_differs:{}:{short}", k.0.kw()),
                        };
                        rep.report(Violation {
                            key,
                            what: format!("{} {} re-parses differently at {path}", k.0.kw(), k.1),
                            case: case(json!({"sdl": sdl, "expected": format!("{w:?}").chars().take(600).collect::<String>(), "got": format!("{g:?}").chars().take(600).collect::<String>()})),
                        });
                    }
                }
            }
        }
        for k in got.keys() {
            if !want.contains_key(k) {
                rep.report(Violation { key: format!("definition_invented:{}", k.0.kw()), what: format!("{} {} appears in the emitted SDL but not in the schema", k.0.kw(), k.1), case: case(json!({"sdl": sdl})) });
            }
        }
    });
    // ---------------- part C: the server schema written by the real CLI with plugins configured
    let part_c = part_c_plugins(&rep);
    // ---------------- part B: print/parse round trip on C07's documents
    let mut per_base = serde_json::Map::new();
    let plan: Vec<(Base, usize, u64)> = if args.quick() { vec![(Base::ExecRich, 1, 20), (Base::ExecMin, 4, 30), (Base::TsRich, 1, 20), (Base::TsMin, 4, 30)] } else { vec![(Base::ExecRich, 2, 900), (Base::ExecMin, 5, 900), (Base::TsRich, 2, 900), (Base::TsMin, 5, 900)] };
    let distinct_b = DistinctSet::new();
    let mut edges = stats_a.choice_edges;
    for (base, dev, budget) in plan {
        let st = explore(&ExploreCfg { max_dev: dev, threads: args.threads, budget: Duration::from_secs(budget) }, |c: &mut Chooser| {
            let cs = generate(c, base);
            if !distinct_b.insert(fnv(cs.text.as_bytes())) {
                return;
            }
            let text = cs.text.clone();
            let exec = cs.exec.is_some();
            let r = catch(|| -> Result<Option<(String, String)>, (String, String)> {
                if exec {
                    let Ok(a) = parse_operation_document(&text) else { return Ok(None) };
                    let mut printed = String::new();
                    a.print_graphql(&mut JustWriter::new(&mut printed));
                    let m1 = conv::exec_ext(&a);
                    let a2 = parse_operation_document(&printed).map_err(|e| (primary_class(strings_exec(&m1).into_iter()).to_string(), format!("printed text does not parse: {} :: {printed}", e.into_message())))?;
                    let m2 = conv::exec_ext(&a2);
                    if m1 != m2 {
                        let (s1, s2) = (strings_exec(&m1), strings_exec(&m2));
                        let bad = s1.iter().zip(s2.iter()).find(|(a, b)| a != b).map(|(a, _)| *a);
                        let path = first_diff_path(&m1, &m2);
                        let cause = match bad {
                            Some(x) if s1.len() == s2.len() => format!("string:{}", string_class(x).unwrap_or(if x.contains('\n') { "block-string-reindented-when-nested" } else { "no-string-cause" })),
                            _ if primary_class(s1.iter().copied()) == "quoted-string-with-quote-or-backslash" && s1.len() != s2.len() => "string:quoted-string-with-quote-or-backslash".to_string(),
                            _ => short_path(&path),
                        };
                        Ok(Some((format!("{cause}\u{1}{path}"), printed)))
                    } else {
                        Ok(None)
                    }
                } else {
                    let Ok(a) = parse_type_system_document(&text) else { return Ok(None) };
                    let mut printed = String::new();
                    a.print_graphql(&mut JustWriter::new(&mut printed));
                    let m1 = conv::ts_ext_doc(&a);
                    let memberless = m1.defs.iter().any(|d| d.kind == TsKind::Union && d.members.is_empty());
                    let a2 = parse_type_system_document(&printed).map_err(|e| {
                        let c = primary_class(strings_ts(&m1).into_iter());
                        // a block string whose layout does not round-trip still parses; only quotes / backslashes
                        // / triple quotes can make the printed text unparsable
                        let string_can_break_parsing = ["quoted-string-with-quote-or-backslash", "block-string-with-triple-quote", "block-string-ending-in-quote-or-backslash"].contains(&c);
                        // attribution by experiment: if the printed text parses once the dangling ` =` of member-less
                        // unions is taken away, that (known) defect is the cause, whatever strings the document has
                        let without_dangling: String = printed.lines().map(|l| l.strip_suffix(" =").unwrap_or(l)).collect::<Vec<_>>().join("\n");
                        let dangling_is_the_cause = memberless && parse_type_system_document(&without_dangling).is_ok();
                        let c = if dangling_is_the_cause || (!string_can_break_parsing && memberless) { "union-without-members" } else { c };
                        (c.to_string(), format!("printed text does not parse: {} :: {printed}", e.into_message()))
                    })?;
                    let m2 = conv::ts_ext_doc(&a2);
                    if m1 != m2 {
                        let (s1, s2) = (strings_ts(&m1), strings_ts(&m2));
                        let bad = s1.iter().zip(s2.iter()).find(|(a, b)| a != b).map(|(a, _)| *a);
                        let path = first_diff_path(&m1, &m2);
                        let cause = match bad {
                            Some(x) if s1.len() == s2.len() && m1.defs.len() == m2.defs.len() => format!("string:{}", string_class(x).unwrap_or(if x.contains('\n') { "block-string-reindented-when-nested" } else { "no-string-cause" })),
                            _ if memberless => "union-without-members".to_string(),
                            // an unescaped quote re-tokenises the text: the number of strings changes, not just one of them
                            _ if primary_class(s1.iter().copied()) == "quoted-string-with-quote-or-backslash" && s1.len() != s2.len() => "string:quoted-string-with-quote-or-backslash".to_string(),
                            _ => short_path(&path),
                        };
                        Ok(Some((format!("{cause}\u{1}{path}"), printed)))
                    } else {
                        Ok(None)
                    }
                }
            });
            roundtrips.fetch_add(1, Ordering::Relaxed);
            let case = |extra: J| json!({"part": "B", "text": text, "picks": c.picks(), "detail": extra});
            match r {
                Err(p) => {
                    // panics of the parser on this text are C07/C08's; a panic in the printer is ours
                    if p.site.contains("printer") {
                        rep.report(Violation { key: format!("print.panic@{}", p.key()), what: format!("printer panicked at {}: {}", p.site, p.msg), case: case(json!({})) });
                    }
                }
                Ok(Err((cause, e))) => {
                    rep.report(Violation { key: format!("roundtrip.reparse_fails[{cause}]"), what: e.chars().take(300).collect(), case: case(json!({})) });
                }
                Ok(Ok(Some((cp, printed)))) => {
                    let (cause, path) = cp.split_once('\u{1}').unwrap_or(("", &cp));
                    rep.report(Violation { key: format!("roundtrip.differs[{cause}]"), what: format!("parse(print(A)) differs from A at {path}"), case: case(json!({"printed": printed})) });
                }
                Ok(Ok(None)) => {}
            }
        });
        edges += st.choice_edges;
        per_base.insert(format!("{base:?}"), stats_json(&st));
    }
    let cov = json!({
        "states": distinct.len() as u64 + distinct_b.len() as u64,
        "transitions": edges,
        "traces_validated_against_impl": checked.load(Ordering::Relaxed) + roundtrips.load(Ordering::Relaxed),
        "evaluations": cases.load(Ordering::Relaxed) + roundtrips.load(Ordering::Relaxed),
        "distinct_nontrivial": checked.load(Ordering::Relaxed) + roundtrips.load(Ordering::Relaxed),
        "rule": "part A: E1 schema variations with hostile strings at <= 2 sites, distinct by schema text, non-trivial = checked schema whose emitted module was evaluated and compared; part B: C07's E1 documents, distinct by text, non-trivial = print/parse round trip executed",
        "exhaustive": true,
        "part_c_server_schema_through_the_cli_with_plugins": part_c,
        "part_a": {"explorer": stats_json(&stats_a), "schemas_compared": checked.load(Ordering::Relaxed), "skipped": *skipped.lock().unwrap(), "hostile_alphabet": HOSTILE.iter().map(|h| h.0).collect::<Vec<_>>()},
        "part_b": {"round_trips": roundtrips.load(Ordering::Relaxed), "per_base": per_base},
        "samples": [sample.lock().unwrap().clone().unwrap_or(J::Null)],
    });
    rep.finish(cov, vec!["template literal evaluation per ECMAScript cooked-string rules (own implementation); SDL read by R-PARSE (spec block-string semantics)".into(), "built-in scalars and directives that the emitted SDL re-declares are ignored".into()])
}

pub fn replay(case: &J) -> i32 {
    println!("{}", serde_json::to_string_pretty(case).unwrap_or_default().replace("\\n", "\n"));
    let _ = valid_ts::IMPLEMENTED;
    0
}
