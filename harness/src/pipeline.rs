//! In-process replica of the CLI's check / generate pipeline (crates/cli/src/{main,check,generate}.rs),
//! calling the same library entry points in the same order. Checks that use it also push a
//! slice of their cases through the real binary (see e2e.rs).

use std::borrow::Cow;
use std::collections::HashMap;
use std::path::{Path, PathBuf};

use graphql_type_system::Schema;
use nitrogql_ast::base::Pos;
use nitrogql_ast::{OperationDocument, TypeSystemDocument, TypeSystemOrExtensionDocument, set_current_file_of_pos};
use nitrogql_checker::{CheckError, OperationCheckContext, check_operation_document, check_type_system_document};
use nitrogql_config_file::Config;
use nitrogql_error::PositionedError;
use nitrogql_parser::{parse_operation_document, parse_type_system_document};
use nitrogql_plugin::Plugin;
use nitrogql_printer::{
    GraphQLPrinter, OperationJSPrinterOptions, OperationTypePrinterOptions, ResolverTypePrinter,
    ResolverTypePrinterOptions, SchemaTypePrinter, SchemaTypePrinterOptions, print_js_for_operation_document,
    print_types_for_operation_document,
};
use nitrogql_semantics::{
    OperationExtension, OperationResolver, ast_to_type_system, resolve_operation_extensions,
    resolve_operation_imports, resolve_schema_extensions,
};
use sourcemap_writer::{JsStringWriter, SourceWriter, SourceWriterBuffers};

/// The CLI's own built-in definitions, compiled in from the tree under check. The file is included into a module
/// of ours (not mounted as a module) so that the two functions stay reachable when a change narrows their
/// visibility: the replica keeps doing what the CLI does on the reference tree, and the CLI conformance layer
/// reports the difference instead of the harness failing to build.
#[allow(dead_code, unused_imports)]
pub mod cli_builtins {
    include!("../../.build/repo/crates/cli/src/builtins.rs");
    pub fn nqv_nitrogql_builtins() -> Vec<nitrogql_ast::type_system::TypeSystemDefinitionOrExtension<'static>> {
        nitrogql_builtins()
    }
    pub fn nqv_remove_builtins<'src>(schema: &nitrogql_ast::TypeSystemDocument<'src>) -> nitrogql_ast::TypeSystemDocument<'src> {
        remove_builtins(schema)
    }
}

#[derive(Clone, Debug)]
pub struct Diag {
    pub stage: &'static str,
    /// variant name of the diagnostic (CheckErrorMessage / ExtensionError / "Parse")
    pub kind: String,
    pub msg: String,
    /// (file index, line, column) unless built-in / absent
    pub pos: Option<(usize, usize, usize)>,
}

fn variant_name(dbg: &str) -> String {
    dbg.chars().take_while(|c| c.is_ascii_alphanumeric() || *c == '_').collect()
}
fn pos3(p: Pos) -> Option<(usize, usize, usize)> {
    if p.builtin { None } else { Some((p.file, p.line, p.column)) }
}
pub fn diag_from_check(stage: &'static str, e: &CheckError) -> Diag {
    Diag {
        stage,
        kind: variant_name(&format!("{:?}", e.message)),
        msg: e.message.to_string(),
        pos: pos3(e.position),
    }
}
fn diag_from_positioned(stage: &'static str, kind: &str, e: PositionedError) -> (Diag, PositionedError) {
    let pos = e.position().and_then(pos3);
    // PositionedError is not Clone; rebuild a displayable copy of the message
    let d = Diag {
        stage,
        kind: kind.to_string(),
        msg: String::new(),
        pos,
    };
    (d, e)
}

/// Everything a failing stage reports: structured diagnostics plus the PositionedErrors the CLI would render.
pub struct Failure {
    pub diags: Vec<Diag>,
    pub rendered_inputs: Vec<PositionedError>,
}
trait InnerText {
    fn inner_text(&self) -> String;
}
impl InnerText for PositionedError {
    fn inner_text(&self) -> String {
        // PositionedError exposes its inner error only by value; render through a one-file table
        let table: Vec<(PathBuf, String, ())> = vec![];
        let _ = &table;
        format!("{:?}", self).split("inner: ").nth(1).unwrap_or("").to_string()
    }
}
impl Failure {
    fn one(stage: &'static str, kind: &str, e: PositionedError) -> Failure {
        let (mut d, e) = diag_from_positioned(stage, kind, e);
        d.msg = "(see rendered)".into();
        Failure {
            diags: vec![d],
            rendered_inputs: vec![e],
        }
    }
}

/// Parse schema files (file indices 0..n) and merge; the CLI stops at the first file that fails to parse.
pub fn parse_schema_files<'a>(texts: &'a [String]) -> Result<TypeSystemOrExtensionDocument<'a>, Failure> {
    let mut docs = vec![];
    for (i, t) in texts.iter().enumerate() {
        set_current_file_of_pos(i);
        match parse_type_system_document(t) {
            Ok(d) => docs.push(d),
            Err(e) => return Err(Failure::one("parse-schema", "Parse", e.into())),
        }
    }
    Ok(TypeSystemOrExtensionDocument::merge(docs))
}

/// builtins + nitrogql builtins, extension resolution, type-system check (no plugins).
pub fn resolve_and_check_schema<'a>(mut doc: TypeSystemOrExtensionDocument<'a>) -> Result<TypeSystemDocument<'a>, Failure> {
    doc.extend(graphql_builtins::generate_builtins());
    doc.extend(cli_builtins::nqv_nitrogql_builtins());
    let resolved = match resolve_schema_extensions(doc) {
        Ok(r) => r,
        Err(e) => {
            let pe: PositionedError = e.into();
            // the Display text distinguishes the two extension errors
            let kind = if pe.inner_text().starts_with("Duplicated") { "DuplicateOriginal" } else { "NoOriginal" };
            return Err(Failure::one("resolve-schema-extensions", kind, pe));
        }
    };
    let errors = check_type_system_document(&resolved);
    if !errors.is_empty() {
        let diags = errors.iter().map(|e| diag_from_check("check-schema", e)).collect();
        return Err(Failure {
            diags,
            rendered_inputs: errors.into_iter().map(|e| e.into()).collect(),
        });
    }
    Ok(resolved)
}

pub type ResolvedOp<'a> = (PathBuf, OperationDocument<'a>, OperationExtension<'a>, usize);

struct Ops<'x, 'a> {
    by_path: HashMap<&'x Path, (&'x OperationDocument<'a>, &'x OperationExtension<'a>)>,
}
impl<'a> OperationResolver<'a> for Ops<'_, 'a> {
    fn resolve(&self, path: &Path) -> Option<(&OperationDocument<'a>, &OperationExtension<'a>)> {
        self.by_path.get(path).copied()
    }
}

/// Parse operation files (file indices first_index..), resolve extensions and imports. Mirrors
/// main.rs (all parse errors collected) and check.rs::resolve_operations.
pub fn load_operations<'a>(ops: &'a [(PathBuf, String)], first_index: usize) -> Result<Vec<ResolvedOp<'a>>, Failure> {
    let mut parsed = vec![];
    let mut fail = Failure {
        diags: vec![],
        rendered_inputs: vec![],
    };
    for (i, (path, text)) in ops.iter().enumerate() {
        set_current_file_of_pos(first_index + i);
        match parse_operation_document(text) {
            Ok(d) => parsed.push((path.clone(), d, first_index + i)),
            Err(e) => {
                let f = Failure::one("parse-operation", "Parse", e.into());
                fail.diags.extend(f.diags);
                fail.rendered_inputs.extend(f.rendered_inputs);
            }
        }
    }
    if !fail.diags.is_empty() {
        return Err(fail);
    }
    let mut resolved = vec![];
    for (path, doc, idx) in parsed {
        match resolve_operation_extensions(doc) {
            Ok((d, e)) => resolved.push((path, d, e, idx)),
            Err(e) => {
                let kind = variant_name(&format!("{:?}", e.message));
                let f = Failure::one("resolve-operation-extensions", &kind, e.into());
                fail.diags.extend(f.diags);
                fail.rendered_inputs.extend(f.rendered_inputs);
            }
        }
    }
    if !fail.diags.is_empty() {
        return Err(fail);
    }
    let resolver = Ops {
        by_path: resolved.iter().map(|(p, d, e, _)| (p.as_path(), (d, e))).collect(),
    };
    let mut out = vec![];
    for (path, doc, ext, idx) in resolved.iter() {
        match resolve_operation_imports((path, doc, ext), &resolver) {
            Ok(d) => out.push((path.clone(), d, ext.clone(), *idx)),
            Err(e) => {
                let kind = variant_name(&format!("{:?}", e.message));
                let f = Failure::one("resolve-imports", &kind, e.into());
                fail.diags.extend(f.diags);
                fail.rendered_inputs.extend(f.rendered_inputs);
            }
        }
    }
    if !fail.diags.is_empty() {
        return Err(fail);
    }
    Ok(out)
}

pub fn check_operations<'a>(schema: &Schema<Cow<'a, str>, Pos>, ops: &[ResolvedOp<'a>]) -> Result<(), Failure> {
    let ctx = OperationCheckContext::new(schema);
    let mut errors = vec![];
    for (_, doc, _, _) in ops {
        errors.extend(check_operation_document(doc, &ctx));
    }
    if errors.is_empty() {
        Ok(())
    } else {
        Err(Failure {
            diags: errors.iter().map(|e| diag_from_check("check-operation", e)).collect(),
            rendered_inputs: errors.into_iter().map(|e| e.into()).collect(),
        })
    }
}

pub fn to_schema<'a>(doc: &TypeSystemDocument<'a>) -> Schema<Cow<'a, str>, Pos> {
    ast_to_type_system(doc)
}

// ---------------- generation ----------------

pub fn schema_dts(doc: &TypeSystemDocument, config: &Config) -> Result<SourceWriterBuffers, String> {
    let options = SchemaTypePrinterOptions::from_config(config);
    let mut writer = SourceWriter::new();
    let mut printer = SchemaTypePrinter::new(options, &mut writer);
    printer.print_document(doc).map_err(|e| format!("{e:?}"))?;
    Ok(writer.into_buffers())
}

pub fn resolvers_dts(doc: &TypeSystemDocument, config: &Config, schema_source: &str) -> Result<SourceWriterBuffers, String> {
    resolvers_dts_with(doc, config, schema_source, false)
}

/// `model_plugin`: print with the built-in model plugin, as the CLI does when it is configured
pub fn resolvers_dts_with(doc: &TypeSystemDocument, config: &Config, schema_source: &str, model_plugin: bool) -> Result<SourceWriterBuffers, String> {
    let mut options = ResolverTypePrinterOptions::from_config(config);
    options.schema_source = schema_source.to_string();
    let mut writer = SourceWriter::new();
    let mut printer = ResolverTypePrinter::new(options, &mut writer);
    let plugins: Vec<Plugin> = if model_plugin { vec![Plugin::new(Box::new(nitrogql_plugin::ModelPlugin {}))] } else { vec![] };
    printer.print_document(doc, &plugins).map_err(|e| format!("{e:?}"))?;
    Ok(writer.into_buffers())
}

/// the plugins the CLI's load_plugins gives for these names, in this order
pub fn make_plugins(names: &[&str]) -> Vec<Plugin<'static>> {
    names
        .iter()
        .map(|n| match *n {
            "nitrogql:model-plugin" => Plugin::new(Box::new(nitrogql_plugin::ModelPlugin {})),
            "nitrogql:graphql-scalars-plugin" => Plugin::new(Box::<nitrogql_plugin::GraphQLScalarsPlugin>::default()),
            other => crate::report::machinery(&format!("unknown plugin {other}")),
        })
        .collect()
}

/// the scalars plugin after it was told the extensions a JavaScript schema would carry for these scalar types
/// (`extensions: { codegenScalarType: ... }`; @nitrogql/core adds `nitrogql:kind`)
pub fn scalars_plugin_with(extensions: &[(String, serde_yaml::Value)]) -> Plugin<'static> {
    scalars_plugin_with_calls(&[extensions.to_vec()])
}

/// the same, told in several calls: the CLI calls `load_schema_extensions` once per JavaScript schema module
pub fn scalars_plugin_with_calls(calls: &[Vec<(String, serde_yaml::Value)>]) -> Plugin<'static> {
    let mut p = Plugin::new(Box::<nitrogql_plugin::GraphQLScalarsPlugin>::default());
    for extensions in calls {
        let mut table: HashMap<String, HashMap<String, serde_yaml::Value>> = HashMap::new();
        for (ty, codegen) in extensions {
            let mut m = HashMap::new();
            m.insert("nitrogql:kind".to_string(), serde_yaml::Value::String("scalar".into()));
            m.insert("codegenScalarType".to_string(), codegen.clone());
            table.insert(ty.clone(), m);
        }
        p.load_schema_extensions(nitrogql_plugin::PluginSchemaExtensions { type_extensions: &table });
    }
    p
}

struct LeakHost;
impl nitrogql_plugin::PluginHost for LeakHost {
    fn load_virtual_file(&mut self, content: String) -> &'static str {
        Box::leak(content.into_boxed_str())
    }
}

/// what main.rs::extend_loaded_schema appends for the plugins
pub fn plugin_additions(plugins: &[Plugin<'static>]) -> Result<Vec<TypeSystemOrExtensionDocument<'static>>, String> {
    let mut out = vec![];
    for p in plugins {
        if let Some(a) = p.schema_addition(&mut LeakHost).map_err(|e| format!("plugin schema addition does not parse: {}", e.into_message()))? {
            out.push(a);
        }
    }
    Ok(out)
}

/// resolve_and_check_schema with the plugins' schema additions appended after the built-ins, as the CLI does
pub fn resolve_and_check_schema_with<'a>(mut doc: TypeSystemOrExtensionDocument<'a>, additions: Vec<TypeSystemOrExtensionDocument<'a>>) -> Result<TypeSystemDocument<'a>, Failure> {
    doc.extend(graphql_builtins::generate_builtins());
    doc.extend(cli_builtins::nqv_nitrogql_builtins());
    for a in additions {
        doc.extend(a.definitions);
    }
    let resolved = match resolve_schema_extensions(doc) {
        Ok(r) => r,
        Err(e) => {
            let pe: PositionedError = e.into();
            let kind = if pe.inner_text().starts_with("Duplicated") { "DuplicateOriginal" } else { "NoOriginal" };
            return Err(Failure::one("resolve-schema-extensions", kind, pe));
        }
    };
    let errors = check_type_system_document(&resolved);
    if !errors.is_empty() {
        let diags = errors.iter().map(|e| diag_from_check("check-schema", e)).collect();
        return Err(Failure { diags, rendered_inputs: errors.into_iter().map(|e| e.into()).collect() });
    }
    Ok(resolved)
}

pub fn resolvers_dts_with_plugins(doc: &TypeSystemDocument, config: &Config, schema_source: &str, plugins: &[Plugin]) -> Result<SourceWriterBuffers, String> {
    let mut options = ResolverTypePrinterOptions::from_config(config);
    options.schema_source = schema_source.to_string();
    let mut writer = SourceWriter::new();
    let mut printer = ResolverTypePrinter::new(options, &mut writer);
    printer.print_document(doc, plugins).map_err(|e| format!("{e:?}"))?;
    Ok(writer.into_buffers())
}

pub fn resolvers_dts_plugins(doc: &TypeSystemDocument, config: &Config, schema_source: &str, names: &[&str]) -> Result<SourceWriterBuffers, String> {
    let mut options = ResolverTypePrinterOptions::from_config(config);
    options.schema_source = schema_source.to_string();
    let mut writer = SourceWriter::new();
    let mut printer = ResolverTypePrinter::new(options, &mut writer);
    let plugins = make_plugins(names);
    printer.print_document(doc, &plugins).map_err(|e| format!("{e:?}"))?;
    Ok(writer.into_buffers())
}

pub fn operation_dts(schema: &Schema<Cow<str>, Pos>, doc: &OperationDocument, config: &Config, schema_source: &str) -> SourceWriterBuffers {
    let mut options = OperationTypePrinterOptions::from_config(config);
    options.schema_source = schema_source.to_string();
    let mut writer = SourceWriter::new();
    print_types_for_operation_document(options, schema, doc, &mut writer);
    writer.into_buffers()
}

pub fn operation_js(doc: &OperationDocument, config: &Config) -> String {
    let mut writer = SourceWriter::new();
    print_js_for_operation_document(OperationJSPrinterOptions::from_config(config), doc, &mut writer);
    writer.into_buffers().buffer
}

/// The `serverGraphqlOutput` module text.
pub fn server_graphql(doc: &TypeSystemDocument) -> String {
    let mut buffer = String::new();
    buffer.push_str("// generated by nitrogql\n");
    buffer.push_str("export const schema = ");
    {
        let mut writer = JsStringWriter::new(&mut buffer);
        cli_builtins::nqv_remove_builtins(doc).print_graphql(&mut writer);
    }
    buffer.push_str(";\n");
    buffer
}

pub fn default_config() -> Config {
    Config::default()
}

/// The configuration as a user would write it: the given Config rendered as configuration-file text
/// (JSON is YAML) and read back by the subject's own `parse_config`, so that the configuration file
/// reader (names of options, the three spellings of a scalar mapping, defaults) is part of every
/// check that configures the printers.
pub fn via_config_text(cfg: &Config) -> Config {
    let text = config_text(cfg);
    nitrogql_config_file::parse_config(&text).unwrap_or_else(|| crate::report::machinery(&format!("parse_config rejects the rendered configuration: {text}")))
}

pub fn config_text(cfg: &Config) -> String {
    use nitrogql_config_file::{GenerateMode, ScalarTypeConfig};
    use serde_json::{Map, Value as J, json};
    let g = &cfg.generate;
    let mut gen_ = Map::new();
    if g.mode != GenerateMode::default() {
    gen_.insert("mode".into(), json!(match g.mode { GenerateMode::WithLoaderTS5_0 => "with-loader-ts-5.0", GenerateMode::WithLoaderTS4_0 => "with-loader-ts-4.0", GenerateMode::StandaloneTS4_0 => "standalone-ts-4.0" }));
    }
    let path = |p: &Option<PathBuf>| p.as_ref().map(|p| J::String(p.to_string_lossy().to_string()));
    for (k, v) in [("schemaOutput", path(&g.schema_output)), ("serverGraphqlOutput", path(&g.server_graphql_output)), ("resolversOutput", path(&g.resolvers_output)), ("schemaModuleSpecifier", g.schema_module_specifier.clone().map(J::String))] {
        if let Some(v) = v {
            gen_.insert(k.into(), v);
        }
    }
    let mut scalars = Map::new();
    let mut names: Vec<&String> = g.r#type.scalar_types.keys().collect();
    names.sort();
    for n in names {
        let v = match &g.r#type.scalar_types[n] {
            ScalarTypeConfig::Single(s) => json!(s),
            ScalarTypeConfig::SendReceive(c) => json!({"send": c.send, "receive": c.receive}),
            ScalarTypeConfig::Separate(c) => json!({"resolverOutput": c.resolver_output, "resolverInput": c.resolver_input, "operationOutput": c.operation_output, "operationInput": c.operation_input}),
        };
        scalars.insert(n.clone(), v);
    }
    // options at their default value are left out: the defaults are the reader's to supply
    let mut ty = Map::new();
    if !scalars.is_empty() {
        ty.insert("scalarTypes".into(), J::Object(scalars));
    }
    if !g.r#type.allow_undefined_as_optional_input {
        ty.insert("allowUndefinedAsOptionalInput".into(), json!(false));
    }
    if !ty.is_empty() {
        gen_.insert("type".into(), J::Object(ty));
    }
    let mut name = Map::new();
    let n = &g.name;
    for (k, v) in [("operationResultTypeSuffix", &n.operation_result_type_suffix), ("variablesTypeSuffix", &n.variables_type_suffix), ("fragmentTypeSuffix", &n.fragment_type_suffix), ("queryVariableSuffix", &n.query_variable_suffix), ("mutationVariableSuffix", &n.mutation_variable_suffix), ("subscriptionVariableSuffix", &n.subscription_variable_suffix), ("fragmentVariableSuffix", &n.fragment_variable_suffix)] {
        if let Some(v) = v {
            name.insert(k.into(), json!(v));
        }
    }
    if let Some(c) = n.capitalize_operation_names {
        name.insert("capitalizeOperationNames".into(), json!(c));
    }
    if !name.is_empty() {
        gen_.insert("name".into(), J::Object(name));
    }
    let mut export = Map::new();
    if !g.export.default_export_for_operation {
        export.insert("defaultExportForOperation".into(), json!(false));
    }
    if g.export.operation_result_type {
        export.insert("operationResultType".into(), json!(true));
    }
    if g.export.variables_type {
        export.insert("variablesType".into(), json!(true));
    }
    if !export.is_empty() {
        gen_.insert("export".into(), J::Object(export));
    }
    if g.emit_schema_runtime {
        gen_.insert("emitSchemaRuntime".into(), json!(true));
    }
    let mut top = Map::new();
    if !cfg.schema.is_empty() {
        top.insert("schema".into(), json!(cfg.schema));
    }
    if !cfg.operations.is_empty() {
        top.insert("documents".into(), json!(cfg.operations));
    }
    top.insert("extensions".into(), json!({"nitrogql": {"plugins": cfg.plugins, "generate": gen_}}));
    serde_json::to_string_pretty(&J::Object(top)).unwrap()
}

/// File table in the shape print_positioned_error wants.
pub fn file_table(schema: &[String], ops: &[(PathBuf, String)]) -> Vec<(PathBuf, String, ())> {
    let mut v = vec![];
    for (i, s) in schema.iter().enumerate() {
        v.push((PathBuf::from(format!("/p/schema{i}.graphql")), s.clone(), ()));
    }
    for (p, s) in ops {
        v.push((p.clone(), s.clone(), ()));
    }
    v
}
