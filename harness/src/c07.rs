//! C07 — parsing yields exactly the document the text denotes, with true positions.
//!
//! E1 over (abstract document) x (trivia plan) x (value spellings). Oracle: the real
//! parser's AST equals the abstract document the text was rendered from (which R-PARSE,
//! an independent parser, must also read back — otherwise it is a machinery error), and
//! every position equals the (line, char-column) R-LEX gives the corresponding token.

use crate::conv;
use crate::explore::{Chooser, DistinctSet, ExploreCfg, explore, fnv};
use crate::gen_syntax::{ChooserPlan, G};
use crate::gql::*;
use crate::render::{R, StrStyle};
use crate::report::{Args, Reporter, Violation, stats_json};
use crate::rparse;
use crate::util::catch;
use nitrogql_parser::{parse_operation_document, parse_type_system_document};
use serde_json::{Value as J, json};
use std::sync::atomic::{AtomicU64, Ordering};
use std::time::Duration;

#[derive(Clone, Copy, Debug, PartialEq)]
pub enum Base {
    ExecRich,
    ExecMin,
    TsRich,
    TsMin,
}

pub struct Case {
    pub exec: Option<ExecDoc>,
    pub ts: Option<TsDoc>,
    pub text: String,
    pub tags: Vec<String>,
}

pub fn generate(c: &mut Chooser, base: Base) -> Case {
    let rich = matches!(base, Base::ExecRich | Base::TsRich);
    let (exec, ts) = {
        let mut g = G { c, rich };
        match base {
            Base::ExecRich | Base::ExecMin => (Some(g.exec_doc()), None),
            _ => (None, Some(g.ts_doc())),
        }
    };
    let mut plan = ChooserPlan::new(c);
    let text = {
        let mut r = R::new(&mut plan);
        if let Some(d) = &exec {
            r.exec(d);
        }
        if let Some(d) = &ts {
            r.ts(d);
        }
        r.finish()
    };
    let mut tags = vec![];
    if plan.used_shorthand {
        tags.push("shorthand".to_string());
    }
    if plan.tail == " # c" {
        tags.push("final-comment-without-newline".to_string());
    }
    for s in &plan.used_styles {
        let t = match s {
            StrStyle::Block | StrStyle::BlockIndented => "block-string",
            StrStyle::U4 => "u4-escapes",
            StrStyle::UBrace => "ubrace-escapes",
            StrStyle::ShortEsc => "short-escapes",
            StrStyle::Normal => continue,
        };
        if !tags.iter().any(|x| x == t) {
            tags.push(t.to_string());
        }
    }
    Case { exec, ts, text, tags }
}

fn tok_kind_at(text: &str, line: usize, col: usize) -> String {
    match rparse::lex(text) {
        Err(_) => "unlexable".into(),
        Ok(toks) => {
            let mut prev = "start".to_string();
            for t in &toks {
                let k = match &t.t {
                    rparse::Tok::Punct(p) => format!("'{p}'"),
                    rparse::Tok::Name(_) => "Name".into(),
                    rparse::Tok::Int(_) => "Int".into(),
                    rparse::Tok::Float(_) => "Float".into(),
                    rparse::Tok::Str(_, b) => if *b { "BlockString".into() } else { "String".into() },
                    rparse::Tok::Import(..) => "Import".into(),
                    rparse::Tok::Eof => "EOF".into(),
                };
                if t.p.line as usize == line && t.p.col as usize == col {
                    return format!("at={k},prev={prev}");
                }
                if (t.p.line as usize, t.p.col as usize) > (line, col) {
                    return format!("inside-or-before={k},prev={prev}");
                }
                prev = k;
            }
            "beyond-eof".into()
        }
    }
}

struct Counters {
    evals: AtomicU64,
    accepted: AtomicU64,
    positions: AtomicU64,
}

fn viol(rep: &Reporter, key: String, what: String, case: &Case, c: &Chooser, base: Base) {
    rep.report(Violation {
        key,
        what,
        case: json!({"base": format!("{base:?}"), "picks": c.picks(), "deviations": c.deviation_labels(), "text": case.text, "tags": case.tags}),
    });
}

pub(crate) fn check_case(rep: &Reporter, case: &Case, c: &Chooser, base: Base, cnt: &Counters) {
    cnt.evals.fetch_add(1, Ordering::Relaxed);
    let tags = if case.tags.is_empty() { String::new() } else { format!("[{}]", case.tags.join(",")) };
    // machinery self-check: the reference parser must read back the model
    if let Some(m) = &case.exec {
        match rparse::parse_exec(&case.text) {
            Ok(r) if r == *m => {}
            Ok(r) => {
                return viol(rep, format!("machinery.refparse_mismatch:{}", first_diff_path(m, &r)), "reference parser disagrees with renderer".into(), case, c, base);
            }
            Err(e) => return viol(rep, "machinery.refparse_error".into(), format!("reference parser rejects rendered text: {e}"), case, c, base),
        }
        let text = case.text.clone();
        let res = catch(|| parse_operation_document(&text).map(|d| conv::exec_ext(&d)).map_err(|e| e.into_message()));
        finish(rep, case, c, base, cnt, res, m, rparse::parse_exec(&case.text).ok().map(|r| flat_exec(&r)), |d| flat_exec(d), |d| strings_exec(d), &tags);
    }
    if let Some(m) = &case.ts {
        match rparse::parse_ts(&case.text) {
            Ok(r) if r == *m => {}
            Ok(r) => {
                return viol(rep, format!("machinery.refparse_mismatch:{}", first_diff_path(m, &r)), "reference parser disagrees with renderer".into(), case, c, base);
            }
            Err(e) => return viol(rep, "machinery.refparse_error".into(), format!("reference parser rejects rendered text: {e}"), case, c, base),
        }
        let text = case.text.clone();
        let res = catch(|| parse_type_system_document(&text).map(|d| conv::ts_ext_doc(&d)).map_err(|e| e.into_message()));
        finish(rep, case, c, base, cnt, res, m, rparse::parse_ts(&case.text).ok().map(|r| flat_ts(&r)), |d| flat_ts(d), |d| strings_ts(d), &tags);
    }
}

#[allow(clippy::too_many_arguments)]
fn finish<D: std::fmt::Debug + PartialEq>(
    rep: &Reporter,
    case: &Case,
    c: &Chooser,
    base: Base,
    cnt: &Counters,
    res: Result<Result<D, String>, crate::util::Panic>,
    model: &D,
    ref_pos: Option<PosList>,
    flat: impl Fn(&D) -> PosList,
    strings: impl for<'x> Fn(&'x D) -> Vec<&'x String>,
    tags: &str,
) {
    match res {
        Err(p) => viol(rep, format!("parse.panic@{}", p.key()), format!("parser panicked at {}: {}", p.site, p.msg), case, c, base),
        Ok(Err(msg)) => {
            // classify by the token at which the parser gave up
            let pos = locate_error(&case.text, case.exec.is_some());
            let site = match pos {
                None => "?".to_string(),
                Some((l, col)) => {
                    let tk = tok_kind_at(&case.text, l, col);
                    if tk.starts_with("inside-or-before=EOF") {
                        let mut s = "in-trailing-trivia".to_string();
                        if case.tags.iter().any(|t| t == "final-comment-without-newline") {
                            s.push_str("[final-comment-without-newline]");
                        }
                        s
                    } else {
                        // the definition that could not be completed: the last one starting strictly before the error
                        let before = |p: &P| (p.line as usize, p.col as usize) < (l, col);
                        let ctx = if let Some(m) = &case.ts {
                            rparse::parse_ts(&case.text).ok().and_then(|r| {
                                r.defs.iter().rev().find(|d| before(&d.p_first)).map(|d| format!("{}{}", if d.ext { "extend-" } else { "" }, d.kind.kw()))
                            }).unwrap_or_else(|| { let _ = m; "document-start".into() })
                        } else {
                            rparse::parse_exec(&case.text).ok().and_then(|r| {
                                r.defs.iter().rev().find(|d| match d { ExecDef::Op { p, .. } | ExecDef::Frag { p, .. } | ExecDef::Import { p, .. } => before(p) })
                                    .map(|d| match d { ExecDef::Op { .. } => "operation", ExecDef::Frag { .. } => "fragment", ExecDef::Import { .. } => "import" }.to_string())
                            }).unwrap_or_else(|| "document-start".into())
                        };
                        format!("in={ctx};{}", msg.replace('\n', " "))
                    }
                }
            };
            let _ = tags;
            viol(rep, format!("parse.rejects_valid:{site}"), format!("valid document rejected: {}", msg.replace('\n', " ")), case, c, base)
        }
        Ok(Ok(ast)) => {
            cnt.accepted.fetch_add(1, Ordering::Relaxed);
            if ast != *model {
                let full = first_diff_path(model, &ast);
                let comps: Vec<&str> = full.split('/').collect();
                let path = if comps.last() == Some(&"Str") { "Str".to_string() } else { comps[comps.len().saturating_sub(2)..].join("/") };
                // the spelling tags matter only when the difference is in a string
                // cause analysis for string differences: was a block string returned raw?
                let (sm, sa) = (strings(model), strings(&ast));
                let mut t = String::new();
                if sm.len() == sa.len()
                    && let Some((want, got)) = sm.iter().zip(sa.iter()).find(|(a, b)| a != b)
                {
                    if rparse::block_string_value(&got.replace("\\\"\"\"", "\"\"\"")) == **want {
                        t = "[block-string-returned-raw]".into();
                    } else {
                        t = "[string-value-wrong]".into();
                    }
                }
                let path = if t.is_empty() { path } else { "string".to_string() };
                return viol(rep, format!("parse.ast_mismatch:{path}{t}"), format!("parsed document differs from the denoted one at {full}"), case, c, base);
            }
            let a = flat(&ast);
            let Some(r) = ref_pos else { return };
            if a.len() != r.len() {
                return viol(rep, "machinery.poslist_len".into(), "position lists differ in length".into(), case, c, base);
            }
            for ((ka, pa, _), (kr, pr, alt)) in a.iter().zip(r.iter()) {
                cnt.positions.fetch_add(1, Ordering::Relaxed);
                if ka != kr {
                    return viol(rep, "machinery.poslist_kind".into(), format!("{ka} vs {kr}"), case, c, base);
                }
                let ok = pa.same(pr) || alt.is_some_and(|x| pa.same(&x));
                if !ok {
                    let astral_before = line_has_astral_before(&case.text, pr.line as usize, pr.col as usize);
                    let cls = if pa.line != pr.line { "line" } else { "col" };
                    let t = if astral_before { "[after-astral-char]" } else { "" };
                    // a lone CR is a line terminator of the language; a parser that counts lines by LF only puts every
                    // later token on the wrong line: one cause, one key
                    let lone_cr = [Some(*pr), *alt].into_iter().flatten().any(|pr| {
                        // the reported position is exactly where the token is when lines are counted by LF alone
                        let chars: Vec<char> = case.text.chars().collect();
                        let (mut line, mut col, mut idx) = (0u32, 0u32, None);
                        let mut i = 0;
                        while i < chars.len() {
                            if line == pr.line && col == pr.col {
                                idx = Some(i);
                                break;
                            }
                            match chars[i] {
                                '\r' if chars.get(i + 1) == Some(&'\n') => {
                                    i += 1;
                                    line += 1;
                                    col = 0;
                                }
                                '\r' | '\n' => {
                                    line += 1;
                                    col = 0;
                                }
                                _ => col += 1,
                            }
                            i += 1;
                        }
                        idx.is_some_and(|k| {
                            let before = &chars[..k];
                            let l = before.iter().filter(|c| **c == '\n').count() as u32;
                            let c0 = before.iter().rev().take_while(|c| **c != '\n').count() as u32;
                            before.iter().enumerate().any(|(j, c)| *c == '\r' && before.get(j + 1) != Some(&'\n') && !(j + 1 == before.len() && chars.get(k) == Some(&'\n'))) && pa.line == l && pa.col == c0
                        })
                    });
                    if lone_cr {
                        return viol(rep, "pos.mismatch:after-a-lone-carriage-return".into(), format!("{ka} reported at {}:{} but its token starts at {}:{} (a lone CR ends a line)", pa.line, pa.col, pr.line, pr.col), case, c, base);
                    }
                    return viol(
                        rep,
                        format!("pos.mismatch:{ka}:{cls}{t}"),
                        format!("{ka} reported at {}:{} but its token starts at {}:{}", pa.line, pa.col, pr.line, pr.col),
                        case,
                        c,
                        base,
                    );
                }
            }
        }
    }
}

fn line_has_astral_before(text: &str, line: usize, col: usize) -> bool {
    text.split('\n')
        .nth(line)
        .map(|l| l.chars().take(col).any(|c| c.len_utf16() == 2))
        .unwrap_or(false)
}

/// position of the subject's parse error (through its public PositionedError conversion)
fn locate_error(text: &str, exec: bool) -> Option<(usize, usize)> {
    use nitrogql_error::PositionedError;
    let pe: Option<PositionedError> = if exec {
        parse_operation_document(text).err().map(|e| e.into())
    } else {
        parse_type_system_document(text).err().map(|e| e.into())
    };
    pe.and_then(|e| e.position()).map(|p| (p.line, p.column))
}

pub fn run(args: &Args) -> i32 {
    let rep = Reporter::new("C07", &args.tier);
    crate::util::install_hook();
    let cnt = Counters {
        evals: AtomicU64::new(0),
        accepted: AtomicU64::new(0),
        positions: AtomicU64::new(0),
    };
    let distinct = DistinctSet::new();
    let mut per_base = serde_json::Map::new();
    let mut samples = vec![];
    let mut total_edges = 0u64;
    let plan: Vec<(Base, usize, u64)> = if args.quick() {
        vec![(Base::ExecRich, 1, 40), (Base::ExecMin, 4, 40), (Base::TsRich, 1, 40), (Base::TsMin, 4, 40)]
    } else {
        vec![(Base::ExecRich, 2, 1500), (Base::ExecMin, 5, 1200), (Base::TsRich, 2, 1500), (Base::TsMin, 5, 1200)]
    };
    for (base, dev, budget) in plan {
        let sample: std::sync::Mutex<Option<String>> = std::sync::Mutex::new(None);
        let stats = explore(
            &ExploreCfg {
                max_dev: dev,
                threads: args.threads,
                budget: Duration::from_secs(budget),
            },
            |c: &mut Chooser| {
                let case = generate(c, base);
                if distinct.insert(fnv(case.text.as_bytes())) {
                    check_case(&rep, &case, c, base, &cnt);
                    if c.deviations() == 2 {
                        let mut s = sample.lock().unwrap();
                        if s.is_none() {
                            *s = Some(case.text.clone());
                        }
                    }
                }
            },
        );
        total_edges += stats.choice_edges;
        if let Some(s) = sample.into_inner().unwrap() {
            samples.push(json!({"base": format!("{base:?}"), "text": s}));
        }
        per_base.insert(format!("{base:?}"), stats_json(&stats));
    }
    let evals = cnt.evals.load(Ordering::Relaxed);
    let cov = json!({
        "states": distinct.len(),
        "transitions": total_edges,
        "traces_validated_against_impl": evals,
        "evaluations": evals,
        "distinct_nontrivial": cnt.accepted.load(Ordering::Relaxed),
        "rule": "E1 deviation-bounded enumeration of (document structure, trivia plan, value spelling); distinct by rendered text; non-trivial = the real parser accepted the text so AST and all positions were compared",
        "exhaustive": true,
        "positions_compared": cnt.positions.load(Ordering::Relaxed),
        "per_base": per_base,
        "samples": samples,
    });
    rep.finish(
        cov,
        vec![
            "R-LEX/R-PARSE (independent hand-written lexer/parser, spec Oct-2021 incl. BlockStringValue) is correct; it is cross-checked against the renderer on every case".into(),
            "columns are counted in Unicode scalar values; a definition's own position may be its first token or its kind keyword".into(),
        ],
    )
}

pub fn replay(case: &J) -> i32 {
    let text = case["text"].as_str().unwrap_or("");
    println!("--- text ---\n{text}\n--- end ---");
    let exec = case["base"].as_str().is_some_and(|b| b.starts_with("Exec"));
    if exec {
        println!("reference: {:?}", rparse::parse_exec(text).map(|d| d.defs.len()));
        let r = catch(|| parse_operation_document(text).map(|d| conv::exec_ext(&d)).map_err(|e| e.into_message()));
        match r {
            Err(p) => println!("subject PANIC at {}: {}", p.site, p.msg),
            Ok(Err(e)) => println!("subject Err: {e}"),
            Ok(Ok(d)) => {
                let m = rparse::parse_exec(text).unwrap();
                println!("subject Ok; equal to reference: {}; first diff: {}", d == m, first_diff_path(&m, &d));
            }
        }
    } else {
        let r = catch(|| parse_type_system_document(text).map(|d| conv::ts_ext_doc(&d)).map_err(|e| e.into_message()));
        match r {
            Err(p) => println!("subject PANIC at {}: {}", p.site, p.msg),
            Ok(Err(e)) => println!("subject Err: {e}"),
            Ok(Ok(d)) => {
                let m = rparse::parse_ts(text).unwrap();
                println!("subject Ok; equal to reference: {}; first diff: {}", d == m, first_diff_path(&m, &d));
            }
        }
    }
    0
}
