//! C06 — source maps. Layer 1: explicit-state exploration of the real
//! `SourceWriter` (all operation histories up to a depth) against a reference
//! writer model + independent decoder; exhaustive VLQ round trip through the
//! public API; name-table histories; `print_source_map_json` shape.
//! Layer 2 (end-to-end through the CLI) lives in `e2e.rs` and is called from here.

use crate::explore::{Chooser, DistinctSet, ExploreCfg, explore, fnv, par_for};
use crate::report::{Args, Reporter, Violation, stats_json};
use crate::smap::{Decoded, Segment, decode_mappings, utf16_len};
use nitrogql_ast::base::{NamePos, Pos};
use serde_json::{Value, json};
use sourcemap_writer::{SourceMapWriter, SourceWriter, print_source_map_json};
use std::path::Path;
use std::sync::atomic::{AtomicU64, Ordering};
use std::time::Duration;

const CHUNKS: [&str; 6] = ["a", "ab\n", "\n", "é", "😀", "x\ny"];

#[derive(Clone, Copy, Debug, PartialEq)]
enum Node {
    Builtin,
    Named(usize, usize, usize, &'static str),
    Unnamed(usize, usize, usize),
}
const NODES: [Node; 4] = [
    Node::Builtin,
    Node::Named(0, 0, 0, "N"),
    Node::Named(1, 2, 5, "Mé"),
    Node::Unnamed(0, 1, 3),
];

#[derive(Clone, Copy, Debug)]
enum Op {
    Write(usize),
    WriteFor(usize, usize),
    Indent,
    Dedent,
}

fn alphabet() -> Vec<Op> {
    let mut v = vec![];
    for c in 0..CHUNKS.len() {
        v.push(Op::Write(c));
    }
    for c in 0..CHUNKS.len() {
        for n in 0..NODES.len() {
            v.push(Op::WriteFor(c, n));
        }
    }
    v.push(Op::Indent);
    v.push(Op::Dedent);
    v
}

fn op_json(op: &Op) -> Value {
    match op {
        Op::Write(c) => json!({"write": CHUNKS[*c]}),
        Op::WriteFor(c, n) => json!({"write_for": CHUNKS[*c], "node": format!("{:?}", NODES[*n])}),
        Op::Indent => json!("indent"),
        Op::Dedent => json!("dedent"),
    }
}

fn to_namepos(n: Node) -> NamePos<'static> {
    match n {
        Node::Builtin => NamePos {
            name: Some("B"),
            pos: Pos::builtin(),
        },
        Node::Named(f, l, c, name) => NamePos {
            name: Some(name),
            pos: Pos {
                line: l,
                column: c,
                file: f,
                builtin: false,
            },
        },
        Node::Unnamed(f, l, c) => NamePos {
            name: None,
            pos: Pos {
                line: l,
                column: c,
                file: f,
                builtin: false,
            },
        },
    }
}

#[derive(Debug, Clone)]
struct Exp {
    line: usize,
    col_lo: usize,
    col_hi: usize,
    src: usize,
    ol: usize,
    oc: usize,
    name: Option<&'static str>,
    required: bool,
}

struct RefWriter {
    buf: String,
    pending: bool,
    indent: usize,
    line: usize,
    col: usize,
    exp: Vec<Exp>,
    mapper: Option<Vec<usize>>,
}

impl RefWriter {
    fn write(&mut self, chunk: &str) {
        for ch in chunk.chars() {
            if ch == '\n' {
                self.buf.push('\n');
                self.line += 1;
                self.col = 0;
                self.pending = true;
            } else {
                if self.pending {
                    for _ in 0..self.indent {
                        self.buf.push(' ');
                    }
                    self.col += self.indent;
                    self.pending = false;
                }
                self.buf.push(ch);
                self.col += ch.len_utf16();
            }
        }
    }
    fn here(&self, chunk_starts_text: bool, exact_after_flush: bool) -> (usize, usize, usize) {
        if self.pending {
            if chunk_starts_text && exact_after_flush {
                (self.line, self.indent, self.indent)
            } else {
                (self.line, 0, self.indent)
            }
        } else {
            (self.line, self.col, self.col)
        }
    }
    fn apply(&mut self, op: &Op) {
        match op {
            Op::Write(c) => self.write(CHUNKS[*c]),
            Op::Indent => self.indent += 2,
            Op::Dedent => self.indent = self.indent.saturating_sub(2),
            Op::WriteFor(c, n) => {
                let chunk = CHUNKS[*c];
                let starts_text = chunk.chars().next().is_some_and(|ch| ch != '\n');
                match NODES[*n] {
                    Node::Builtin => self.write(chunk),
                    Node::Named(f, l, col, name) => {
                        let src = self.mapper.as_ref().map_or(f, |m| m[f]);
                        let (line, lo, hi) = self.here(starts_text, true);
                        self.exp.push(Exp {
                            line,
                            col_lo: lo,
                            col_hi: hi,
                            src,
                            ol: l,
                            oc: col,
                            name: Some(name),
                            required: true,
                        });
                        // the subject flushes pending indentation before a named chunk even when
                        // the chunk starts with a newline; text is compared modulo trailing blanks
                        self.write(chunk);
                        let (line, lo, hi) = self.here(false, false);
                        self.exp.push(Exp {
                            line,
                            col_lo: lo,
                            col_hi: hi,
                            src,
                            ol: l,
                            oc: col + utf16_len(name),
                            name: None,
                            required: false,
                        });
                    }
                    Node::Unnamed(f, l, col) => {
                        let src = self.mapper.as_ref().map_or(f, |m| m[f]);
                        let (line, lo, hi) = self.here(starts_text, false);
                        self.exp.push(Exp {
                            line,
                            col_lo: lo,
                            col_hi: hi,
                            src,
                            ol: l,
                            oc: col,
                            name: None,
                            required: false,
                        });
                        self.write(chunk);
                    }
                }
            }
        }
    }
}

fn strip_trailing(s: &str) -> Vec<&str> {
    s.split('\n').map(|l| l.trim_end_matches(' ')).collect()
}

/// Runs one history against the real writer; returns (violation key, description) on failure.
fn check_history(ops: &[Op], mapper: &Option<Vec<usize>>) -> Result<(usize, usize), (String, String)> {
    let mut w = SourceWriter::new();
    if let Some(m) = mapper {
        w.set_file_index_mapper(m.clone());
    }
    let mut r = RefWriter {
        buf: String::new(),
        pending: false,
        indent: 0,
        line: 0,
        col: 0,
        exp: vec![],
        mapper: mapper.clone(),
    };
    for op in ops {
        match op {
            Op::Write(c) => w.write(CHUNKS[*c]),
            Op::WriteFor(c, n) => w.write_for(CHUNKS[*c], &to_namepos(NODES[*n])),
            Op::Indent => w.indent(),
            Op::Dedent => w.dedent(),
        }
        r.apply(op);
    }
    let b = w.into_buffers();
    if strip_trailing(&b.buffer) != strip_trailing(&r.buf) {
        return Err((
            "writer.text".into(),
            format!("generated text {:?} differs from reference {:?}", b.buffer, r.buf),
        ));
    }
    let d: Decoded = decode_mappings(&b.source_map)
        .map_err(|e| ("writer.decode".to_string(), format!("mappings {:?}: {e}", b.source_map)))?;
    let lines: Vec<&str> = b.buffer.split('\n').collect();
    let mut last = (0usize, -1i128);
    for s in &d.segments {
        if s.gen_line >= lines.len() || s.gen_col < 0 || s.gen_col as usize > utf16_len(lines[s.gen_line]) {
            return Err((
                "writer.range".into(),
                format!("segment {s:?} outside generated text {:?}", b.buffer),
            ));
        }
        if (s.gen_line, s.gen_col) < last {
            return Err(("writer.order".into(), format!("segments not ordered: {:?}", d.segments)));
        }
        last = (s.gen_line, s.gen_col);
        match s.src {
            None => return Err(("writer.no_source".into(), format!("segment without source {s:?}"))),
            Some((si, ol, oc)) => {
                if si < 0 || si > 1 || ol < 0 || oc < 0 {
                    return Err(("writer.source_index".into(), format!("bad source/original in {s:?}")));
                }
            }
        }
        if let Some(n) = s.name
            && (n < 0 || n as usize >= b.names.len())
        {
            return Err(("writer.name_index".into(), format!("name index out of range in {s:?}, names={:?}", b.names)));
        }
    }
    // decoded segments must be a subsequence of the expected ones containing every required one
    let mut ei = 0;
    for s in &d.segments {
        let mut matched = false;
        while ei < r.exp.len() {
            let e = &r.exp[ei];
            ei += 1;
            if seg_matches(s, e, &b.names) {
                matched = true;
                break;
            } else if e.required {
                return Err((
                    "writer.segment_mismatch".into(),
                    format!("decoded {s:?} where reference expects {e:?} (names {:?}, mappings {:?})", b.names, b.source_map),
                ));
            }
        }
        if !matched {
            return Err((
                "writer.segment_unexpected".into(),
                format!("decoded {s:?} matches no expected segment (mappings {:?})", b.source_map),
            ));
        }
    }
    if let Some(e) = r.exp[ei..].iter().find(|e| e.required) {
        return Err(("writer.segment_missing".into(), format!("no segment for {e:?} (mappings {:?})", b.source_map)));
    }
    Ok((d.segments.len(), d.empty_segments))
}

fn seg_matches(s: &Segment, e: &Exp, names: &[String]) -> bool {
    if s.gen_line != e.line || s.gen_col < e.col_lo as i128 || s.gen_col > e.col_hi as i128 {
        return false;
    }
    if s.src != Some((e.src as i128, e.ol as i128, e.oc as i128)) {
        return false;
    }
    match (s.name, e.name) {
        (None, None) => true,
        (Some(i), Some(n)) => names.get(i as usize).map(|x| x.as_str()) == Some(n),
        _ => false,
    }
}

fn histories(rep: &Reporter, args: &Args, depth: usize, mapper: Option<Vec<usize>>, counters: &Counters) {
    let alpha = alphabet();
    let a = alpha.len();
    for len in 1..=depth {
        let total = a.pow(len as u32);
        // parallelise over the first (up to) two operations
        let head = len.min(2);
        let heads = a.pow(head as u32);
        let tail = total / heads;
        par_for(heads, args.threads, |h| {
            let mut ops: Vec<Op> = vec![Op::Indent; len];
            let mut hh = h;
            for slot in ops.iter_mut().take(head) {
                *slot = alpha[hh % a];
                hh /= a;
            }
            for t in 0..tail {
                let mut tt = t;
                for slot in ops.iter_mut().skip(head) {
                    *slot = alpha[tt % a];
                    tt /= a;
                }
                counters.histories.fetch_add(1, Ordering::Relaxed);
                counters.transitions.fetch_add(len as u64, Ordering::Relaxed);
                let res = std::panic::catch_unwind(|| check_history(&ops, &mapper));
                match res {
                    Ok(Ok((nseg, empty))) => {
                        counters.segments.fetch_add(nseg as u64, Ordering::Relaxed);
                        if empty > 0 {
                            counters.empty_segments.fetch_add(1, Ordering::Relaxed);
                        }
                        if nseg > 0 {
                            counters.nontrivial.fetch_add(1, Ordering::Relaxed);
                        }
                    }
                    Ok(Err((key, what))) => rep.report(Violation {
                        key,
                        what,
                        case: json!({"layer":"writer","mapper":mapper,"ops": ops.iter().map(op_json).collect::<Vec<_>>(),
                                     "ops_idx": ops_to_idx(&ops)}),
                    }),
                    Err(_) => rep.report(Violation {
                        key: "writer.panic".into(),
                        what: "SourceWriter panicked".into(),
                        case: json!({"layer":"writer","mapper":mapper,"ops": ops.iter().map(op_json).collect::<Vec<_>>(),
                                     "ops_idx": ops_to_idx(&ops)}),
                    }),
                }
            }
        });
    }
}

fn ops_to_idx(ops: &[Op]) -> Vec<Vec<usize>> {
    ops.iter()
        .map(|o| match o {
            Op::Write(c) => vec![0, *c],
            Op::WriteFor(c, n) => vec![1, *c, *n],
            Op::Indent => vec![2],
            Op::Dedent => vec![3],
        })
        .collect()
}

#[derive(Default)]
struct Counters {
    histories: AtomicU64,
    transitions: AtomicU64,
    segments: AtomicU64,
    nontrivial: AtomicU64,
    empty_segments: AtomicU64,
    vlq_values: AtomicU64,
}

fn unnamed(line: usize, col: usize, file: usize) -> NamePos<'static> {
    NamePos {
        name: None,
        pos: Pos {
            line,
            column: col,
            file,
            builtin: false,
        },
    }
}

/// Every n in [-2^k, 2^k] as a delta of source index, original line and original column.
fn vlq_sweep(rep: &Reporter, args: &Args, max: usize, counters: &Counters) {
    let block = 4096usize;
    let nblocks = max / block + 1;
    par_for(nblocks, args.threads, |bi| {
        let lo = bi * block;
        let hi = ((bi + 1) * block).min(max + 1);
        if lo >= hi {
            return;
        }
        let mut w = SourceWriter::new();
        let mut expect: Vec<(i128, i128, i128)> = vec![];
        for n in lo..hi {
            w.write_for("a", &unnamed(n, n, n));
            expect.push((n as i128, n as i128, n as i128));
            w.write_for("a", &unnamed(0, 0, 0));
            expect.push((0, 0, 0));
            counters.vlq_values.fetch_add(2, Ordering::Relaxed);
        }
        let b = w.into_buffers();
        match decode_mappings(&b.source_map) {
            Err(e) => rep.report(Violation {
                key: "vlq.decode".into(),
                what: format!("VLQ sweep block {lo}..{hi} does not decode: {e}"),
                case: json!({"layer":"vlq","lo":lo,"hi":hi}),
            }),
            Ok(d) => {
                if d.segments.len() != expect.len() {
                    rep.report(Violation {
                        key: "vlq.count".into(),
                        what: format!("VLQ sweep block {lo}..{hi}: {} segments decoded, {} written", d.segments.len(), expect.len()),
                        case: json!({"layer":"vlq","lo":lo,"hi":hi}),
                    });
                    return;
                }
                for (i, (s, e)) in d.segments.iter().zip(expect.iter()).enumerate() {
                    if s.src != Some(*e) || s.gen_col != i as i128 {
                        let n = lo + i / 2;
                        rep.report(Violation {
                            key: "vlq.roundtrip".into(),
                            what: format!("delta +/-{n}: decoded {:?} gen_col {} want {:?} gen_col {i}", s.src, s.gen_col, e),
                            case: json!({"layer":"vlq","lo":n,"hi":n+1}),
                        });
                        return;
                    }
                }
            }
        }
    });
    // boundaries: +-2^k, isize::MAX, isize::MIN as a single delta of the original column
    let mut vals: Vec<(usize, usize)> = vec![]; // (first col, second col): delta = second - first
    for k in 0..63u32 {
        let p = 1usize << k;
        vals.push((0, p));
        vals.push((p, 0));
        vals.push((0, p - 1));
        vals.push((p - 1, 0));
        vals.push((0, p + 1));
        vals.push((p + 1, 0));
    }
    vals.push((0, isize::MAX as usize));
    vals.push((isize::MAX as usize, 0));
    vals.push((0, 1usize << 63)); // delta = isize::MIN
    for (c1, c2) in vals {
        counters.vlq_values.fetch_add(1, Ordering::Relaxed);
        let r = std::panic::catch_unwind(|| {
            let mut w = SourceWriter::new();
            w.write_for("a", &unnamed(0, c1, 0));
            w.write_for("a", &unnamed(0, c2, 0));
            w.into_buffers().source_map
        });
        let want1 = (c1 as isize) as i128;
        let want2 = (c2 as isize) as i128;
        match r {
            Err(_) => rep.report(Violation {
                key: "vlq.boundary_panic".into(),
                what: format!("original columns {c1},{c2} make the writer panic"),
                case: json!({"layer":"vlq_boundary","c1":c1.to_string(),"c2":c2.to_string()}),
            }),
            Ok(m) => match decode_mappings(&m) {
                Ok(d) if d.segments.len() == 2
                    && d.segments[0].src == Some((0, 0, want1))
                    && d.segments[1].src == Some((0, 0, want2)) => {}
                other => rep.report(Violation {
                    key: "vlq.boundary".into(),
                    what: format!("original columns {c1},{c2}: mappings {m:?} decode to {other:?}"),
                    case: json!({"layer":"vlq_boundary","c1":c1.to_string(),"c2":c2.to_string()}),
                }),
            },
        }
    }
    // generated-column deltas: lines of length n
    let mut w = SourceWriter::new();
    let mut expect = vec![];
    let mut col = 0usize;
    for n in (0..600usize).chain([1023, 1024, 4095, 4096, 65535, 65536]) {
        w.write_for(&"x".repeat(n), &unnamed(0, 0, 0));
        expect.push(col as i128);
        col += n;
        counters.vlq_values.fetch_add(1, Ordering::Relaxed);
    }
    let m = w.into_buffers().source_map;
    match decode_mappings(&m) {
        Ok(d) if d.segments.iter().map(|s| s.gen_col).collect::<Vec<_>>() == expect => {}
        other => rep.report(Violation {
            key: "vlq.gen_col".into(),
            what: format!("generated-column deltas do not round trip: {:?}", other.map(|d| d.segments.len())),
            case: json!({"layer":"vlq_gen"}),
        }),
    }
}

const NAMES: [&str; 12] = ["n0", "n1", "n2", "n3", "n4", "n5", "n6", "n7", "n8", "n9", "n10", "n11"];

fn check_names_seq(seq: &[usize]) -> Result<usize, String> {
    let mut w = SourceWriter::new();
    for &i in seq {
        let np = NamePos {
            name: Some(NAMES[i]),
            pos: Pos {
                line: 0,
                column: 0,
                file: 0,
                builtin: false,
            },
        };
        w.write_for("a", &np);
    }
    let b = w.into_buffers();
    let d = decode_mappings(&b.source_map)?;
    let named: Vec<&Segment> = d.segments.iter().filter(|s| s.name.is_some()).collect();
    if named.len() != seq.len() {
        return Err(format!("{} named segments for {} named writes", named.len(), seq.len()));
    }
    for (s, &i) in named.iter().zip(seq) {
        let idx = s.name.unwrap();
        if idx < 0 || b.names.get(idx as usize).map(|x| x.as_str()) != Some(NAMES[i]) {
            return Err(format!("write of {} got name index {idx} into {:?}", NAMES[i], b.names));
        }
    }
    Ok(b.names.len())
}

fn names_layer(rep: &Reporter, args: &Args, counters: &Counters) -> Value {
    // (a) deviation-bounded: base sequence cycles through 12 names twice (capacity 10 + 2)
    let dev = if args.quick() { 2 } else { 3 };
    let distinct_tables = DistinctSet::new();
    let stats = explore(
        &ExploreCfg {
            max_dev: dev,
            threads: args.threads,
            budget: Duration::from_secs(600),
        },
        |c: &mut Chooser| {
            let mut seq = vec![];
            for k in 0..24 {
                let d = c.choose("name.at", 12);
                seq.push((k + d) % 12);
            }
            counters.histories.fetch_add(1, Ordering::Relaxed);
            counters.transitions.fetch_add(24, Ordering::Relaxed);
            match std::panic::catch_unwind(|| check_names_seq(&seq)) {
                Ok(Ok(n)) => {
                    distinct_tables.insert(n as u64);
                }
                Ok(Err(e)) => rep.report(Violation {
                    key: "names.wrong".into(),
                    what: e,
                    case: json!({"layer":"names","seq":seq}),
                }),
                Err(_) => rep.report(Violation {
                    key: "names.panic".into(),
                    what: "name mapper panicked".into(),
                    case: json!({"layer":"names","seq":seq}),
                }),
            }
        },
    );
    // (b) all sequences over 3 names up to length 7
    let mut small = 0u64;
    for len in 1..=7usize {
        for code in 0..3usize.pow(len as u32) {
            let mut seq = vec![];
            let mut x = code;
            for _ in 0..len {
                seq.push(x % 3);
                x /= 3;
            }
            small += 1;
            counters.transitions.fetch_add(len as u64, Ordering::Relaxed);
            if let Err(e) = check_names_seq(&seq) {
                rep.report(Violation {
                    key: "names.wrong".into(),
                    what: e,
                    case: json!({"layer":"names","seq":seq}),
                });
            }
        }
    }
    counters.histories.fetch_add(small, Ordering::Relaxed);
    json!({"deviation_bounded": stats_json(&stats), "small_exhaustive_sequences": small, "distinct_name_table_sizes": distinct_tables.len()})
}

fn ref_resolve(file: &str, rel: &str) -> String {
    let mut comps: Vec<&str> = file.split('/').filter(|c| !c.is_empty()).collect();
    comps.pop();
    for c in rel.split('/') {
        match c {
            "." | "" => {}
            ".." => {
                comps.pop();
            }
            n => comps.push(n),
        }
    }
    format!("/{}", comps.join("/"))
}

fn json_layer(rep: &Reporter) -> u64 {
    let files = ["/p/out/gen.d.ts", "/p/gen.d.ts", "/p/a/b/c/gen.graphql.ts", "/gen.ts"];
    let sources = ["/p/a.graphql", "/p/sub/b.graphql", "/q/c.graphql", "/p/out/d.graphql", "/p/a/b/e.graphql"];
    let mut n = 0;
    for f in files {
        for k in 0..=sources.len() {
            let src: Vec<&Path> = sources[..k].iter().map(Path::new).collect();
            let names = vec!["A".to_string(), "b_c".to_string()];
            let mappings = "AAAA;;CACA,+/gB";
            let mut out = String::new();
            n += 1;
            let r = print_source_map_json(Path::new(f), &src, &names, mappings, &mut out);
            let bad = |what: String| {
                rep.report(Violation {
                    key: "json.shape".into(),
                    what,
                    case: json!({"layer":"json","file":f,"sources":&sources[..k]}),
                })
            };
            if r.is_err() {
                bad("print_source_map_json failed".into());
                continue;
            }
            let v: Value = match serde_json::from_str(&out) {
                Ok(v) => v,
                Err(e) => {
                    bad(format!("map JSON does not parse: {e}: {out}"));
                    continue;
                }
            };
            if v["version"] != json!(3) {
                bad(format!("version is {}", v["version"]));
            }
            if v["mappings"].as_str() != Some(mappings) {
                bad(format!("mappings altered: {}", v["mappings"]));
            }
            if v["names"] != json!(names) {
                bad(format!("names altered: {}", v["names"]));
            }
            if v["file"].as_str() != f.rsplit('/').next() {
                bad(format!("file is {}", v["file"]));
            }
            let empty = vec![];
            let got = v["sources"].as_array().unwrap_or(&empty);
            if got.len() != k {
                bad(format!("{} sources for {k} source files", got.len()));
                continue;
            }
            let root = v["sourceRoot"].as_str().unwrap_or("");
            for (i, s) in got.iter().enumerate() {
                let rel = format!("{root}{}", s.as_str().unwrap_or("?"));
                let res = ref_resolve(f, &rel);
                if res != sources[i] {
                    bad(format!("sources[{i}]={rel} resolves (relative to {f}) to {res}, not {}", sources[i]));
                }
            }
        }
    }
    n
}

pub fn run(args: &Args) -> i32 {
    let rep = Reporter::new("C06", &args.tier);
    let counters = Counters::default();
    let depth = if args.quick() { 4 } else { 6 };
    // full depth with a non-identity file mapper; depth-1 without any mapper
    histories(&rep, args, depth, Some(vec![1, 0]), &counters);
    histories(&rep, args, depth - 1, None, &counters);
    let writer_hist = counters.histories.load(Ordering::Relaxed);
    let vlq_max = if args.quick() { 1 << 20 } else { 1 << 22 };
    vlq_sweep(&rep, args, vlq_max, &counters);
    let names = names_layer(&rep, args, &counters);
    let json_cases = json_layer(&rep);
    let e2e = crate::e2e::c06_layer(&rep, args);

    let hist = counters.histories.load(Ordering::Relaxed);
    let cov = json!({
        "states": hist,
        "transitions": counters.transitions.load(Ordering::Relaxed),
        "traces_validated_against_impl": hist,
        "evaluations": hist,
        "distinct_nontrivial": counters.nontrivial.load(Ordering::Relaxed),
        "rule": "writer layer: every sequence of <= depth operations over {write x6 chunks, write_for x6 chunks x4 nodes, indent, dedent}; a history is non-trivial when it produced >= 1 decoded segment; histories are distinct by construction",
        "exhaustive": true,
        "writer_layer": {
            "alphabet_size": alphabet().len(),
            "depth_with_mapper": depth,
            "depth_without_mapper": depth - 1,
            "histories": writer_hist,
            "segments_decoded_and_matched": counters.segments.load(Ordering::Relaxed),
            "histories_with_empty_segment_tolerated": counters.empty_segments.load(Ordering::Relaxed),
        },
        "vlq_layer": {"max_abs_delta_swept": vlq_max, "values_round_tripped": counters.vlq_values.load(Ordering::Relaxed),
                      "fields": ["source index", "original line", "original column", "generated column (<=600 and selected large)"],
                      "boundaries": "+-2^k, +-(2^k +- 1) for k<63, isize::MAX, isize::MIN"},
        "names_layer": names,
        "json_layer_cases": json_cases,
        "end_to_end_layer": e2e,
        "samples": [
            [op_json(&Op::Indent), op_json(&Op::WriteFor(1, 2)), op_json(&Op::WriteFor(4, 1)), op_json(&Op::Write(5))],
            {"vlq_delta": -524287},
        ],
    });
    rep.finish(
        cov,
        vec![
            "R-SMAP decoder and the reference writer model are correct".into(),
            "an empty segment (leading or doubled comma) is tolerated as in ECMA-426's decoding algorithm, and counted".into(),
            "where indentation is pending, a generated column anywhere in [0, indent] is accepted; closing and unnamed segments are optional".into(),
        ],
    )
}

pub fn replay(case: &Value) -> i32 {
    if case["layer"].as_str() == Some("e2e") {
        return crate::e2e::replay(case, false);
    }
    match case["layer"].as_str() {
        Some("writer") => {
            let mapper: Option<Vec<usize>> = serde_json::from_value(case["mapper"].clone()).unwrap_or(None);
            let ops: Vec<Op> = case["ops_idx"]
                .as_array()
                .unwrap()
                .iter()
                .map(|o| {
                    let v: Vec<usize> = serde_json::from_value(o.clone()).unwrap();
                    match v[0] {
                        0 => Op::Write(v[1]),
                        1 => Op::WriteFor(v[1], v[2]),
                        2 => Op::Indent,
                        _ => Op::Dedent,
                    }
                })
                .collect();
            match check_history(&ops, &mapper) {
                Ok(_) => {
                    println!("history passes");
                    0
                }
                Err((k, w)) => {
                    println!("FAIL {k}: {w}");
                    1
                }
            }
        }
        Some("names") => {
            let seq: Vec<usize> = serde_json::from_value(case["seq"].clone()).unwrap();
            match check_names_seq(&seq) {
                Ok(_) => {
                    println!("sequence passes");
                    0
                }
                Err(e) => {
                    println!("FAIL {e}");
                    1
                }
            }
        }
        _ => {
            println!("{}", serde_json::to_string_pretty(case).unwrap());
            0
        }
    }
}

#[allow(dead_code)]
fn _unused(_: u64) -> u64 {
    fnv(b"")
}
