//! Type-directed (E1) generator of executable documents over a schema, plus typed walkers used
//! by the mutation catalogue. Validity is never assumed: R-VALID-OP decides.

use crate::explore::Chooser;
use crate::gql::*;
use crate::rparse::parse_ts;
use crate::schema::Sch;

pub const SEM_SCHEMA: &str = r#"
type Query {
  s: String
  n: Int!
  e: Kind
  d: Date
  stamp: Stamp
  u: User
  users(first: Int = 10, filter: Filter, kinds: [Kind!], ids: [ID!]!, f: Float, limit: Int! = 5, opt: [String], mat: [[Int]], at: Stamp, tags: [String!]! = [], picks: [ID!] = ["a"], cube: [[[Float!]!]!]! = []): [User!]!
  maybe: [User]
  node(id: ID!): Node
  named: [Named!]
  res: Result
  results: [Result!]!
  grid: [[Int!]]
  lnn: [String]!
  m1: [[Int!]]!
  m2: [[Int]!]
  ek: [Kind]!
  owned: Owned
  owneds: [Owned!]
}
type Mutation { set(input: Filter!): User ping: Boolean }
"the subscription root implements an interface and is a member of a union: fragments on either apply to it"
interface Ticker { tick: Int! }
union Feed = Subscription | Post
type Subscription implements Ticker { tick: Int! changed(id: ID): User }
interface Node { id: ID! }
interface Named implements Node { id: ID! name: String }
type User implements Node & Named { id: ID! name: String age: Int kind: Kind! friends(first: Int): [User!] best: User posts: [Post] born: Date }
type Post implements Node { id: ID! title: String! author: User! tags: [String!]! }
type Bot implements Node & Named { id: ID! name: String model: String }
union Result = User | Post
interface Owned { owner: Named tags: [String] backup: Named }
"the first implementer declares `owner` with stricter wrappers around the same named type than the later ones, and `backup` with wider ones"
type Gist implements Owned { owner: Named! tags: [String]! backup: Named }
type Issue implements Owned { owner: Named tags: [String] n: Int backup: Named! }
type Repo implements Owned { owner: User! tags: [String!]! stars: Int backup: User }
"lists an interface that itself implements another one BEFORE an unrelated interface"
type Team implements Named & Node & Owned { id: ID! name: String owner: Named tags: [String] size: Int backup: Named! }
enum Kind { A B @deprecated(reason: "use A") }
input Filter { kind: Kind name: String = "x" ids: [ID!] nested: Filter min: Int! = 0 req: Boolean! labels: [String!] = ["l"] }
scalar Date
scalar Stamp @nitrogql_ts_type(resolverInput: "RI", resolverOutput: "RO", operationInput: "OI", operationOutput: "OO")
"schema types named like the TypeScript identifiers a scalar mapping mentions (nothing refers to them)"
type OO { x: Int }
input OI { y: Int }
directive @tag(name: String!) repeatable on QUERY | MUTATION | SUBSCRIPTION | FIELD | FRAGMENT_DEFINITION | FRAGMENT_SPREAD | INLINE_FRAGMENT | VARIABLE_DEFINITION
directive @once(n: Int! = 1) on QUERY | MUTATION | SUBSCRIPTION | FIELD | FRAGMENT_DEFINITION | FRAGMENT_SPREAD | INLINE_FRAGMENT | VARIABLE_DEFINITION
directive @onlyq on QUERY
"#;

pub fn sem_schema() -> (TsDoc, Sch) {
    let doc = parse_ts(SEM_SCHEMA).unwrap_or_else(|e| crate::report::machinery(&format!("SEM_SCHEMA: {e}")));
    let sch = Sch::from_doc(&doc).unwrap();
    (doc, sch)
}

fn p0() -> P {
    P::default()
}

pub struct DocGen<'a, 'b, 'c> {
    pub c: &'a mut Chooser<'b>,
    pub sch: &'c Sch,
    pub vars: Vec<VarDef>,
    pub frags: Vec<ExecDef>,
    pub nalias: usize,
    /// restrict directive choices (C01/C02 want skip/include; C04 also custom ones)
    pub custom_dirs: bool,
}

impl DocGen<'_, '_, '_> {
    fn bool_var(&mut self, which: usize) -> Value {
        let name = format!("b{which}");
        if !self.vars.iter().any(|v| v.name.s == name) {
            let (ty, default) = match self.c.choose("bvar.form", 3) {
                0 => (Ty::nn(Ty::named("Boolean")), None),
                1 => (Ty::named("Boolean"), Some(Value::Bool(p0(), true))),
                _ => (Ty::nn(Ty::named("Boolean")), Some(Value::Bool(p0(), false))),
            };
            self.vars.push(VarDef { p: p0(), name: nm(&name), ty, default, dirs: vec![] });
        }
        Value::Var(p0(), name)
    }

    fn dirs(&mut self, label: &'static str) -> Vec<Dir> {
        let n = if self.custom_dirs { 13 } else { 10 };
        match self.c.choose(label, n) {
            0 => vec![],
            1 => vec![dir("skip", vec![("if", self.bool_var(1))])],
            2 => vec![dir("include", vec![("if", self.bool_var(1))])],
            3 => vec![dir("skip", vec![("if", Value::Bool(p0(), true))])],
            4 => vec![dir("skip", vec![("if", Value::Bool(p0(), false))])],
            5 => vec![dir("include", vec![("if", Value::Bool(p0(), false))])],
            6 => vec![dir("skip", vec![("if", self.bool_var(1))]), dir("include", vec![("if", self.bool_var(2))])],
            7 => vec![dir("include", vec![("if", self.bool_var(2))])],
            8 => vec![dir("include", vec![("if", self.bool_var(2))]), dir("skip", vec![("if", self.bool_var(1))])],
            9 => vec![dir("include", vec![("if", Value::Bool(p0(), true))]), dir("skip", vec![("if", Value::Bool(p0(), true))])],
            10 => vec![dir("tag", vec![("name", Value::Str(p0(), "t".into()))]), dir("tag", vec![("name", Value::Str(p0(), "u".into()))])],
            11 => vec![dir("once", vec![])],
            // a custom directive whose argument is an operation variable
            _ => vec![dir("tag", vec![("name", self.variable(&Ty::nn(Ty::named("String")), 0))])],
        }
    }

    /// a value for a location of type `ty` (`loc_default`: the location has a default value)
    pub fn value(&mut self, ty: &Ty, depth: usize) -> Value {
        match ty {
            Ty::NonNull(inner) => {
                // variable forms for non-null locations
                match self.c.choose("val.nn.form", 3) {
                    0 => self.literal(inner, depth),
                    1 => self.variable(ty, 0),
                    _ => self.variable(ty, 2), // nullable variable with a default in a non-null position
                }
            }
            _ => match self.c.choose("val.form", 5) {
                0 => self.literal(ty, depth),
                1 => Value::Null(p0()),
                2 => self.variable(ty, 0),
                3 => self.variable(ty, 1),
                _ => self.variable(ty, 3),
            },
        }
    }

    fn variable(&mut self, loc: &Ty, form: usize) -> Value {
        let name = format!("v{}", self.vars.len());
        let (ty, default): (Ty, Option<Value>) = match form {
            0 => (loc.clone(), None),
            1 => (if loc.is_nonnull() { loc.clone() } else { Ty::nn(loc.clone()) }, None),
            2 => {
                let inner = loc.nullable().clone();
                let d = self.literal_default(&inner);
                (inner, Some(d))
            }
            _ => match loc.nullable() {
                // [T!] variable for a [T] location
                Ty::List(_, item) if !item.is_nonnull() => (Ty::list(Ty::nn((**item).clone())), None),
                _ => (loc.clone(), Some(self.literal_default(loc.nullable()))),
            },
        };
        self.vars.push(VarDef { p: p0(), name: nm(&name), ty, default, dirs: vec![] });
        Value::Var(p0(), name)
    }

    fn literal_default(&mut self, ty: &Ty) -> Value {
        // a constant literal of the type, simplest form
        match ty {
            Ty::NonNull(t) => self.literal_default(t),
            Ty::List(_, _) => Value::List(p0(), vec![]),
            Ty::Named(n) => simple_literal(self.sch, &n.s),
        }
    }

    fn literal(&mut self, ty: &Ty, depth: usize) -> Value {
        match ty {
            Ty::NonNull(t) => self.literal(t, depth),
            Ty::List(_, item) => match self.c.choose("list.form", 4) {
                0 => Value::List(p0(), vec![self.item(item, depth)]),
                1 => Value::List(p0(), vec![]),
                // input coercion: a single value for a list
                2 => self.item(item, depth),
                _ => Value::List(p0(), vec![self.item(item, depth), self.item(item, depth)]),
            },
            Ty::Named(n) => match self.sch.kind(&n.s) {
                Some(TsKind::Input) => {
                    let def = self.sch.types[&n.s].clone();
                    let mut fs = vec![];
                    for f in &def.input_fields {
                        let required = f.ty.is_nonnull() && f.default.is_none();
                        let give = if required { true } else { depth > 0 && self.c.flag("obj.optional_field") };
                        if give {
                            let v = if depth == 0 { self.literal_default(&f.ty) } else { self.value_in_obj_field(f, depth - 1) };
                            fs.push((nm(&f.name.s), v));
                        }
                    }
                    Value::Obj(p0(), fs)
                }
                Some(TsKind::Enum) => {
                    let vals = &self.sch.types[&n.s].values;
                    Value::Enum(p0(), vals[self.c.choose("enum.member", vals.len())].name.s.clone())
                }
                _ => match n.s.as_str() {
                    "Int" => Value::Int(p0(), "1".into()),
                    "Float" => {
                        if self.c.flag("float.int_literal") {
                            Value::Int(p0(), "2".into())
                        } else {
                            Value::Float(p0(), "1.5".into())
                        }
                    }
                    "ID" => {
                        if self.c.flag("id.int_literal") {
                            Value::Int(p0(), "7".into())
                        } else {
                            Value::Str(p0(), "id".into())
                        }
                    }
                    "Boolean" => Value::Bool(p0(), true),
                    "String" => Value::Str(p0(), "s".into()),
                    _ => Value::Str(p0(), "2020-01-01".into()),
                },
            },
        }
    }
    fn item(&mut self, item: &Ty, depth: usize) -> Value {
        if item.is_nonnull() || !self.c.flag("list.null_item") { self.literal(item, depth) } else { Value::Null(p0()) }
    }
    fn value_in_obj_field(&mut self, f: &InputValueDef, depth: usize) -> Value {
        // spec IsVariableUsageAllowed: the field's own default makes a nullable variable acceptable
        if f.ty.is_nonnull() && f.default.is_some() && self.c.flag("obj.nullable_var_for_defaulted_nonnull_field") {
            let inner = f.ty.nullable().clone();
            let name = format!("v{}", self.vars.len());
            self.vars.push(VarDef { p: p0(), name: nm(&name), ty: inner, default: None, dirs: vec![] });
            return Value::Var(p0(), name);
        }
        self.value_in_obj(&f.ty, depth)
    }
    fn value_in_obj(&mut self, ty: &Ty, depth: usize) -> Value {
        if self.c.flag("obj.field_is_variable") { self.variable(ty, 0) } else if !ty.is_nonnull() && self.c.flag("obj.field_null") { Value::Null(p0()) } else { self.literal(ty, depth) }
    }

    fn args(&mut self, defs: &[InputValueDef]) -> Option<Args> {
        let mut items = vec![];
        for d in defs {
            let required = d.ty.is_nonnull() && d.default.is_none();
            if required || self.c.flag("arg.give_optional") {
                let v = self.value(&d.ty, 1);
                items.push((nm(&d.name.s), v));
            }
        }
        if items.is_empty() { None } else { Some(Args { p: p0(), items }) }
    }

    /// type conditions that can apply inside `ty`: itself, then every composite type with overlapping possible types
    pub fn conds(&self, ty: &str) -> Vec<String> {
        let mine = self.sch.possible_types(ty);
        let mut out = vec![ty.to_string()];
        for n in &self.sch.order {
            if n != ty && self.sch.is_composite(n) && self.sch.possible_types(n).iter().any(|t| mine.contains(t)) {
                out.push(n.clone());
            }
        }
        out
    }

    pub fn selset(&mut self, ty: &str, depth: usize) -> SelSet {
        let fields: Vec<FieldDef> = self.sch.types.get(ty).map(|t| t.fields.clone()).unwrap_or_default();
        let n = 1 + self.c.choose("sel.count-1", 3);
        let mut items = vec![];
        for _ in 0..n {
            // unions have no fields of their own: default to __typename there
            let kinds = 5;
            let mut k = self.c.choose("sel.kind", kinds);
            if fields.is_empty() && k == 0 {
                k = 1;
            }
            match k {
                0 => {
                    let fi = self.c.choose("field.which", fields.len());
                    let fd = &fields[fi];
                    let alias = match self.c.choose("alias", 4) {
                        0 => None,
                        1 => {
                            self.nalias += 1;
                            Some(nm(&format!("al{}", self.nalias)))
                        }
                        2 => Some(nm(&fields[(fi + 1) % fields.len()].name.s)),
                        _ => Some(nm("__typename")),
                    };
                    let args = self.args(fd.args.as_deref().unwrap_or(&[]));
                    let dirs = self.dirs("field.dir");
                    let base = fd.ty.base().to_string();
                    let sel = if self.sch.is_composite(&base) {
                        Some(if depth == 0 { selset(vec![typename()]) } else { self.selset(&base, depth - 1) })
                    } else {
                        None
                    };
                    items.push(Sel::Field { alias, name: nm(&fd.name.s), args, dirs, sel });
                }
                1 => {
                    let mut t = typename();
                    if self.c.flag("typename.alias")
                        && let Sel::Field { alias, .. } = &mut t
                    {
                        self.nalias += 1;
                        *alias = Some(nm(&format!("tn{}", self.nalias)));
                    }
                    items.push(t)
                }
                2 | 3 => {
                    let conds = self.conds(ty);
                    let cond = if k == 3 { None } else { Some(conds[self.c.choose("inline.cond", conds.len())].clone()) };
                    let dirs = self.dirs("inline.dir");
                    let target = cond.clone().unwrap_or(ty.to_string());
                    let sel = if depth == 0 { selset(vec![typename()]) } else { self.selset(&target, depth - 1) };
                    items.push(Sel::Inline { p: p0(), cond: cond.map(|c| nm(&c)), dirs, sel });
                }
                _ => {
                    let conds = self.conds(ty);
                    let cond = conds[self.c.choose("spread.cond", conds.len())].clone();
                    // reuse an existing fragment on the same type, or define a new one
                    let existing: Vec<String> = self
                        .frags
                        .iter()
                        .filter_map(|f| match f {
                            ExecDef::Frag { name, cond: c, .. } if c.s == cond => Some(name.s.clone()),
                            _ => None,
                        })
                        .collect();
                    let name = if !existing.is_empty() && self.c.flag("spread.reuse") {
                        existing[0].clone()
                    } else {
                        let name = format!("F{}", self.frags.len());
                        // reserve the slot first so that nested fragments get later names
                        self.frags.push(ExecDef::Frag { p: p0(), name: nm(&name), cond: nm(&cond), dirs: vec![], sel: selset(vec![typename()]) });
                        let idx = self.frags.len() - 1;
                        let body = if depth == 0 { selset(vec![typename()]) } else { self.selset(&cond, depth - 1) };
                        let fdirs = if !self.custom_dirs {
                            vec![]
                        } else {
                            match self.c.choose("fragdef.dir", 3) {
                                0 => vec![],
                                1 => vec![dir("tag", vec![("name", Value::Str(p0(), "f".into()))])],
                                // a variable of the operations that spread the fragment
                                _ => vec![dir("tag", vec![("name", self.variable(&Ty::nn(Ty::named("String")), 0))])],
                            }
                        };
                        self.frags[idx] = ExecDef::Frag { p: p0(), name: nm(&name), cond: nm(&cond), dirs: fdirs, sel: body };
                        name
                    };
                    let dirs = self.dirs("spread.dir");
                    items.push(Sel::Spread { p: p0(), name: nm(&name), dirs });
                }
            }
        }
        selset(items)
    }
}

pub fn typename() -> Sel {
    Sel::Field { alias: None, name: nm("__typename"), args: None, dirs: vec![], sel: None }
}

pub fn simple_literal(sch: &Sch, ty: &str) -> Value {
    match sch.kind(ty) {
        Some(TsKind::Enum) => Value::Enum(p0(), sch.types[ty].values[0].name.s.clone()),
        Some(TsKind::Input) => {
            let def = &sch.types[ty];
            Value::Obj(
                p0(),
                def.input_fields
                    .iter()
                    .filter(|f| f.ty.is_nonnull() && f.default.is_none())
                    .map(|f| (nm(&f.name.s), match f.ty.nullable() {
                        Ty::List(..) => Value::List(p0(), vec![]),
                        Ty::Named(n) => simple_literal(sch, &n.s),
                        Ty::NonNull(_) => unreachable!(),
                    }))
                    .collect(),
            )
        }
        _ => match ty {
            "Int" => Value::Int(p0(), "1".into()),
            "Float" => Value::Float(p0(), "1.5".into()),
            "Boolean" => Value::Bool(p0(), true),
            "ID" | "String" => Value::Str(p0(), "s".into()),
            _ => Value::Str(p0(), "2020-01-01".into()),
        },
    }
}

/// One operation (+ the fragments it needs) over the schema.
pub fn gen_doc(c: &mut Chooser, sch: &Sch, depth: usize, custom_dirs: bool) -> ExecDoc {
    let kind = [OpKind::Query, OpKind::Mutation, OpKind::Subscription][c.choose("op.kind", 3)];
    // "F0": the same name as the first fragment (operations and fragments are separate namespaces)
    let op_name = [Some("Q"), None, Some("F0")][c.choose("op.name", 3)];
    let mut g = DocGen { c, sch, vars: vec![], frags: vec![], nalias: 0, custom_dirs };
    let root = sch.root(kind).unwrap_or_else(|| "Query".into());
    let sel = g.selset(&root, depth);
    let op_dirs = if custom_dirs {
        match g.c.choose("op.dir", 3) {
            0 => vec![],
            1 => vec![dir("tag", vec![("name", Value::Str(p0(), "o".into()))])],
            _ => vec![dir("once", vec![("n", Value::Int(p0(), "1".into()))])],
        }
    } else {
        vec![]
    };
    let mut vars = std::mem::take(&mut g.vars);
    if custom_dirs
        && !vars.is_empty()
        && g.c.flag("vardef.dir")
    {
        vars[0].dirs.push(dir("tag", vec![("name", Value::Str(p0(), "v".into()))]));
    }
    let mut defs = vec![ExecDef::Op {
        p: p0(),
        kind,
        name: op_name.map(nm),
        vars: if vars.is_empty() { None } else { Some((p0(), vars)) },
        dirs: op_dirs,
        sel,
    }];
    defs.append(&mut g.frags);
    // definition order: the operation first (as most people write it), last, or between its fragments
    if defs.len() > 1 {
        match g.c.choose("defs.order", 3) {
            0 => {}
            1 => defs.rotate_left(1),
            _ => defs.swap(0, 1),
        }
    }
    ExecDoc { defs }
}

// ------------------------------------------------------------------------------------------
// typed walkers (visit order is deterministic; used to apply "the k-th site" mutations)

pub struct SelCtx<'a> {
    pub ty: &'a str,
    /// None inside a fragment definition
    pub op: Option<OpKind>,
    pub depth: usize,
    /// name of the enclosing fragment definition, if any
    pub in_fragment: Option<&'a str>,
}

/// visit every selection set together with the type it selects on (types that do not resolve are skipped)
pub fn for_each_selset(doc: &mut ExecDoc, sch: &Sch, f: &mut dyn FnMut(&mut SelSet, &SelCtx)) {
    fn rec(sel: &mut SelSet, ty: &str, op: Option<OpKind>, depth: usize, frag: Option<&str>, sch: &Sch, f: &mut dyn FnMut(&mut SelSet, &SelCtx)) {
        f(sel, &SelCtx { ty, op, depth, in_fragment: frag });
        for s in sel.items.iter_mut() {
            match s {
                Sel::Field { name, sel: Some(sub), .. } => {
                    if let Some(fd) = sch.field(ty, &name.s) {
                        let base = fd.ty.base().to_string();
                        rec(sub, &base, op, depth + 1, frag, sch, f);
                    }
                }
                Sel::Inline { cond, sel: sub, .. } => {
                    let t = cond.as_ref().map_or(ty.to_string(), |c| c.s.clone());
                    rec(sub, &t, op, depth + 1, frag, sch, f);
                }
                _ => {}
            }
        }
    }
    for d in doc.defs.iter_mut() {
        match d {
            ExecDef::Op { kind, sel, .. } => {
                if let Some(root) = sch.root(*kind) {
                    rec(sel, &root, Some(*kind), 0, None, sch, f);
                }
            }
            ExecDef::Frag { name, cond, sel, .. } => {
                let n = name.s.clone();
                let c = cond.s.clone();
                rec(sel, &c, None, 0, Some(&n), sch, f);
            }
            _ => {}
        }
    }
}

/// visit every argument list (fields and directives) with its definitions
pub fn for_each_args(doc: &mut ExecDoc, sch: &Sch, f: &mut dyn FnMut(&mut Option<Args>, &[InputValueDef], &str)) {
    fn dirs(ds: &mut [Dir], sch: &Sch, f: &mut dyn FnMut(&mut Option<Args>, &[InputValueDef], &str)) {
        for d in ds {
            if let Some(def) = sch.directives.get(&d.name.s) {
                let defs = def.dir_args.clone().unwrap_or_default();
                f(&mut d.args, &defs, "directive");
            }
        }
    }
    for d in doc.defs.iter_mut() {
        match d {
            ExecDef::Op { vars, dirs: ds, .. } => {
                dirs(ds, sch, f);
                if let Some((_, vs)) = vars {
                    for v in vs {
                        dirs(&mut v.dirs, sch, f);
                    }
                }
            }
            ExecDef::Frag { dirs: ds, .. } => dirs(ds, sch, f),
            _ => {}
        }
    }
    for_each_selset(doc, sch, &mut |sel, ctx| {
        for s in sel.items.iter_mut() {
            match s {
                Sel::Field { name, args, dirs: ds, .. } => {
                    if let Some(fd) = sch.field(ctx.ty, &name.s) {
                        let defs = fd.args.clone().unwrap_or_default();
                        f(args, &defs, "field");
                    }
                    dirs(ds, sch, f);
                }
                Sel::Spread { dirs: ds, .. } | Sel::Inline { dirs: ds, .. } => dirs(ds, sch, f),
            }
        }
    });
}

/// visit every value position (nested too) with its expected type
pub fn for_each_value(doc: &mut ExecDoc, sch: &Sch, f: &mut dyn FnMut(&mut Value, &Ty)) {
    fn rec(v: &mut Value, ty: &Ty, sch: &Sch, f: &mut dyn FnMut(&mut Value, &Ty)) {
        f(v, ty);
        let inner = ty.nullable();
        match (v, inner) {
            (Value::List(_, xs), Ty::List(_, item)) => {
                for x in xs {
                    rec(x, item, sch, f);
                }
            }
            (Value::Obj(_, fs), Ty::Named(n)) => {
                if let Some(def) = sch.types.get(&n.s) {
                    for (k, x) in fs.iter_mut() {
                        if let Some(fd) = def.input_fields.iter().find(|d| d.name.s == k.s) {
                            rec(x, &fd.ty, sch, f);
                        }
                    }
                }
            }
            _ => {}
        }
    }
    for_each_args(doc, sch, &mut |args, defs, _| {
        if let Some(a) = args {
            for (k, v) in a.items.iter_mut() {
                if let Some(d) = defs.iter().find(|d| d.name.s == k.s) {
                    rec(v, &d.ty, sch, f);
                }
            }
        }
    });
}

/// The TypeScript type configured for each scalar and target - the harness's own statement of the
/// configuration (built-in defaults as documented, `Date` through the config file, `Stamp` through
/// @nitrogql_ts_type). Order: (operationInput, operationOutput, resolverInput, resolverOutput).
pub fn scalar_ts(name: &str) -> Option<[&'static str; 4]> {
    Some(match name {
        "Int" | "Float" => ["number"; 4],
        "String" => ["string"; 4],
        "Boolean" => ["boolean"; 4],
        "ID" => ["string | number", "string", "string", "string | number"],
        "Date" => ["string"; 4],
        "Stamp" => ["OI", "OO", "RI", "RO"],
        _ => return None,
    })
}
