//! C01 / C02 — generated result (and fragment) types vs the spec's execution semantics.
//!
//! Documents: E1 type-directed generator (gen_sem) filtered to spec-valid documents the subject
//! accepts. For every operation and fragment X:
//!   C01: every abstract response r = Execute_spec(X, sigma, data choices) (R-EXEC, all 2^k
//!        assignments of the Boolean variables, data choices deviation-bounded) must be a member of
//!        the emitted type, read with the emitted schema declaration file (R-TS).
//!   C02: every member of the emitted type (enumerated over the abstract value domain) must be in
//!        Ref_local(X): per merged selection set some possible object type and some assignment.

use crate::c03::{subject_check, subject_schema};
use crate::explore::{Chooser, Dev, DistinctSet, ExploreCfg, explore, fnv};
use crate::gen_sem::*;
use crate::gql::*;
use crate::pipeline;
use crate::render::exec_text;
use crate::report::{Args as RunArgs, Reporter, Violation, stats_json};
use crate::rexec::{Exec, bool_vars, frag_map};
use crate::rts::{Decl, T, Te, Val, World, parse_module, show_t};
use crate::schema::Sch;
use crate::util::catch;
use crate::valid_op;
use serde_json::{Value as J, json};
use std::collections::{BTreeMap, BTreeSet};
use std::path::PathBuf;
use std::sync::atomic::{AtomicU64, Ordering};
use std::sync::{Mutex, OnceLock};
use std::time::Duration;

pub fn config_with_date() -> nitrogql_config_file::Config {
    let mut cfg = pipeline::default_config();
    cfg.generate.r#type.scalar_types.insert("Date".into(), nitrogql_config_file::ScalarTypeConfig::Single("string".into()));
    pipeline::via_config_text(&cfg)
}

/// the schema declaration module, loaded once
pub fn base_world() -> &'static World {
    static W: OnceLock<World> = OnceLock::new();
    W.get_or_init(|| {
        let s = subject_schema();
        let text = pipeline::schema_dts(&s.doc, &config_with_date()).unwrap_or_else(|e| crate::report::machinery(&format!("schema_dts failed: {e}"))).buffer;
        let mut w = World::new();
        w.load("schema", &text, &BTreeMap::new()).unwrap_or_else(|e| crate::report::machinery(&format!("R-TS cannot read the schema declaration file: {e}")));
        w
    })
}

/// (definition index -> (result alias, variables alias)) from `declare const X: TypedDocumentNode<R, V>`
pub fn typed_document_aliases(decls: &[Decl]) -> Vec<(String, Option<String>, Option<String>)> {
    let mut out = vec![];
    for d in decls {
        if let Decl::Const { name, ty: Some(Te::Ref(path, args)), .. } = d
            && path.last().is_some_and(|p| p == "TypedDocumentNode")
            && args.len() == 2
        {
            let n = |t: &Te| match t {
                Te::Ref(p, a) if a.is_empty() && p.len() == 1 && p[0] != "never" => Some(p[0].clone()),
                _ => None,
            };
            out.push((name.clone(), n(&args[0]), n(&args[1])));
        }
    }
    out
}

pub struct Loaded {
    pub world: World,
    /// per executable definition (operations and fragments, in document order): result alias
    pub results: Vec<Option<String>>,
    pub variables: Vec<Option<String>>,
    pub dts: String,
}

pub fn load_op_types(doc_text: &str, cfg: &nitrogql_config_file::Config) -> Result<Loaded, String> {
    let s = subject_schema();
    let ops = vec![(PathBuf::from("/p/a.graphql"), doc_text.to_string())];
    let loaded = pipeline::load_operations(&ops, 1).map_err(|f| format!("load: {:?}", f.diags))?;
    let dts = pipeline::operation_dts(&s.schema, &loaded[0].1, cfg, "./schema.js").buffer;
    let mut world = base_world().clone();
    let mut imports = BTreeMap::new();
    imports.insert("./schema.js".to_string(), "schema".to_string());
    world.load("op", &dts, &imports).map_err(|e| format!("R-TS: {e}\n{dts}"))?;
    let decls = parse_module(&dts).map_err(|e| format!("R-TS: {e}"))?;
    let al = typed_document_aliases(&decls);
    Ok(Loaded { world, results: al.iter().map(|a| a.1.clone()).collect(), variables: al.iter().map(|a| a.2.clone()).collect(), dts })
}

/// one representative value of each custom scalar's configured output type
pub fn scalar_values() -> BTreeMap<String, Val> {
    let mut m = BTreeMap::new();
    m.insert("Date".to_string(), Val::Str("§".into()));
    m.insert("Stamp".to_string(), Val::Atom("OO".into()));
    m
}

// ---------------------------------------------------------------- Ref_local membership (C02)

struct Ref<'a> {
    sch: &'a Sch,
    ex: Exec<'a>,
    vars: Vec<String>,
    world: &'a World,
}

impl<'a> Ref<'a> {
    fn scalar_member(&self, name: &str, v: &Val) -> bool {
        // the scalar's configured *output* TypeScript type (the harness's own table, not the subject's output)
        let Some(ts) = scalar_ts(name) else { return false };
        let w = World::new();
        match crate::rts::parse_type(ts[1]).and_then(|te| w.eval_in_empty(&te)) {
            Ok(t) => w.member(v, &t).unwrap_or(false),
            Err(_) => false,
        }
    }
    fn val(&mut self, v: &Val, ty: &Ty, subs: &[&'a SelSet]) -> bool {
        match ty {
            Ty::NonNull(inner) => *v != Val::Null && self.inner(v, inner, subs),
            other => *v == Val::Null || self.inner(v, other, subs),
        }
    }
    fn inner(&mut self, v: &Val, ty: &Ty, subs: &[&'a SelSet]) -> bool {
        match ty {
            Ty::NonNull(i) => self.inner(v, i, subs),
            Ty::List(_, item) => match v {
                Val::List(xs) => xs.iter().all(|x| self.val(x, item, subs)),
                _ => false,
            },
            Ty::Named(n) => match self.sch.kind(&n.s) {
                Some(TsKind::Enum) => matches!(v, Val::Str(s) if self.sch.types[&n.s].values.iter().any(|m| m.name.s == *s)),
                Some(TsKind::Object | TsKind::Interface | TsKind::Union) => self.object(v, &n.s, subs),
                _ => self.scalar_member(&n.s, v),
            },
        }
    }
    /// v is a record some possible object type could yield under some assignment of the variables
    fn object(&mut self, v: &Val, declared: &str, subs: &[&'a SelSet]) -> bool {
        let Val::Rec(rec) = v else { return false };
        let poss = self.sch.possible_types(declared);
        let nvars = self.vars.len();
        for obj in &poss {
            for mask in 0..(1u32 << nvars) {
                self.ex.sigma = self.vars.iter().enumerate().map(|(i, n)| (n.clone(), mask >> i & 1 == 1)).collect();
                let mut grouped: Vec<(String, Vec<&'a Sel>)> = vec![];
                let mut visited = BTreeSet::new();
                for s in subs {
                    self.ex.collect_fields(obj, s, &mut visited, &mut grouped);
                }
                if grouped.len() != rec.len() || !grouped.iter().all(|(k, _)| rec.contains_key(k)) {
                    continue;
                }
                let saved = self.ex.sigma.clone();
                let mut ok = true;
                for (key, fields) in &grouped {
                    let Sel::Field { name, .. } = fields[0] else { unreachable!() };
                    let x = &rec[key];
                    let good = if name.s == "__typename" {
                        *x == Val::Str(obj.clone())
                    } else {
                        match self.sch.field(obj, &name.s) {
                            None => false,
                            Some(fd) => {
                                let fty = fd.ty.clone();
                                let ss: Vec<&'a SelSet> = fields
                                    .iter()
                                    .filter_map(|f| match f {
                                        Sel::Field { sel: Some(s), .. } => Some(s),
                                        _ => None,
                                    })
                                    .collect();
                                self.val(x, &fty, &ss)
                            }
                        }
                    };
                    self.ex.sigma = saved.clone();
                    if !good {
                        ok = false;
                        break;
                    }
                }
                if ok {
                    return true;
                }
            }
        }
        false
    }
}

/// response path at which a value stops being explainable by Ref_local: greedy descent - at each
/// level find a key whose sub-value no (object, assignment) explains while the key set matches
fn deepest_ref_failure<'a>(r: &mut Ref<'a>, v: &Val, parents: &[String], sel: &'a SelSet) -> Vec<String> {
    let Val::Rec(rec) = v else { return vec![] };
    // try removing one key's constraint at a time: the key whose replacement by a conforming value makes
    // the record acceptable is the culprit; approximate by testing sub-records
    for (k, x) in rec {
        // is there an execution with this key set at all?
        let mut probe = rec.clone();
        probe.remove(k);
        let _ = x;
        let without = Val::Rec(probe);
        if parents.iter().any(|p| r.object(&without, p, &[sel])) {
            return vec![k.clone()];
        }
    }
    // culprit is nested or the key set itself: report the first key whose value is a record/list of records
    for (k, x) in rec {
        if matches!(x, Val::Rec(_) | Val::List(_)) {
            return vec![k.clone()];
        }
    }
    rec.keys().next().cloned().into_iter().collect()
}

/// the highest-priority cause among the path features (keys name one cause, the case lists all)
fn primary(pf: &[&'static str]) -> &'static str {
    for t in [
        "same-key-object-fields-with-variable-conditional-children",
        "same-key-object-fields",
        "same-key-aliased-and-unaliased-leaf-fields",
        "same-key-leaf-fields",
        "alias-named-__typename",
        "skip-and-include-on-one-selection",
        "through-named-fragment",
    ] {
        if pf.contains(&t) {
            return t;
        }
    }
    "plain"
}

fn primary_with_signature(pf: &[&'static str]) -> String {
    let p = primary(pf);
    if p == "same-key-object-fields-with-variable-conditional-children" {
        // the known defect loses the conditions of every occurrence after the first one; a failure in
        // which only the first occurrence has variable-conditional children is a different defect
        let sig = LAST_SIG.with(|s| s.borrow().clone());
        let occ: Vec<&str> = sig.split('[').filter(|x| !x.is_empty()).collect();
        let cond = |o: &str| o.split_once(':').is_some_and(|(_, ch)| ch.chars().zip(ch.chars().skip(1)).any(|(a, b)| (a == 's' || a == 'i') && b.is_ascii_digit()));
        let later = occ.iter().skip(1).any(|o| cond(o));
        format!("{p}:{}", if later { "a-later-occurrence-is-conditional" } else { "only-the-first-occurrence-is-conditional" })
    } else {
        p.to_string()
    }
}

/// `a` with the keys (at every record level) that only `b` has
fn mix(a: &Val, b: &Val) -> Val {
    match (a, b) {
        (Val::Rec(x), Val::Rec(y)) => {
            let mut out = x.clone();
            for (k, v) in y {
                match out.get(k) {
                    None => {
                        out.insert(k.clone(), v.clone());
                    }
                    Some(w) => {
                        let m = mix(w, v);
                        out.insert(k.clone(), m);
                    }
                }
            }
            Val::Rec(out)
        }
        (Val::List(x), Val::List(y)) if x.len() == y.len() => Val::List(x.iter().zip(y.iter()).map(|(p, q)| mix(p, q)).collect()),
        _ => a.clone(),
    }
}

// ---------------------------------------------------------------- member enumeration (C02)

pub struct Enum<'w> {
    pub world: &'w World,
    pub cap: usize,
    pub truncated: bool,
}

impl Enum<'_> {
    /// representative members of [[t]]; `None` in the result of `prop` means "absent"
    pub fn members(&mut self, t: &T, depth: usize) -> Vec<Val> {
        let t = match self.world.force(t.clone(), 0) {
            Ok(t) => t,
            Err(_) => return vec![Val::Atom("⊥unresolvable".into())],
        };
        match t {
            T::Never | T::Undefined | T::Fn => vec![],
            T::Unknown => vec![Val::Atom("⊤anything".into())],
            T::Null => vec![Val::Null],
            T::Str => vec![Val::Str("§".into())],
            T::Num => vec![Val::Num],
            T::Bool => vec![Val::Bool(true)],
            T::Lit(s) => vec![Val::Str(s)],
            T::Opaque(a) => vec![Val::Atom(a)],
            T::Ref(..) => vec![],
            T::Arr(e, _) => {
                let ms = if depth == 0 { vec![] } else { self.members(&e, depth - 1) };
                let mut out = vec![Val::List(vec![])];
                for m in &ms {
                    out.push(Val::List(vec![m.clone()]));
                }
                if ms.len() >= 2 {
                    out.push(Val::List(vec![ms[0].clone(), ms[ms.len() - 1].clone()]));
                }
                out
            }
            T::Union(v) => {
                let mut out = vec![];
                for x in v {
                    out.extend(self.members(&x, depth));
                }
                out.sort();
                out.dedup();
                out
            }
            T::Obj(props) => {
                let mut acc: Vec<BTreeMap<String, Val>> = vec![BTreeMap::new()];
                for (k, p) in props {
                    let mut opts: Vec<Option<Val>> = if depth == 0 { vec![] } else { self.members(&p.ty, depth - 1).into_iter().map(Some).collect() };
                    if p.optional || self.world.admits_undefined(&p.ty).unwrap_or(false) {
                        opts.push(None);
                    }
                    let mut next = vec![];
                    'outer: for a in &acc {
                        for o in &opts {
                            let mut m = a.clone();
                            if let Some(v) = o {
                                m.insert(k.clone(), v.clone());
                            }
                            next.push(m);
                            if next.len() >= self.cap {
                                self.truncated = true;
                                break 'outer;
                            }
                        }
                    }
                    acc = next;
                }
                acc.into_iter().map(Val::Rec).collect()
            }
        }
    }
}

// ---------------------------------------------------------------- classification

/// features of the fields that contribute to the response path `path` (narrow cores)
/// Ordered signature of a group of same-key object selections: per occurrence (in document order)
/// the variable conditions on it and on its direct children (variables numbered by first appearance).
/// Known findings about merged selections are matched on it, so that a change which breaks a
/// *different* arrangement of the same feature class is still reported.
fn merge_signature(fields: &[&Sel]) -> String {
    fn cond(ds: &[Dir], vars: &mut Vec<String>) -> String {
        let mut out = String::new();
        for d in ds {
            if d.name.s == "skip" || d.name.s == "include" {
                if let Some(Value::Var(_, v)) = d.args.as_ref().and_then(|a| a.items.first().map(|x| &x.1)) {
                    let k = match vars.iter().position(|x| x == v) {
                        Some(k) => k,
                        None => {
                            vars.push(v.clone());
                            vars.len() - 1
                        }
                    };
                    out.push_str(&format!("{}{k}", if d.name.s == "skip" { "s" } else { "i" }));
                }
            }
        }
        if out.is_empty() { "-".into() } else { out }
    }
    fn children(s: &SelSet, vars: &mut Vec<String>) -> String {
        let mut set: Vec<String> = vec![];
        for it in &s.items {
            let d = match it {
                Sel::Field { dirs, .. } | Sel::Spread { dirs, .. } => cond(dirs, vars),
                Sel::Inline { dirs, sel, .. } => format!("{}{{{}}}", cond(dirs, vars), children(sel, vars)),
            };
            if !set.contains(&d) {
                set.push(d);
            }
        }
        set.join(",")
    }
    let mut vars = vec![];
    let mut out = String::new();
    for f in fields {
        if let Sel::Field { dirs, sel, .. } = f {
            let own = cond(dirs, &mut vars);
            match sel {
                Some(x) => out.push_str(&format!("[{own}:{}]", children(x, &mut vars))),
                None => out.push_str(&format!("[{own}]")),
            }
        }
    }
    out
}

thread_local! {
    /// signature of the deepest same-key group met by the last `path_features` call on this thread
    static LAST_SIG: std::cell::RefCell<String> = const { std::cell::RefCell::new(String::new()) };
}

fn path_features(doc: &ExecDoc, root: &SelSet, path: &[String]) -> Vec<&'static str> {
    LAST_SIG.with(|s| s.borrow_mut().clear());
    let frags = frag_map(doc);
    fn gather<'a>(s: &'a SelSet, key: &str, frags: &BTreeMap<String, (&'a Name, &'a SelSet)>, out: &mut Vec<&'a Sel>, via_fragment: &mut bool, seen: &mut BTreeSet<String>) {
        for it in &s.items {
            match it {
                Sel::Field { alias, name, .. } => {
                    if alias.as_ref().unwrap_or(name).s == key {
                        out.push(it);
                    }
                }
                Sel::Inline { sel, .. } => gather(sel, key, frags, out, via_fragment, seen),
                Sel::Spread { name, .. } => {
                    if seen.insert(name.s.clone())
                        && let Some((_, fs)) = frags.get(&name.s)
                    {
                        let before = out.len();
                        gather(fs, key, frags, out, via_fragment, seen);
                        if out.len() > before {
                            *via_fragment = true;
                        }
                    }
                }
            }
        }
    }
    fn var_cond(ds: &[Dir]) -> bool {
        ds.iter().any(|d| (d.name.s == "skip" || d.name.s == "include") && d.args.as_ref().is_some_and(|a| a.items.iter().any(|(_, v)| matches!(v, Value::Var(..)))))
    }
    fn conditional_children(s: &SelSet) -> bool {
        s.items.iter().any(|it| match it {
            Sel::Field { dirs, .. } | Sel::Spread { dirs, .. } => var_cond(dirs),
            Sel::Inline { dirs, sel, .. } => var_cond(dirs) || conditional_children(sel),
        })
    }
    let mut tags: BTreeSet<&'static str> = BTreeSet::new();
    let mut sets: Vec<&SelSet> = vec![root];
    for key in path {
        let mut fields: Vec<&Sel> = vec![];
        let mut via = false;
        for s in &sets {
            gather(s, key, &frags, &mut fields, &mut via, &mut BTreeSet::new());
        }
        if via {
            tags.insert("through-named-fragment");
        }
        let mut next: Vec<&SelSet> = vec![];
        for f in &fields {
            if let Sel::Field { alias, name, dirs, sel, .. } = f {
                if alias.as_ref().is_some_and(|a| a.s == "__typename") && name.s != "__typename" {
                    tags.insert("alias-named-__typename");
                }
                if dirs.iter().filter(|d| d.name.s == "skip" || d.name.s == "include").count() > 1 {
                    tags.insert("skip-and-include-on-one-selection");
                }
                if let Some(x) = sel {
                    next.push(x);
                }
            }
        }
        if fields.len() > 1 {
            let aliased = fields.iter().filter(|f| matches!(f, Sel::Field { alias: Some(_), .. })).count();
            if next.is_empty() && aliased > 0 && aliased < fields.len() {
                tags.insert("same-key-aliased-and-unaliased-leaf-fields");
            } else if next.is_empty() {
                tags.insert("same-key-leaf-fields");
            } else if next.iter().any(|x| conditional_children(x)) {
                tags.insert("same-key-object-fields-with-variable-conditional-children");
                let sig = merge_signature(&fields);
                LAST_SIG.with(|s| *s.borrow_mut() = sig);
            } else {
                tags.insert("same-key-object-fields");
            }
        }
        if next.is_empty() {
            sets = vec![];
            break;
        }
        sets = next;
    }
    // the failure is located at the object the path ends in: a group of same-key object selections
    // directly inside it is part of the failing object's shape
    if !tags.iter().any(|t| t.starts_with("same-key")) && !sets.is_empty() {
        let mut keys: BTreeSet<String> = BTreeSet::new();
        fn keys_of<'a>(s: &'a SelSet, frags: &BTreeMap<String, (&'a Name, &'a SelSet)>, out: &mut BTreeSet<String>, seen: &mut BTreeSet<String>) {
            for it in &s.items {
                match it {
                    Sel::Field { alias, name, .. } => {
                        out.insert(alias.as_ref().unwrap_or(name).s.clone());
                    }
                    Sel::Inline { sel, .. } => keys_of(sel, frags, out, seen),
                    Sel::Spread { name, .. } => {
                        if seen.insert(name.s.clone())
                            && let Some((_, fs)) = frags.get(&name.s)
                        {
                            keys_of(fs, frags, out, seen);
                        }
                    }
                }
            }
        }
        for s in &sets {
            keys_of(s, &frags, &mut keys, &mut BTreeSet::new());
        }
        for key in keys {
            let mut fields: Vec<&Sel> = vec![];
            let mut via = false;
            for s in &sets {
                gather(s, &key, &frags, &mut fields, &mut via, &mut BTreeSet::new());
            }
            let objs: Vec<&SelSet> = fields.iter().filter_map(|f| if let Sel::Field { sel: Some(x), .. } = f { Some(x) } else { None }).collect();
            if fields.len() > 1 && !objs.is_empty() && objs.iter().any(|x| conditional_children(x)) {
                tags.insert("same-key-object-fields-with-variable-conditional-children");
                let sig = merge_signature(&fields);
                LAST_SIG.with(|s| *s.borrow_mut() = sig);
                break;
            }
        }
    }
    tags.into_iter().collect()
}

#[allow(dead_code)]
fn doc_features(doc: &ExecDoc) -> Vec<&'static str> {
    let mut tags: BTreeSet<&'static str> = BTreeSet::new();
    fn cond_kind(ds: &[Dir]) -> Option<&'static str> {
        let mut k = None;
        for d in ds {
            if d.name.s == "skip" || d.name.s == "include" {
                let var = d.args.as_ref().is_some_and(|a| a.items.iter().any(|(_, v)| matches!(v, Value::Var(..))));
                k = Some(if var { "var" } else { "lit" });
                if var {
                    return k;
                }
            }
        }
        k
    }
    fn has_var_cond_child(s: &SelSet) -> bool {
        s.items.iter().any(|it| match it {
            Sel::Field { dirs, .. } | Sel::Spread { dirs, .. } => cond_kind(dirs) == Some("var"),
            Sel::Inline { dirs, sel, .. } => cond_kind(dirs) == Some("var") || has_var_cond_child(sel),
        })
    }
    fn walk(s: &SelSet, tags: &mut BTreeSet<&'static str>) {
        let mut keys: BTreeMap<String, Vec<&Sel>> = BTreeMap::new();
        for it in &s.items {
            match it {
                Sel::Field { alias, name, dirs, sel, .. } => {
                    let key = alias.as_ref().unwrap_or(name).s.clone();
                    keys.entry(key).or_default().push(it);
                    if alias.as_ref().is_some_and(|a| a.s == "__typename") && name.s != "__typename" {
                        tags.insert("alias-named-__typename");
                    }
                    if dirs.iter().filter(|d| d.name.s == "skip" || d.name.s == "include").count() > 1 {
                        tags.insert("skip-and-include-on-one-selection");
                    }
                    if let Some(x) = sel {
                        walk(x, tags);
                    }
                }
                Sel::Inline { sel, .. } => walk(sel, tags),
                Sel::Spread { .. } => {}
            }
        }
        for (_, fs) in keys {
            if fs.len() > 1 {
                let objs: Vec<&SelSet> = fs.iter().filter_map(|f| if let Sel::Field { sel: Some(s), .. } = f { Some(s) } else { None }).collect();
                if !objs.is_empty() {
                    if objs.iter().any(|s| has_var_cond_child(s)) {
                        tags.insert("same-key-object-fields-with-variable-conditional-children");
                    } else {
                        tags.insert("same-key-object-fields");
                    }
                } else {
                    tags.insert("same-key-leaf-fields");
                }
            }
        }
    }
    for d in &doc.defs {
        match d {
            ExecDef::Op { sel, .. } | ExecDef::Frag { sel, .. } => walk(sel, &mut tags),
            _ => {}
        }
    }
    tags.into_iter().collect()
}

struct Cnt {
    docs: AtomicU64,
    checked_docs: AtomicU64,
    responses: AtomicU64,
    members: AtomicU64,
    truncated_docs: AtomicU64,
    skipped_invalid: AtomicU64,
    skipped_rejected: AtomicU64,
}

fn check_doc(prop: &str, rep: &Reporter, sch: &Sch, doc: &ExecDoc, text: &str, c: &Chooser, cnt: &Cnt, data_dev: usize) {
    let loaded = match catch(|| load_op_types(text, &config_with_date())) {
        Ok(Ok(l)) => l,
        Ok(Err(e)) => {
            rep.report(Violation { key: "machinery.rts_cannot_read_output".into(), what: e.chars().take(600).collect(), case: json!({"text": text}) });
            return;
        }
        Err(p) => {
            rep.report(Violation { key: format!("generate.panic@{}", p.key()), what: format!("generate panicked at {}: {}", p.site, p.msg), case: json!({"text": text}) });
            return;
        }
    };
    cnt.checked_docs.fetch_add(1, Ordering::Relaxed);
    let vars = bool_vars(doc);
    let frags = frag_map(doc);
    let features: Vec<&'static str> = vec![];
    for (di, def) in doc.defs.iter().enumerate() {
        let (sel, parents, what): (&SelSet, Vec<String>, String) = match def {
            ExecDef::Op { kind, sel, .. } => (sel, vec![sch.root(*kind).unwrap()], "operation".into()),
            ExecDef::Frag { name, cond, sel, .. } => (sel, sch.possible_types(&cond.s), format!("fragment {}", name.s)),
            _ => continue,
        };
        let Some(Some(alias)) = loaded.results.get(di) else {
            rep.report(Violation { key: "machinery.no_result_alias".into(), what: format!("no result type found for definition {di}"), case: json!({"text": text, "dts": loaded.dts}) });
            continue;
        };
        let ty = match loaded.world.local("op", alias) {
            Ok(t) => t,
            Err(e) => {
                rep.report(Violation { key: "machinery.alias_missing".into(), what: e, case: json!({"text": text}) });
                continue;
            }
        };
        let case = |extra: J| json!({"text": text, "definition": what, "emitted_type": alias, "features": features, "picks": c.picks(), "detail": extra});
        if prop == "C01" {
            for parent in &parents {
                for mask in 0..(1u32 << vars.len()) {
                    let sigma: BTreeMap<String, bool> = vars.iter().enumerate().map(|(i, n)| (n.clone(), mask >> i & 1 == 1)).collect();
                    let ex = Exec { sch, frags: frags.clone(), sigma: sigma.clone(), scalars: scalar_values() };
                    // data choices: deviation-bounded exploration, sequential (documents are the parallel axis)
                    let mut level: Vec<Dev> = vec![Dev::default()];
                    for d in 0..=data_dev {
                        let mut next = vec![];
                        for dv in &level {
                            let mut dc = Chooser::new(dv);
                            let r = ex.execute(&mut dc, parent, &[sel]);
                            cnt.responses.fetch_add(1, Ordering::Relaxed);
                            match loaded.world.member(&r, &ty) {
                                Ok(true) => {}
                                Ok(false) => {
                                    let path = loaded.world.explain(&r, &ty);
                                    let pf = path_features(doc, sel, &path);
                                    let ftag = primary_with_signature(&pf);
                                    rep.report(Violation {
                                        key: format!("not_admitted[{ftag}]"),
                                        what: format!("a spec-conformant response of the {what} is not a member of {alias}"),
                                        case: case(json!({"features_on_failing_path": pf, "merge_signature": LAST_SIG.with(|s| s.borrow().clone()), "failing_path": path, "response": r.show(), "variables": sigma, "parent_object": parent, "type": loaded.world.canon(&ty, 6).map(|t| show_t(&t)).unwrap_or_default()})),
                                    });
                                }
                                Err(e) => rep.report(Violation { key: "machinery.member_eval".into(), what: e, case: case(json!({"dts": loaded.dts})) }),
                            }
                            if d < data_dev {
                                let from = dv.last_pos().map_or(0, |p| p as usize + 1);
                                for j in from..dc.trace.len() {
                                    for alt in 1..dc.trace[j].arity {
                                        next.push(dv.with(j as u32, alt));
                                    }
                                }
                            }
                        }
                        level = next;
                    }
                }
            }
        } else {
            let mut en = Enum { world: &loaded.world, cap: 3000, truncated: false };
            let ms = en.members(&ty, 8);
            if en.truncated {
                cnt.truncated_docs.fetch_add(1, Ordering::Relaxed);
            }
            let mut r = Ref { sch, ex: Exec { sch, frags: frags.clone(), sigma: BTreeMap::new(), scalars: scalar_values() }, vars: vars.clone(), world: &loaded.world };
            for m in &ms {
                cnt.members.fetch_add(1, Ordering::Relaxed);
                // a member must be producible for SOME parent object the definition can be executed on
                let ok = parents.iter().any(|p| {
                    // wrap: the definition's own selection set on a value of concrete type p
                    r.object(m, p, &[sel])
                });
                if !ok {
                    let path = deepest_ref_failure(&mut r, m, &parents, sel);
                    let pf = path_features(doc, sel, &path);
                    let ftag = primary_with_signature(&pf);
                    rep.report(Violation {
                        key: format!("admits_impossible[{ftag}]"),
                        what: format!("{alias} admits a value no execution of the {what} can return"),
                        case: case(json!({"features_on_failing_path": pf, "merge_signature": LAST_SIG.with(|s| s.borrow().clone()), "failing_path": path, "value": m.show(), "type": loaded.world.canon(&ty, 6).map(|t| show_t(&t)).unwrap_or_default()})),
                    });
                    break;
                }
            }
            // mixed responses: the keys the operation returns under one assignment of its Boolean variables, plus the
            // keys it returns only under another one (same runtime object types, same data). Such a value reads fine
            // through any branch that does not mention the extra keys; the `key?: never` entries of the emitted
            // branches exist to keep the assignments apart. When no execution returns the mixture, the type must not admit it.
            // Only where every record of the response has one possible object type (no field of interface or union type):
            // then all branches of each emitted union belong to that type. Between branches of different object types
            // TypeScript offers nothing but `__typename` to keep them apart, and the mixture would be read through the
            // other type's branch.
            let concrete_only = parents.len() == 1 && {
                fn ok(sch: &Sch, frags: &BTreeMap<String, (&crate::gql::Name, &SelSet)>, sel: &SelSet, ty: &str, depth: usize) -> bool {
                    depth < 12
                        && sel.items.iter().all(|s| match s {
                            Sel::Field { name, sel: Some(sub), .. } => match sch.field(ty, &name.s) {
                                Some(fd) => sch.kind(fd.ty.base()) == Some(TsKind::Object) && ok(sch, frags, sub, fd.ty.base(), depth + 1),
                                None => false,
                            },
                            Sel::Field { .. } => true,
                            Sel::Inline { sel: sub, .. } => ok(sch, frags, sub, ty, depth + 1),
                            Sel::Spread { name, .. } => match frags.get(&name.s) {
                                Some((_, sub)) => ok(sch, frags, sub, ty, depth + 1),
                                None => false,
                            },
                        })
                }
                ok(sch, &frags, sel, &parents[0], 0)
            };
            if concrete_only && !vars.is_empty() && vars.len() <= 3 {
                'mixed: for parent in &parents {
                    let run = |mask: u32| {
                        let sigma: BTreeMap<String, bool> = vars.iter().enumerate().map(|(i, n)| (n.clone(), mask >> i & 1 == 1)).collect();
                        let ex = Exec { sch, frags: frags.clone(), sigma, scalars: scalar_values() };
                        let dv = Dev::default();
                        ex.execute(&mut Chooser::new(&dv), parent, &[sel])
                    };
                    let rs: Vec<Val> = (0..(1u32 << vars.len())).map(run).collect();
                    for (i, a) in rs.iter().enumerate() {
                        for (j, b) in rs.iter().enumerate() {
                            if i == j {
                                continue;
                            }
                            let m = mix(a, b);
                            if rs.contains(&m) {
                                continue;
                            }
                            cnt.members.fetch_add(1, Ordering::Relaxed);
                            if parents.iter().any(|p| r.object(&m, p, &[sel])) {
                                continue;
                            }
                            if let Ok(true) = loaded.world.member(&m, &ty) {
                                let path = deepest_ref_failure(&mut r, &m, &parents, sel);
                                let pf = path_features(doc, sel, &path);
                                rep.report(Violation {
                                    key: format!("admits_mixture_of_two_assignments[{}]", primary_with_signature(&pf)),
                                    what: format!("{alias} admits a value that mixes the keys of two assignments of the Boolean variables, which no execution of the {what} returns"),
                                    case: case(json!({"value": m.show(), "assignment_a": i, "assignment_b": j, "response_a": a.show(), "response_b": b.show(), "parent_object": parent, "type": loaded.world.canon(&ty, 6).map(|t| show_t(&t)).unwrap_or_default()})),
                                });
                                break 'mixed;
                            }
                        }
                    }
                }
            }
            if ms.is_empty() {
                rep.report(Violation { key: "uninhabited".to_string(), what: format!("{alias} has no member at all"), case: case(json!({"dts": loaded.dts})) });
            }
        }
    }
}

/// Exhaustive small families around response-key merging (text form; variables are declared as used).
pub fn same_key_family() -> Vec<String> {
    let conds = ["", " @skip(if: $b1)", " @include(if: $b1)", " @skip(if: $b2)"];
    let wrap = |body: &str| {
        let mut vars = vec![];
        if body.contains("$b1") {
            vars.push("$b1: Boolean!");
        }
        if body.contains("$b2") {
            vars.push("$b2: Boolean!");
        }
        let vd = if vars.is_empty() { String::new() } else { format!("({})", vars.join(", ")) };
        format!("query Q{vd} {{ {body} }}\n")
    };
    // occurrence bodies of an object field: one or two leaf children, each with a condition
    let mut bodies: Vec<String> = vec![];
    for c1 in conds {
        bodies.push(format!("id{c1}"));
        bodies.push(format!("name{c1}"));
        for c2 in conds {
            bodies.push(format!("id{c1} name{c2}"));
        }
    }
    let mut out = vec![];
    for a in &bodies {
        for b in &bodies {
            out.push(wrap(&format!("u {{ {a} }} u {{ {b} }}")));
        }
    }
    // the same through a list of objects and through a fragment spread
    for a in &bodies {
        for b in bodies.iter().take(8) {
            out.push(wrap(&format!("maybe {{ {a} }} maybe {{ {b} }}")));
            out.push(format!("{}fragment F on User {{ best {{ {b} }} }}\n", wrap(&format!("u {{ best {{ {a} }} ...F }}"))));
        }
    }
    // leaf selections of one key under wrappers
    let wrappers = ["id{c}", "... on User {{ id{c} }}", "... {{ id{c} }}", "... on Node{c} {{ id }}"];
    let mut leafs = vec![];
    for w in wrappers {
        for c in conds {
            leafs.push(w.replace("{c}", c).replace("{{", "{").replace("}}", "}"));
        }
    }
    for a in &leafs {
        for b in &leafs {
            out.push(wrap(&format!("u {{ {a} {b} }}")));
        }
    }
    out
}

/// One fragment reached twice in a selection set - directly, through another fragment, inside inline fragments - with a
/// condition (variable or literal) on either occurrence, in both orders, under a concrete and an abstract parent.
pub fn fragment_reuse_family() -> Vec<String> {
    let conds = ["", " @include(if: $b1)", " @skip(if: $b1)", " @include(if: false)", " @skip(if: true)", " @skip(if: $b2)"];
    let occurrences = ["...A{c}", "...B{c}", "...{c} { ...A }", "... on User{c} { ...B }", "...C{c}", "... on Named { ...A{c} }"];
    let frags = "fragment A on User { id name }\nfragment B on User { age ...A }\nfragment C on Node { id ... on User { ...A } }\n";
    let mut occ = vec![];
    for o in occurrences {
        for c in conds {
            occ.push(o.replace("{c}", c));
        }
    }
    let mut out = vec![];
    for parent in ["u", "node(id: \"1\")"] {
        for a in &occ {
            for b in &occ {
                let body = format!("{parent} {{ {a} {b} }}");
                let mut vars = vec![];
                for v in ["$b1", "$b2"] {
                    if body.contains(v) {
                        vars.push(format!("{v}: Boolean!"));
                    }
                }
                let vd = if vars.is_empty() { String::new() } else { format!("({})", vars.join(", ")) };
                // only the fragments the operation reaches (an unused fragment makes the document invalid)
                let _ = frags;
                let mut fr = String::from("fragment A on User { id name }\n");
                if body.contains("...B") {
                    fr.push_str("fragment B on User { age ...A }\n");
                }
                if body.contains("...C") {
                    fr.push_str("fragment C on Node { id ... on User { ...A } }\n");
                }
                out.push(format!("query Q{vd} {{ {body} }}\n{fr}"));
            }
        }
    }
    out
}

/// Object-valued interface fields that the implementers declare with different wrappers / narrower types (`owner`:
/// strictest implementer first; `backup`: widest first), selected through the interface, with something that tells
/// the runtime types apart.
pub fn covariant_implementers_family() -> Vec<String> {
    let mut out = vec![];
    for field in ["owner", "backup"] {
        for sub in ["id", "id name", "__typename id"] {
            for disc in ["", "__typename", "... on Gist { __typename }", "... on Issue { n }", "... on Repo { stars }", "... on Team { size }", "... on Issue { n } ... on Repo { stars }"] {
                out.push(format!("query Q {{ owned {{ {field} {{ {sub} }} {disc} }} }}\n"));
                out.push(format!("query Q {{ owneds {{ {disc} {field} {{ {sub} }} }} }}\n"));
                out.push(format!("query Q {{ owned {{ ...OF {disc} }} }}\nfragment OF on Owned {{ {field} {{ {sub} }} }}\n"));
            }
        }
    }
    out
}

/// A conditional fragment (untyped / typed inline, named spread; `@skip` / `@include` on a variable) whose fields are plain,
/// aliased to a name the object does not have, or nested, next to a sibling that tells the two assignments of the
/// variable apart.
pub fn conditional_fragment_family() -> Vec<String> {
    let forms = ["...{c} { {i} }", "... on User{c} { {i} }", "... on Named{c} { {i} }", "...CF{c}"];
    let conds = [" @skip(if: $b)", " @include(if: $b)"];
    let inners = ["name", "nick: name", "nick: name age", "mate: best { id }", "mate: best { pal: name }", "... on User { nick: name }"];
    let siblings = ["", "id", "id @include(if: $b)", "id @skip(if: $b)", "name", "nick: name @skip(if: $b)", "kind @include(if: $b)"];
    let mut out = vec![];
    for parent in ["u", "node(id: \"1\")"] {
        for f in forms {
            if parent != "u" && f.starts_with("...{c}") {
                continue;
            }
            for c in conds {
                for i in inners {
                    for sib in siblings {
                        let body = f.replace("{c}", c).replace("{i}", i);
                        let (open, close) = if parent == "u" { ("u {", "}") } else { ("node(id: \"1\") { ... on User {", "} }") };
                        let frag = if f.starts_with("...CF") { format!("fragment CF on User {{ {i} }}\n") } else { String::new() };
                        out.push(format!("query Q($b: Boolean!) {{ {open} {body} {sib} {close} }}\n{frag}"));
                    }
                }
            }
        }
    }
    out
}

/// Type conditions of every kind under every abstract (and one concrete) parent, with `__typename` selected so that the
/// branches of the emitted union can be told apart: single conditions (inline and named) and all pairs.
pub fn type_condition_family() -> Vec<String> {
    let parents = ["node(id: \"1\")", "named", "owned", "res", "u", "results"];
    let conds = [("Node", "id"), ("Named", "name"), ("Owned", "tags"), ("Result", "__typename"), ("User", "age"), ("Post", "title"), ("Bot", "model"), ("Issue", "n"), ("Repo", "stars"), ("Team", "size")];
    let mut out = vec![];
    for p in parents {
        for (x, f) in conds {
            out.push(format!("query Q {{ {p} {{ __typename ... on {x} {{ {f} }} }} }}\n"));
            out.push(format!("query Q {{ {p} {{ __typename ...F }} }}\nfragment F on {x} {{ {f} }}\n"));
            for (y, g) in conds {
                if x < y {
                    out.push(format!("query Q {{ {p} {{ __typename ... on {x} {{ {f} }} ... on {y} {{ {g} }} }} }}\n"));
                    // nested: a condition inside a condition
                    out.push(format!("query Q {{ {p} {{ __typename ... on {x} {{ {f} ... on {y} {{ {g} }} }} }} }}\n"));
                }
            }
        }
    }
    out
}

pub fn run(args: &RunArgs, prop: &str) -> i32 {
    let rep = Reporter::new(prop, &args.tier);
    crate::util::install_hook();
    let (_, sch) = sem_schema();
    let _ = base_world();
    let cnt = Cnt {
        docs: AtomicU64::new(0),
        checked_docs: AtomicU64::new(0),
        responses: AtomicU64::new(0),
        members: AtomicU64::new(0),
        truncated_docs: AtomicU64::new(0),
        skipped_invalid: AtomicU64::new(0),
        skipped_rejected: AtomicU64::new(0),
    };
    let distinct = DistinctSet::new();
    let sample: Mutex<Option<String>> = Mutex::new(None);
    let (dev, data_dev, budget) = if args.quick() { (3, 2, 50) } else { (4, 3, 3000) };
    let stats = explore(
        &ExploreCfg { max_dev: dev, threads: args.threads, budget: Duration::from_secs(budget) },
        |c: &mut Chooser| {
            let doc = gen_doc(c, &sch, 2, false);
            let text = exec_text(&doc);
            if !distinct.insert(fnv(text.as_bytes())) {
                return;
            }
            cnt.docs.fetch_add(1, Ordering::Relaxed);
            if !valid_op::validate(&sch, &doc).is_empty() {
                cnt.skipped_invalid.fetch_add(1, Ordering::Relaxed);
                return;
            }
            match subject_check(&text) {
                Ok(Ok(())) => {}
                _ => {
                    cnt.skipped_rejected.fetch_add(1, Ordering::Relaxed);
                    return;
                }
            }
            if c.deviations() == 2 {
                let mut s = sample.lock().unwrap();
                if s.is_none() {
                    *s = Some(text.clone());
                }
            }
            check_doc(prop, &rep, &sch, &doc, &text, c, &cnt, data_dev);
        },
    );
    // the same-response-key families: every pair of selections of one object field (children drawn
    // from two leaves x four conditions), and every pair of selections of one leaf under the wrappers
    // {plain, typed inline fragment, untyped inline fragment} x four conditions
    let mut fam = same_key_family();
    let same_key_n = fam.len();
    // and the fragment-reuse family: one fragment reached twice, either occurrence conditional
    fam.extend(fragment_reuse_family());
    let reuse_n = fam.len() - same_key_n;
    fam.extend(type_condition_family());
    fam.extend(conditional_fragment_family());
    fam.extend(covariant_implementers_family());
    let fam_checked = AtomicU64::new(0);
    crate::explore::par_for(fam.len(), args.threads, |i| {
        let text = &fam[i];
        if !distinct.insert(fnv(text.as_bytes())) {
            return;
        }
        let Ok(doc) = crate::rparse::parse_exec(text) else { return };
        cnt.docs.fetch_add(1, Ordering::Relaxed);
        if !valid_op::validate(&sch, &doc).is_empty() {
            cnt.skipped_invalid.fetch_add(1, Ordering::Relaxed);
            return;
        }
        if !matches!(subject_check(text), Ok(Ok(()))) {
            cnt.skipped_rejected.fetch_add(1, Ordering::Relaxed);
            return;
        }
        fam_checked.fetch_add(1, Ordering::Relaxed);
        let dv = Dev::default();
        let c = Chooser::new(&dv);
        check_doc(prop, &rep, &sch, &doc, text, &c, &cnt, data_dev);
    });
    let checked = cnt.checked_docs.load(Ordering::Relaxed);
    let work = if prop == "C01" { cnt.responses.load(Ordering::Relaxed) } else { cnt.members.load(Ordering::Relaxed) };
    let cov = json!({
        "states": distinct.len(),
        "transitions": stats.choice_edges,
        "traces_validated_against_impl": work,
        "evaluations": cnt.docs.load(Ordering::Relaxed),
        "distinct_nontrivial": checked,
        "rule": "E1 type-directed documents (distinct by text); non-trivial = spec-valid, accepted by check, types generated and read by R-TS; for C01 every (parent object, variable assignment, data-choice vector up to the data deviation bound) response is tested for membership; for C02 every enumerated member of the emitted type is tested against Ref_local",
        "exhaustive": true,
        "bounds": {"document_deviations": dev, "data_deviations": data_dev, "selection_depth": 2},
        "explorer": stats_json(&stats),
        "documents_checked": checked,
        "same_key_family_documents": same_key_n,
        "fragment_reuse_family_documents": reuse_n,
        "type_condition_family_documents": fam.len() - same_key_n - reuse_n,
        "same_key_family_documents_checked": fam_checked.load(Ordering::Relaxed),
        "skipped_not_spec_valid": cnt.skipped_invalid.load(Ordering::Relaxed),
        "skipped_rejected_by_check(C04's business)": cnt.skipped_rejected.load(Ordering::Relaxed),
        "responses_tested": cnt.responses.load(Ordering::Relaxed),
        "type_members_tested": cnt.members.load(Ordering::Relaxed),
        "documents_with_truncated_member_enumeration": cnt.truncated_docs.load(Ordering::Relaxed),
        "samples": [sample.lock().unwrap().clone().unwrap_or_default()],
    });
    rep.finish(
        cov,
        vec![
            "R-TS (DESIGN 2.1): tsc-faithful evaluation of the emitted subset; membership by property-read semantics (an absent key reads as undefined)".into(),
            "R-EXEC implements CollectFields/CompleteValue; scalars are represented by one value of their configured output TypeScript type".into(),
        ],
    )
}

pub fn replay(case: &J, prop: &str) -> i32 {
    let text = case["text"].as_str().unwrap_or("");
    println!("--- document ---\n{text}");
    match load_op_types(text, &config_with_date()) {
        Ok(l) => println!("--- emitted ---\n{}", l.dts),
        Err(e) => println!("error: {e}"),
    }
    println!("detail: {}", serde_json::to_string_pretty(&case["detail"]).unwrap_or_default());
    let _ = prop;
    0
}
