//! Reference TypeScript denotations for schema types (the "Ref_target(T)" of C10/C09/C15/C17) and
//! a coinductive comparison with the semantic types R-TS evaluates from emitted text.

use crate::gql::*;
use crate::rts::{T, World, show_t};
use crate::schema::Sch;
use std::collections::{BTreeMap, BTreeSet};

#[derive(Clone, Copy, Debug, PartialEq, Eq, PartialOrd, Ord)]
pub enum Target {
    OperationInput = 0,
    OperationOutput = 1,
    ResolverInput = 2,
    ResolverOutput = 3,
}
impl Target {
    pub fn ns(&self) -> &'static str {
        ["__OperationInput", "__OperationOutput", "__ResolverInput", "__ResolverOutput"][*self as usize]
    }
    pub fn is_input(&self) -> bool {
        matches!(self, Target::OperationInput | Target::ResolverInput)
    }
    pub const ALL: [Target; 4] = [Target::OperationInput, Target::OperationOutput, Target::ResolverInput, Target::ResolverOutput];
}

/// reference type expression
#[derive(Clone, Debug, PartialEq)]
pub enum RT {
    Null,
    Undefined,
    /// TypeScript text of a scalar mapping, evaluated without any declaration in scope
    Ts(String),
    Lit(String),
    Arr(Box<RT>, bool),
    Obj(BTreeMap<String, (RT, bool, bool)>),
    Union(Vec<RT>),
    /// schema type `name` in the same target
    Named(String),
    /// the resolvers file's local alias: the object type without its own `__typename`
    /// (nested objects keep theirs); abstract types are unions of such aliases
    Local(String),
}

pub struct RefSchema<'a> {
    pub sch: &'a Sch,
    /// scalar name -> TS text per target (index = Target as usize)
    pub scalars: BTreeMap<String, [String; 4]>,
    pub optional_input: bool,
    /// resolver-file flavour: object types without `__typename`
    pub omit_typename: bool,
    /// model plugin: Some(..) when the plugin is configured. Object types with `@model(type: T)` map to
    /// the text T; every other object type's resolver-side alias keeps only its `@model` fields.
    pub model: Option<ModelUse>,
}

#[derive(Clone, Debug, Default)]
pub struct ModelUse {
    pub object_types: BTreeMap<String, String>,
    pub fields: BTreeMap<String, Vec<String>>,
}

impl RefSchema<'_> {
    pub fn wrap(&self, ty: &Ty, nullable_ctx: bool) -> RT {
        // nullable_ctx: whether `| null` is added for nullable types (always true; kept for clarity)
        let _ = nullable_ctx;
        match ty {
            Ty::NonNull(i) => self.inner(i),
            other => RT::Union(vec![self.inner(other), RT::Null]),
        }
    }
    fn inner(&self, ty: &Ty) -> RT {
        match ty {
            Ty::NonNull(i) => self.inner(i),
            Ty::List(_, item) => RT::Arr(Box::new(self.wrap(item, true)), false),
            Ty::Named(n) => RT::Named(n.s.clone()),
        }
    }
    /// does `name` have a declaration in `target`'s namespace?
    pub fn exists_in(&self, name: &str, target: Target) -> bool {
        match self.sch.kind(name) {
            Some(TsKind::Scalar | TsKind::Enum) => true,
            Some(TsKind::Input) => target.is_input(),
            Some(TsKind::Object | TsKind::Interface | TsKind::Union) => !target.is_input(),
            _ => false,
        }
    }
    /// the resolvers file's local alias for an output type
    pub fn local_def(&self, name: &str, target: Target) -> Option<RT> {
        let d = self.sch.types.get(name)?;
        Some(match d.kind {
            TsKind::Object if self.model.as_ref().is_some_and(|m| m.object_types.contains_key(name)) => RT::Ts(self.model.as_ref().unwrap().object_types[name].clone()),
            TsKind::Object if self.model.is_some() => match self.def(name, target)? {
                // Pick<Schema.__ResolverOutput.X, model fields>
                RT::Obj(m) => {
                    let keep = self.model.as_ref().unwrap().fields.get(name).cloned().unwrap_or_default();
                    RT::Obj(m.into_iter().filter(|(k, _)| keep.contains(k)).collect())
                }
                o => o,
            },
            TsKind::Object => match self.def(name, target)? {
                RT::Obj(mut m) => {
                    m.remove("__typename");
                    RT::Obj(m)
                }
                o => o,
            },
            TsKind::Interface | TsKind::Union => RT::Union(self.sch.possible_types(name).into_iter().map(RT::Local).collect()),
            _ => self.def(name, target)?,
        })
    }
    /// like `wrap`, but named types refer to the resolvers file's local aliases
    pub fn wrap_local(&self, ty: &Ty) -> RT {
        fn conv(r: RT) -> RT {
            match r {
                RT::Named(n) => RT::Local(n),
                RT::Arr(e, ro) => RT::Arr(Box::new(conv(*e)), ro),
                RT::Union(v) => RT::Union(v.into_iter().map(conv).collect()),
                o => o,
            }
        }
        conv(self.wrap(ty, true))
    }
    /// the definition a schema type name denotes in `target`
    pub fn def(&self, name: &str, target: Target) -> Option<RT> {
        let d = self.sch.types.get(name)?;
        Some(match d.kind {
            TsKind::Scalar => RT::Ts(self.scalars.get(name)?[target as usize].clone()),
            TsKind::Enum => RT::Union(d.values.iter().map(|v| RT::Lit(v.name.s.clone())).collect()),
            TsKind::Object => {
                let mut m = BTreeMap::new();
                if !self.omit_typename {
                    m.insert("__typename".to_string(), (RT::Lit(name.to_string()), false, false));
                }
                for f in &d.fields {
                    m.insert(f.name.s.clone(), (self.wrap(&f.ty, true), false, false));
                }
                RT::Obj(m)
            }
            TsKind::Interface | TsKind::Union => RT::Union(self.sch.possible_types(name).into_iter().map(RT::Named).collect()),
            TsKind::Input => {
                let mut m = BTreeMap::new();
                for f in &d.input_fields {
                    let nullable = !f.ty.is_nonnull();
                    let mut t = self.wrap(&f.ty, true);
                    let optional = nullable && self.optional_input;
                    if optional {
                        t = RT::Union(vec![t, RT::Undefined]);
                    }
                    m.insert(f.name.s.clone(), (t, optional, true));
                }
                RT::Obj(m)
            }
            _ => return None,
        })
    }
}

pub struct Cmp<'a> {
    pub world: &'a World,
    pub rs: &'a RefSchema<'a>,
    pub target: Target,
    assumed: BTreeSet<(String, String)>,
}

fn flatten_t(w: &World, t: &T, out: &mut Vec<T>, fuel: usize) {
    match t {
        T::Union(v) => v.iter().for_each(|x| flatten_t(w, x, out, fuel)),
        T::Ref(..) if fuel > 0 => match w.force(t.clone(), 0) {
            Ok(T::Union(v)) => v.iter().for_each(|x| flatten_t(w, x, out, fuel - 1)),
            _ => out.push(t.clone()),
        },
        T::Never => {}
        o => out.push(o.clone()),
    }
}

impl<'a> Cmp<'a> {
    pub fn new(world: &'a World, rs: &'a RefSchema<'a>, target: Target) -> Self {
        Cmp { world, rs, target, assumed: BTreeSet::new() }
    }

    fn flatten_r(&self, r: &RT, out: &mut Vec<RT>, fuel: usize) {
        match r {
            RT::Union(v) => v.iter().for_each(|x| self.flatten_r(x, out, fuel)),
            RT::Named(n) if fuel > 0 => match self.rs.def(n, self.target) {
                Some(RT::Union(v)) => v.iter().for_each(|x| self.flatten_r(x, out, fuel - 1)),
                Some(RT::Ts(text)) => {
                    // scalar text may itself be a union (`string | number`): keep as one member, evaluated later
                    out.push(RT::Ts(text))
                }
                _ => out.push(r.clone()),
            },
            RT::Local(n) if fuel > 0 => match self.rs.local_def(n, self.target) {
                Some(RT::Union(v)) => v.iter().for_each(|x| self.flatten_r(x, out, fuel - 1)),
                Some(RT::Ts(text)) => out.push(RT::Ts(text)),
                _ => out.push(r.clone()),
            },
            o => out.push(o.clone()),
        }
    }

    /// Err(path description) on the first difference
    pub fn eq(&mut self, t: &T, r: &RT) -> Result<(), String> {
        // unions on either side: compare as sets of flattened members
        let mut ts = vec![];
        flatten_t(self.world, t, &mut ts, 8);
        let mut rs = vec![];
        self.flatten_r(r, &mut rs, 8);
        // evaluate scalar texts among reference members into semantic members
        let mut r_sem: Vec<T> = vec![];
        let mut r_struct: Vec<RT> = vec![];
        for x in rs {
            match x {
                RT::Ts(text) => {
                    let te = crate::rts::parse_type(&text).map_err(|e| format!("reference scalar text {text:?}: {e}"))?;
                    let v = self.world.eval_in_empty(&te).map_err(|e| format!("reference scalar text {text:?}: {e}"))?;
                    let mut parts = vec![];
                    flatten_t(self.world, &v, &mut parts, 0);
                    r_sem.extend(parts);
                }
                RT::Null => r_sem.push(T::Null),
                RT::Undefined => r_sem.push(T::Undefined),
                RT::Lit(s) => r_sem.push(T::Lit(s)),
                o => r_struct.push(o),
            }
        }
        // split emitted members into simple (compared as a set) and structured ones
        let mut t_simple: Vec<T> = vec![];
        let mut t_struct: Vec<T> = vec![];
        for x in ts {
            match self.world.force(x.clone(), 0) {
                Ok(f @ (T::Obj(_) | T::Arr(..))) => {
                    let _ = f;
                    t_struct.push(x)
                }
                Ok(T::Union(_)) => t_struct.push(x),
                Ok(T::Never) => {}
                Ok(f) => t_simple.push(f),
                Err(e) => return Err(format!("cannot resolve {}: {e}", show_t(&x))),
            }
        }
        t_simple.sort();
        t_simple.dedup();
        r_sem.sort();
        r_sem.dedup();
        // string absorbs literals on both sides
        for v in [&mut t_simple, &mut r_sem] {
            if v.contains(&T::Str) {
                v.retain(|x| !matches!(x, T::Lit(_)));
            }
        }
        if t_simple != r_sem {
            return Err(format!(
                "members differ: emitted {{{}}} vs reference {{{}}}",
                t_simple.iter().map(show_t).collect::<Vec<_>>().join(" | "),
                r_sem.iter().map(show_t).collect::<Vec<_>>().join(" | ")
            ));
        }
        if t_struct.len() != r_struct.len() {
            return Err(format!("{} structured members emitted, {} in the reference ({} vs {:?})", t_struct.len(), r_struct.len(), t_struct.iter().map(show_t).collect::<Vec<_>>().join(" | "), r_struct));
        }
        // match structured members (order-insensitive)
        let mut used = vec![false; r_struct.len()];
        for x in &t_struct {
            let mut found = false;
            let mut last_err = String::new();
            for (i, y) in r_struct.iter().enumerate() {
                if used[i] {
                    continue;
                }
                let saved = self.assumed.clone();
                match self.eq_one(x, y) {
                    Ok(()) => {
                        used[i] = true;
                        found = true;
                        break;
                    }
                    Err(e) => {
                        self.assumed = saved;
                        last_err = e;
                    }
                }
            }
            if !found {
                return Err(if r_struct.len() == 1 { last_err } else { format!("no reference member matches {} ({last_err})", show_t(x)) });
            }
        }
        Ok(())
    }

    fn eq_one(&mut self, t: &T, r: &RT) -> Result<(), String> {
        // alias vs named schema type: coinduction
        if let (T::Ref(_, alias), RT::Named(n)) = (t, r) {
            if !self.assumed.insert((alias.clone(), n.clone())) {
                return Ok(());
            }
            let ft = self.world.force(t.clone(), 0)?;
            let def = self.rs.def(n, self.target).ok_or_else(|| format!("reference has no definition for {n}"))?;
            return self.eq(&ft, &def).map_err(|e| format!("{n}: {e}"));
        }
        if let (T::Ref(_, alias), RT::Local(n)) = (t, r) {
            if !self.assumed.insert((format!("local:{alias}"), n.clone())) {
                return Ok(());
            }
            let ft = self.world.force(t.clone(), 0)?;
            let def = self.rs.local_def(n, self.target).ok_or_else(|| format!("reference has no definition for {n}"))?;
            return self.eq(&ft, &def).map_err(|e| format!("{n}: {e}"));
        }
        if let RT::Named(n) = r {
            let def = self.rs.def(n, self.target).ok_or_else(|| format!("reference has no definition for {n}"))?;
            return self.eq(t, &def).map_err(|e| format!("{n}: {e}"));
        }
        if let RT::Local(n) = r {
            let def = self.rs.local_def(n, self.target).ok_or_else(|| format!("reference has no definition for {n}"))?;
            return self.eq(t, &def).map_err(|e| format!("{n}: {e}"));
        }
        let ft = self.world.force(t.clone(), 0)?;
        match (&ft, r) {
            // readonly-ness of arrays does not change the set of values: not compared
            (T::Arr(e, _), RT::Arr(re, _)) => self.eq(e, re).map_err(|e| format!("[]: {e}")),
            (T::Obj(props), RT::Obj(rprops)) => {
                let tk: Vec<&String> = props.keys().collect();
                let rk: Vec<&String> = rprops.keys().collect();
                if tk != rk {
                    return Err(format!("property sets differ: emitted {tk:?}, reference {rk:?}"));
                }
                for (k, p) in props {
                    let (rt, ropt, rro) = &rprops[k];
                    if p.optional != *ropt {
                        return Err(format!(".{k}: optional differs (emitted {}, reference {ropt})", p.optional));
                    }
                    if p.readonly != *rro {
                        return Err(format!(".{k}: readonly differs (emitted {}, reference {rro})", p.readonly));
                    }
                    // k?: T  ==  k?: T | undefined
                    let pt = if p.optional { crate::rts::mk_union(vec![p.ty.clone(), T::Undefined]) } else { p.ty.clone() };
                    self.eq(&pt, rt).map_err(|e| format!(".{k}: {e}"))?;
                }
                Ok(())
            }
            _ => Err(format!("shape differs: emitted {}, reference {r:?}", show_t(&ft))),
        }
    }
}
