//! C18 — CLI status, diagnostics and written files are consistent and well-located.
//!
//! E1 over projects: a valid multi-file project with up to k injected faults (schema / operation
//! files, parse / resolve / check layers), line-ending variants, the command line (check,
//! generate, check generate), config discovery and the generate options. Every project is run
//! through the real `nitrogql-cli` binary once per output format, from an identical fresh copy.

use crate::cli::{self, CliRun, Project};
use crate::corpus;
use crate::explore::{Chooser, DistinctSet, ExploreCfg, explore, fnv};
use crate::report::{Args as RunArgs, Reporter, Violation, stats_json};
use crate::rparse::{Tok, lex};
use serde_json::{Value as J, json};
use std::collections::{BTreeMap, BTreeSet};
use std::sync::Mutex;
use std::sync::atomic::{AtomicU64, Ordering};
use std::time::Duration;

#[derive(Clone, Copy, Debug, PartialEq, Eq, PartialOrd, Ord)]
pub enum Layer {
    SchemaParse,
    OpParse,
    SchemaResolve,
    SchemaCheck,
    OpImport,
    OpCheck,
}

#[derive(Clone, Copy, Debug)]
pub struct Fault {
    pub id: &'static str,
    pub file: &'static str,
    pub old: &'static str,
    pub new: &'static str,
    pub layer: Layer,
}

pub const SIMPLE: &str = "query Q { me { id } }\n";
pub const OTHER: &str = "query R { me { id } }\n";
pub const SPACED: &str = "# spaced out\nquery S {\n  me {\n\n    id\n\n    name\n  }\n}\n";

pub const F_MAIN_S: &str = "schema/main.graphql";
pub const F_EXT_S: &str = "schema/ext.graphql";
pub const F_MAIN: &str = "src/main.graphql";
pub const F_FRAGS: &str = "src/frags.graphql";
pub const F_SIMPLE: &str = "src/simple.graphql";
pub const F_OTHER: &str = "src/deep/other.graphql";
pub const F_SPACED: &str = "src/deep/spaced.graphql";

use Layer::*;
pub const FAULTS: [Fault; 27] = [
    // simplest first
    Fault { id: "op.unknown-field.simple", file: F_SIMPLE, old: "{ id }", new: "{ idd }", layer: OpCheck },
    Fault { id: "op.unknown-field.other", file: F_OTHER, old: "{ id }", new: "{ idd }", layer: OpCheck },
    // a bare field that needs an argument AND a selection set: two different diagnostics at one position
    Fault { id: "op.two-diagnostics-at-one-position.other", file: F_OTHER, old: "query R {", new: "query R { user", layer: OpCheck },
    Fault { id: "op.unknown-field.spaced", file: F_SPACED, old: "    id\n", new: "    idd\n", layer: OpCheck },
    Fault { id: "op.scalar-selection.spaced", file: F_SPACED, old: "    name\n", new: "    name { x }\n", layer: OpCheck },
    Fault { id: "op.unknown-variable.main", file: F_MAIN, old: "friends(first: $first)", new: "friends(first: $firs)", layer: OpCheck },
    Fault { id: "op.unknown-argument-after-non-ascii.main", file: F_MAIN, old: r#"search(text: "x\n\"y\" é") {"#, new: r#"search(text: "x\n\"y\" é", nope: 1) {"#, layer: OpCheck },
    Fault { id: "op.unknown-field.frags", file: F_FRAGS, old: "  kind\n", new: "  kindd\n", layer: OpCheck },
    Fault { id: "op.two-subscription-roots.main", file: F_MAIN, old: "subscription Tick {\n  tick\n}", new: "subscription Tick {\n  tick\n  userChanged { id }\n}", layer: OpCheck },
    Fault { id: "op.variable-type-mismatch.main", file: F_MAIN, old: "rename(id: $id, name: $name)", new: "rename(id: $name, name: $name)", layer: OpCheck },
    Fault { id: "schema.unknown-type.main", file: F_MAIN_S, old: "me: User!", new: "me: Userr!", layer: SchemaCheck },
    Fault { id: "schema.non-object-member.main", file: F_MAIN_S, old: "union SearchResult = User | Post", new: "union SearchResult = User | Kind", layer: SchemaCheck },
    Fault { id: "schema.unknown-type.ext", file: F_EXT_S, old: "email: String", new: "email: Strin", layer: SchemaCheck },
    Fault { id: "schema.unknown-directive.main", file: F_MAIN_S, old: "  tags: [String!]!", new: "  tags: [String!]! @nodir", layer: SchemaCheck },
    Fault { id: "schema.repeated-directive.ext", file: F_EXT_S, old: "extend schema @once", new: "extend schema @once @once", layer: SchemaCheck },
    Fault { id: "schema.duplicate-enum-value.ext", file: F_EXT_S, old: "  GUEST\n", new: "  ADMIN\n", layer: SchemaResolve },
    Fault { id: "schema.extend-unknown-type.ext", file: F_EXT_S, old: "extend type User {", new: "extend type Nobody {", layer: SchemaResolve },
    Fault { id: "op.import-unknown-fragment.main", file: F_MAIN, old: "#import UserBits, PostBits from", new: "#import UserBits, NoBits from", layer: OpImport },
    Fault { id: "op.import-missing-file.main", file: F_MAIN, old: r#"from "./frags.graphql""#, new: r#"from "./nofile.graphql""#, layer: OpImport },
    Fault { id: "op.syntax.unclosed-at-eof.simple", file: F_SIMPLE, old: "{ id } }", new: "{ id }", layer: OpParse },
    Fault { id: "op.syntax.double-brace.main", file: F_MAIN, old: "  me {\n    ...UserBits", new: "  me {{\n    ...UserBits", layer: OpParse },
    Fault { id: "op.syntax.missing-on.frags", file: F_FRAGS, old: "fragment PostBits on Post {", new: "fragment PostBits Post {", layer: OpParse },
    Fault { id: "op.syntax.unclosed-arguments.spaced", file: F_SPACED, old: "    id\n", new: "    id(\n", layer: OpParse },
    Fault { id: "schema.syntax.double-brace.main", file: F_MAIN_S, old: "type Mutation {", new: "type Mutation {{", layer: SchemaParse },
    Fault { id: "schema.syntax.double-brace.ext", file: F_EXT_S, old: "extend enum Kind {", new: "extend enum Kind {{", layer: SchemaParse },
    Fault { id: "schema.syntax.double-pipe.main", file: F_MAIN_S, old: "union SearchResult = User | Post", new: "union SearchResult = User | | Post", layer: SchemaParse },
    Fault { id: "schema.syntax.unclosed-at-eof.ext", file: F_EXT_S, old: "  subscription: Subscription\n}\n", new: "  subscription: Subscription\n", layer: SchemaParse },
];

pub fn base_files() -> BTreeMap<&'static str, String> {
    BTreeMap::from([
        (F_MAIN_S, corpus::SCHEMA_MAIN.to_string()),
        (F_EXT_S, corpus::SCHEMA_EXT.to_string()),
        (F_MAIN, corpus::OP_MAIN.to_string()),
        (F_FRAGS, corpus::OP_FRAGS.to_string()),
        (F_SIMPLE, SIMPLE.to_string()),
        (F_OTHER, OTHER.to_string()),
        (F_SPACED, SPACED.to_string()),
    ])
}

#[derive(Clone, Debug)]
pub struct Case {
    pub faults: Vec<usize>,
    pub crlf: usize, // 0 none, 1 operation files CR LF, 2 schema files CR LF, 3 operation files with lone CR
    pub command: usize,
    pub discover: bool,
    pub mode: usize,
    pub resolvers: bool,
    pub server: bool,
    pub runtime: bool,
    pub specifier: bool,
    pub deep_out: bool,
    pub stale: bool,
    /// hidden files whose names match the patterns lie in the searched directories (editor drafts, OS artefacts):
    /// the pattern expansion skips hidden entries, so they are not inputs
    pub hidden: bool,
}

const COMMANDS: [&[&str]; 3] = [&["check"], &["generate"], &["check", "generate"]];
const MODES: [(&str, &str); 3] = [("with-loader-ts-5.0", "d.graphql.ts"), ("with-loader-ts-4.0", "graphql.d.ts"), ("standalone-ts-4.0", "graphql.ts")];
const FORMATS: [&str; 3] = ["json", "rdjson", "human"];

fn gen_case(c: &mut Chooser, slots: usize, base_command: usize) -> Case {
    let mut faults = vec![];
    for _ in 0..slots {
        let k = c.choose("fault", FAULTS.len() + 1);
        if k > 0 && !faults.contains(&(k - 1)) {
            faults.push(k - 1);
        }
    }
    faults.sort();
    Case {
        faults,
        crlf: c.choose("line-endings", 4),
        command: (base_command + c.choose("command", 3)) % 3,
        discover: c.flag("config.discovered"),
        mode: c.choose("generate.mode", 3),
        resolvers: !c.flag("generate.no-resolvers"),
        server: !c.flag("generate.no-server-graphql"),
        runtime: c.flag("generate.emitSchemaRuntime"),
        specifier: c.flag("generate.schemaModuleSpecifier-only"),
        deep_out: c.flag("generate.nested-output-dir"),
        stale: c.flag("project.stale-outputs"),
        hidden: c.flag("project.hidden-files-matching-the-patterns"),
    }
}

struct Built {
    project: Project,
    /// input files: relative path -> (is_schema, text)
    inputs: BTreeMap<String, (bool, String)>,
    expected_outputs: BTreeSet<String>,
    args: Vec<String>,
}

fn build(case: &Case) -> Option<Built> {
    let mut files = base_files();
    for &f in &case.faults {
        let ft = &FAULTS[f];
        let t = files.get_mut(ft.file).unwrap();
        if t.matches(ft.old).count() != 1 {
            return None; // two faults on the same text
        }
        *t = t.replace(ft.old, ft.new);
    }
    let mut inputs = BTreeMap::new();
    let mut project = Project::default();
    for (k, v) in files {
        let is_schema = k.starts_with("schema/");
        let v = if (case.crlf == 1 && !is_schema) || (case.crlf == 2 && is_schema) {
            v.replace('\n', "\r\n")
        } else if case.crlf == 3 && !is_schema {
            v.replace('\n', "\r")
        } else {
            v
        };
        inputs.insert(k.to_string(), (is_schema, v.clone()));
        project.files.insert(k.to_string(), v);
    }
    let out = if case.deep_out { "out/a/b" } else { "generated" };
    let schema_out = if case.runtime { format!("{out}/schema.ts") } else { format!("{out}/schema.d.ts") };
    let mut y = String::from("schema: ./schema/*.graphql\ndocuments:\n  - ./src/**/*.graphql\nextensions:\n  nitrogql:\n    generate:\n");
    y.push_str(&format!("      mode: {}\n", MODES[case.mode].0));
    let mut expected = BTreeSet::new();
    if case.specifier {
        y.push_str("      schemaModuleSpecifier: \"@/schema\"\n");
    } else {
        y.push_str(&format!("      schemaOutput: ./{schema_out}\n"));
        expected.insert(schema_out.clone());
        expected.insert(format!("{schema_out}.map"));
    }
    if case.resolvers {
        y.push_str(&format!("      resolversOutput: ./{out}/resolvers.d.ts\n"));
        expected.insert(format!("{out}/resolvers.d.ts"));
        expected.insert(format!("{out}/resolvers.d.ts.map"));
    }
    if case.server {
        y.push_str(&format!("      serverGraphqlOutput: ./{out}/graphql.ts\n"));
        expected.insert(format!("{out}/graphql.ts"));
    }
    if case.runtime && !case.specifier {
        y.push_str("      emitSchemaRuntime: true\n");
    }
    y.push_str("      type:\n        scalarTypes:\n          Date: string\n");
    for k in inputs.keys().filter(|k| k.starts_with("src/")) {
        let stem = k.strip_suffix(".graphql").unwrap();
        expected.insert(format!("{stem}.{}", MODES[case.mode].1));
        expected.insert(format!("{stem}.{}.map", MODES[case.mode].1));
    }
    project.files.insert("graphql.config.yaml".into(), y);
    if case.hidden {
        project.files.insert("src/.draft.graphql".into(), "query Draft { me { nope ".into());
        project.files.insert("src/.wip/later.graphql".into(), "query Later { nothingHere }\n".into());
        project.files.insert("schema/.old.graphql".into(), "type User { stale: Int }\ntype Query { old: Int }\n".into());
    }
    if case.stale {
        // a file that generate must overwrite, one it must leave alone
        project.files.insert(format!("{out}/resolvers.d.ts"), "// stale\n".into());
        project.files.insert(format!("{out}/unrelated.d.ts"), "// keep me\n".into());
        project.files.insert("src/simple.d.graphql.ts".into(), "// stale\n".into());
    }
    let mut args: Vec<String> = vec![];
    if !case.discover {
        args.push("--config-file".into());
        args.push("graphql.config.yaml".into());
    }
    args.push("--output-format".into());
    args.push(String::new()); // format filled per run
    for c in COMMANDS[case.command] {
        args.push(c.to_string());
    }
    Some(Built { project, inputs, expected_outputs: expected, args })
}

#[derive(Clone, Debug, PartialEq, Eq, PartialOrd, Ord)]
struct Located {
    path: String, // relative to the project root, normalised
    raw_path: String,
    line: u32, // 0-based
    col: u32,  // 0-based
    message: String,
    kind: Option<String>,
}

fn rel(dir: &str, p: &str) -> String {
    let n = cli::norm_path(p);
    let d = cli::norm_path(dir);
    n.strip_prefix(&format!("{d}/")).map(|s| s.to_string()).unwrap_or(n)
}

/// token start positions (0-based line, 0-based column in characters) of a GraphQL file
fn token_starts(text: &str) -> Option<BTreeSet<(u32, u32)>> {
    let toks = lex(text).ok()?;
    let mut s = BTreeSet::new();
    for t in toks {
        match &t.t {
            // the end of input is where "unexpected end" errors point
            Tok::Eof => {
                s.insert((t.p.line, t.p.col));
            }
            Tok::Import(names, _, pp) => {
                s.insert((t.p.line, t.p.col));
                s.insert((pp.line, pp.col));
                for n in names.iter().flatten() {
                    s.insert((n.p.line, n.p.col));
                }
            }
            _ => {
                s.insert((t.p.line, t.p.col));
            }
        }
    }
    Some(s)
}

/// lines of a GraphQL text: LF, CR LF and a lone CR all end a line
fn source_lines(text: &str) -> Vec<String> {
    text.replace("\r\n", "\n").replace('\r', "\n").split('\n').map(|s| s.to_string()).collect()
}

fn inside(text: &str, line: u32, col: u32) -> bool {
    match source_lines(text).get(line as usize) {
        Some(l) => (col as usize) <= l.chars().count(),
        None => false,
    }
}

/// `path:line:col` occurrences in free text (1-based in the text)
fn locations_in_text(text: &str) -> Vec<(String, u32, u32)> {
    let mut out = vec![];
    for line in text.lines() {
        let l = line.trim();
        let parts: Vec<&str> = l.rsplitn(3, ':').collect();
        if parts.len() == 3 {
            if let (Ok(c), Ok(ln)) = (parts[0].trim().parse::<u32>(), parts[1].parse::<u32>()) {
                if parts[2].starts_with('/') && !parts[2].contains(' ') {
                    out.push((parts[2].to_string(), ln, c));
                }
            }
        }
    }
    out
}

pub struct Counters {
    pub cases: AtomicU64,
    pub runs: AtomicU64,
    pub located: AtomicU64,
    pub outcomes: DistinctSet,
}

pub fn check_case(case: &Case, rep: &Reporter, ctr: &Counters, picks: Vec<u16>, sample: &Mutex<Option<J>>, formats: &[&'static str]) {
    let Some(b) = build(case) else { return };
    ctr.cases.fetch_add(1, Ordering::Relaxed);
    let dir = cli::thread_dir("c18");
    let dir_s = dir.to_string_lossy().to_string();
    let fault_ids: Vec<&str> = case.faults.iter().map(|&f| FAULTS[f].id).collect();
    let layers: Vec<Layer> = case.faults.iter().map(|&f| FAULTS[f].layer).collect();
    let first_layer = layers.iter().min().copied();
    let generates = case.command != 0;
    let mut runs: Vec<(&str, CliRun)> = vec![];
    for fmt in formats.iter().copied() {
        cli::materialize(&dir, &b.project);
        let mut args = b.args.clone();
        let i = args.iter().position(|a| a.is_empty()).unwrap();
        args[i] = fmt.to_string();
        let r = cli::run(&dir, &args, &[], Duration::from_secs(60));
        ctr.runs.fetch_add(1, Ordering::Relaxed);
        runs.push((fmt, r));
    }
    let case_json = |fmt: &str, r: &CliRun, extra: J| {
        json!({"faults": fault_ids, "case": format!("{case:?}"), "picks": picks, "format": fmt, "args": b.args, "files": b.project.files,
               "exit": r.code, "stdout": r.stdout.chars().take(4000).collect::<String>(), "stderr": cli::strip_ansi(&r.stderr).chars().take(4000).collect::<String>(),
               "written": r.written(), "detail": extra})
    };
    let cause = || -> String {
        // the narrowest description of what was injected: the fault ids (layout flags only when they matter are added by the caller)
        if fault_ids.is_empty() { "valid-project".to_string() } else { fault_ids.join("+") }
    };
    let layer_tag = |l: Option<Layer>| l.map(|l| format!("{l:?}")).unwrap_or_else(|| "none".into());
    let mut diag_sets: BTreeMap<&str, BTreeSet<(String, u32, u32, String)>> = BTreeMap::new();
    let mut loc_sets: BTreeMap<&str, BTreeSet<(String, u32, u32)>> = BTreeMap::new();
    let mut listed_json: Option<BTreeSet<String>> = None;
    for (fmt, r) in &runs {
        let v = |key: String, what: String, extra: J| rep.report(Violation { key, what, case: case_json(fmt, r, extra) });
        if r.timed_out {
            v(format!("no_exit[{fmt}:{}]", layer_tag(first_layer)), "the CLI did not exit within 60 s".into(), json!({}));
            continue;
        }
        let stderr = cli::strip_ansi(&r.stderr);
        // 1. exit status
        let want = if case.faults.is_empty() { 0 } else { 1 };
        if r.code != Some(want) {
            let panicked = stderr.contains("panicked at");
            v(
                format!("exit_status[{fmt}:want{want}:got{}{}:{}]", r.code.map(|c| c.to_string()).unwrap_or("signal".into()), if panicked { ":panic" } else { "" }, if case.faults.is_empty() { "valid-project".to_string() } else { layer_tag(first_layer) }),
                format!("exit status {:?} with {} injected fault(s) [{}]", r.code, case.faults.len(), cause()),
                json!({}),
            );
        }
        if stderr.contains("panicked at") {
            let site = stderr.lines().find(|l| l.contains("panicked at")).unwrap_or("").split("panicked at ").nth(1).unwrap_or("").split(':').next().unwrap_or("").to_string();
            v(format!("panic[{fmt}:{site}]"), format!("the CLI panicked: {}", stderr.lines().find(|l| l.contains("panicked at")).unwrap_or("")), json!({}));
        }
        // 2. output shape + located diagnostics
        let mut located: Vec<Located> = vec![];
        let mut free_locations: Vec<(String, u32, u32)> = vec![];
        let mut listed: BTreeSet<String> = BTreeSet::new();
        match *fmt {
            "json" | "rdjson" => {
                let doc: J = match serde_json::from_str(r.stdout.trim_end_matches('\n')) {
                    Ok(d) => d,
                    Err(e) => {
                        v(format!("stdout_not_json[{fmt}:{}]", if case.faults.is_empty() { "valid-project".to_string() } else { layer_tag(first_layer) }), format!("stdout is not one JSON document: {e}"), json!({}));
                        continue;
                    }
                };
                if *fmt == "json" {
                    if let Some(m) = doc["error"]["message"].as_str() {
                        free_locations = locations_in_text(&cli::strip_ansi(m));
                    }
                    for e in doc["check"]["errors"].as_array().cloned().unwrap_or_default() {
                        if e["file"].is_object() {
                            let raw = e["file"]["path"].as_str().unwrap_or("").to_string();
                            located.push(Located { path: rel(&dir_s, &raw), raw_path: raw, line: e["file"]["line"].as_u64().unwrap_or(u64::MAX) as u32, col: e["file"]["column"].as_u64().unwrap_or(u64::MAX) as u32, message: e["message"].as_str().unwrap_or("").into(), kind: e["fileType"].as_str().map(|s| s.to_string()) });
                        }
                    }
                    for f in doc["generate"]["files"].as_array().cloned().unwrap_or_default() {
                        listed.insert(rel(&dir_s, f["path"].as_str().unwrap_or("")));
                    }
                    listed_json = Some(listed.clone());
                    if generates && case.faults.is_empty() && !doc["generate"].is_object() {
                        v("generate_not_reported[json]".into(), "generate ran but the JSON document has no `generate` member".into(), json!({}));
                    }
                } else {
                    for e in doc["diagnostics"].as_array().cloned().unwrap_or_default() {
                        if let Some(raw) = e["location"]["path"].as_str() {
                            let (l, c) = (e["location"]["range"]["start"]["line"].as_u64().unwrap_or(0), e["location"]["range"]["start"]["column"].as_u64().unwrap_or(0));
                            if l == 0 || c == 0 {
                                v("rdjson_position_not_one_based".into(), format!("rdjson position {l}:{c} (rdjson lines and columns start at 1)"), json!({}));
                                continue;
                            }
                            located.push(Located { path: rel(&dir_s, raw), raw_path: raw.to_string(), line: (l - 1) as u32, col: (c - 1) as u32, message: e["message"].as_str().unwrap_or("").into(), kind: None });
                        }
                    }
                }
            }
            _ => {
                free_locations = locations_in_text(&stderr);
            }
        }
        // 3. every located diagnostic: existing input file of the right kind, inside it, at a token start
        for d in &located {
            ctr.located.fetch_add(1, Ordering::Relaxed);
            let Some((is_schema, text)) = b.inputs.get(&d.path) else {
                v(format!("diagnostic_names_no_input_file[{fmt}]"), format!("diagnostic names {} which is not an input file", d.raw_path), json!({"diagnostic": format!("{d:?}")}));
                continue;
            };
            if let Some(k) = &d.kind {
                if (k == "schema") != *is_schema {
                    v(format!("diagnostic_file_kind[{fmt}:{k}]"), format!("diagnostic of fileType {k} names {}", d.path), json!({"diagnostic": format!("{d:?}")}));
                }
            }
            let ending = if text.contains("\r\n") { ":crlf" } else if text.contains('\r') { ":cr" } else { "" };
            if !inside(text, d.line, d.col) {
                v(format!("position_outside_file[{fmt}{ending}]"), format!("{}:{}:{} (0-based) is outside the file", d.path, d.line, d.col), json!({"diagnostic": format!("{d:?}")}));
                continue;
            }
            if let Some(starts) = token_starts(text) {
                if !starts.contains(&(d.line, d.col)) {
                    let lines = source_lines(text);
                    let line_text = lines.get(d.line as usize).map_or("", |s| s.as_str());
                    let non_ascii = line_text.chars().take(d.col as usize + 4).any(|c| !c.is_ascii());
                    v(format!("position_not_at_token_start[{fmt}{ending}{}]", if non_ascii { ":after-non-ascii" } else { "" }), format!("{}:{}:{} (0-based) is not the start of a token: {:?}", d.path, d.line, d.col, d.message), json!({"diagnostic": format!("{d:?}"), "line": line_text}));
                }
            }
        }
        // 4. faults are located: at least one; and every offending file of the first failing layer
        if let Some(fl) = first_layer {
            let offending: BTreeSet<&str> = case.faults.iter().filter(|&&f| FAULTS[f].layer == fl).map(|&f| FAULTS[f].file).collect();
            let mut named: BTreeSet<String> = located.iter().map(|d| d.path.clone()).collect();
            for (p, l, c) in &free_locations {
                let rp = rel(&dir_s, p);
                if let Some((_, text)) = b.inputs.get(&rp) {
                    if *l >= 1 && *c >= 1 && inside(text, l - 1, c - 1) {
                        named.insert(rp);
                    } else {
                        v(format!("position_outside_file[{fmt}:message]"), format!("{rp}:{l}:{c} (1-based) is outside the file"), json!({}));
                    }
                } else if !b.inputs.contains_key(&rp) && !matches!(fl, Layer::OpImport) {
                    // additional-info locations of the human rendering may name schema files: they are inputs too
                    v(format!("diagnostic_names_no_input_file[{fmt}:message]"), format!("a rendered location names {p} which is not an input file"), json!({}));
                }
            }
            let any_faulted_named = case.faults.iter().any(|&f| named.contains(FAULTS[f].file));
            if !any_faulted_named {
                let first: Vec<&str> = case.faults.iter().filter(|&&f| FAULTS[f].layer == fl).map(|&f| FAULTS[f].id).collect();
                v(format!("fault_not_located[{fmt}:{}]", first.join("+")), format!("no diagnostic locates any injected fault by file, line and column [{}]", cause()), json!({"named": named}));
            } else if matches!(fl, Layer::SchemaCheck | Layer::OpCheck | Layer::OpImport) {
                let missing: Vec<&&str> = offending.iter().filter(|f| !named.contains(**f)).collect();
                if !missing.is_empty() {
                    v(format!("offending_file_not_named[{fmt}:{fl:?}]"), format!("{missing:?} has a {fl:?}-layer fault but no diagnostic names it (named: {named:?}) [{}]", cause()), json!({"named": named}));
                }
            }
            let mut set = BTreeSet::new();
            for d in &located {
                set.insert((d.path.clone(), d.line, d.col, d.message.clone()));
            }
            // locations rendered inside the json error message (parse errors) count as located diagnostics of that format
            let mut loc_only: BTreeSet<(String, u32, u32)> = set.iter().map(|(p, l, c, _)| (p.clone(), *l, *c)).collect();
            for (p, l, c) in &free_locations {
                if *l >= 1 && *c >= 1 {
                    loc_only.insert((rel(&dir_s, p), l - 1, c - 1));
                }
            }
            loc_sets.insert(fmt, loc_only);
            diag_sets.insert(fmt, set);
        } else if !located.is_empty() {
            v(format!("diagnostic_on_valid_project[{fmt}]"), format!("{} diagnostics on a project without faults", located.len()), json!({"diagnostics": format!("{located:?}")}));
        }
        // 5. file system
        let written: BTreeSet<String> = r.written().into_iter().collect();
        let removed = r.removed();
        if !removed.is_empty() {
            v(format!("files_removed[{fmt}]"), format!("the run removed {removed:?}"), json!({}));
        }
        let should_write = generates && case.faults.is_empty();
        if !should_write {
            if !written.is_empty() {
                let why = if case.faults.is_empty() { "check-only" } else { "check-failed" };
                v(format!("writes_although[{fmt}:{why}:{}]", layer_tag(first_layer)), format!("files written although {why}: {written:?}"), json!({}));
            }
            if *fmt == "json" && !listed.is_empty() {
                v("lists_files_although_not_generated[json]".into(), format!("files listed although nothing should be generated: {listed:?}"), json!({}));
            }
        } else {
            if *fmt == "json" {
                for l in &listed {
                    if !r.after.contains_key(l) {
                        v("listed_file_missing[json]".into(), format!("{l} is listed as generated but does not exist"), json!({}));
                    }
                }
                // a listed file whose content did not change (stale copy equal to the output) is fine; a changed file must be listed
                for w in &written {
                    if !listed.contains(w) {
                        v("unlisted_file_written[json]".into(), format!("{w} was created or changed but is not listed"), json!({"listed": listed}));
                    }
                }
                if listed != b.expected_outputs {
                    let missing: Vec<_> = b.expected_outputs.difference(&listed).collect();
                    let extra: Vec<_> = listed.difference(&b.expected_outputs).collect();
                    v(format!("generated_set[json:{}]", if !missing.is_empty() { "missing" } else { "extra" }), format!("generated files differ from the configured outputs: missing {missing:?}, extra {extra:?}"), json!({}));
                }
            } else if let Some(lj) = &listed_json {
                let must: BTreeSet<String> = lj.iter().filter(|l| r.before.get(*l) != r.after.get(*l) || !r.before.contains_key(*l)).cloned().collect();
                if written != must && !(written.is_subset(lj) && must.is_subset(&written)) {
                    v(format!("written_set_depends_on_format[{fmt}]"), format!("files written with --output-format {fmt}: {written:?}; listed with json: {lj:?}"), json!({}));
                }
            }
        }
        ctr.outcomes.insert(fnv(format!("{fmt}|{:?}|{}|{}|{}", r.code, located.len(), written.len(), layer_tag(first_layer)).as_bytes()));
    }
    // 6. the three formats render the same diagnostics
    if let (Some(j), Some(rd)) = (diag_sets.get("json"), diag_sets.get("rdjson")) {
        let (lj, lrd) = (&loc_sets["json"], &loc_sets["rdjson"]);
        // rdjson has located diagnostics only; json may carry the location of a parse error inside error.message
        let same = if matches!(first_layer, Some(Layer::SchemaParse | Layer::OpParse)) { lrd.iter().all(|x| lj.contains(x)) && !lrd.is_empty() || lj == lrd } else { j == rd };
        if !same {
            let r = &runs[1].1;
            rep.report(Violation { key: format!("formats_disagree[json:rdjson:{}]", layer_tag(first_layer)), what: format!("json and rdjson report different located diagnostics: json {:?} (message locations {:?}) vs rdjson {:?}", j, lj, rd), case: case_json("rdjson", r, json!({})) });
        }
        let no_human = CliRun { code: None, timed_out: false, stdout: String::new(), stderr: String::new(), before: Default::default(), after: Default::default() };
        let h = runs.get(2).map_or(&no_human, |x| &x.1);
        let herr = cli::strip_ansi(&h.stderr);
        for (p, l, c, m) in j.iter().filter(|_| runs.len() > 2) {
            let needle = format!("{p}:{}:{}", l + 1, c + 1);
            let ok = herr.lines().any(|ln| cli::norm_path(ln.trim()).ends_with(&needle)) && herr.contains(m.lines().next().unwrap_or(""));
            if !ok {
                rep.report(Violation { key: format!("human_misses_diagnostic[{}]", layer_tag(first_layer)), what: format!("the human rendering lacks {needle} / {m:?}"), case: case_json("human", h, json!({})) });
            }
        }
    }
    let codes: BTreeSet<Option<i32>> = runs.iter().map(|(_, r)| r.code).collect();
    if codes.len() > 1 {
        let r = &runs[runs.len() - 1].1;
        rep.report(Violation { key: format!("exit_status_depends_on_format[{}]", layer_tag(first_layer)), what: format!("exit status differs between formats: {:?}", runs.iter().map(|(f, r)| (*f, r.code)).collect::<Vec<_>>()), case: case_json("human", r, json!({})) });
    }
    if case.faults.len() == 2 {
        let mut s = sample.lock().unwrap();
        if s.is_none() {
            *s = Some(json!({"faults": fault_ids, "args": b.args, "json_stdout": runs[0].1.stdout, "exit": runs[0].1.code}));
        }
    }
}

pub fn run(args: &RunArgs) -> i32 {
    let rep = Reporter::new("C18", &args.tier);
    // the fault menu must apply to the corpus
    let base = base_files();
    for f in FAULTS.iter() {
        if base[f.file].matches(f.old).count() != 1 {
            crate::report::machinery(&format!("C18 fault {} does not apply exactly once to {}", f.id, f.file));
        }
    }
    let ctr = Counters { cases: AtomicU64::new(0), runs: AtomicU64::new(0), located: AtomicU64::new(0), outcomes: DistinctSet::new() };
    let distinct = DistinctSet::new();
    let sample: Mutex<Option<J>> = Mutex::new(None);
    let (slots, dev, budget) = if args.quick() { (2, 3, 45) } else { (3, 4, 3000) };
    // two default command lines, so that "generate with faults" and "check only" are both within the bound
    let mut per_base = serde_json::Map::new();
    let mut edges = 0u64;
    let mut all_complete = true;
    for base_command in [0usize, 2] {
        let stats = explore(&ExploreCfg { max_dev: dev, threads: args.threads, budget: Duration::from_secs(budget) }, |c: &mut Chooser| {
            let case = gen_case(c, slots, base_command);
            if !distinct.insert(fnv(format!("{case:?}").as_bytes())) {
                return;
            }
            // quick tier: lone-CR operation files and hidden junk files take part in projects of up to two deviations
            if args.quick() && c.deviations() >= 3 && (case.crlf == 3 || case.hidden) {
                return;
            }
            // quick tier: the human rendering is compared for projects of up to two deviations; the machine-readable
            // formats always
            let formats: &[&'static str] = if args.quick() && c.deviations() >= 3 { &FORMATS[..2] } else { &FORMATS };
            check_case(&case, &rep, &ctr, c.picks(), &sample, formats);
        });
        edges += stats.choice_edges;
        all_complete &= !stats.cap_hit;
        per_base.insert(format!("default-command={}", COMMANDS[base_command].join(" ")), stats_json(&stats));
    }
    let frontend = part_frontend(&rep);
    let history = part_history(args, &rep);
    cli::cleanup("c18");
    let cov = json!({
        "states": distinct.len() as u64,
        "transitions": edges,
        "traces_validated_against_impl": ctr.runs.load(Ordering::Relaxed),
        "evaluations": ctr.cases.load(Ordering::Relaxed),
        "distinct_nontrivial": ctr.cases.load(Ordering::Relaxed),
        "distinct_observed_outcomes": ctr.outcomes.len() as u64,
        "rule": "distinct by (fault set, line endings, command line, config discovery, generate options); every distinct project is materialised fresh and run through the nitrogql-cli binary once per output format",
        "exhaustive": all_complete,
        "explorer": per_base,
        "cli_runs": ctr.runs.load(Ordering::Relaxed),
        "located_diagnostics_checked": ctr.located.load(Ordering::Relaxed),
        "front_end_cases": frontend,
        "histories": history,
        "fault_alphabet": FAULTS.iter().map(|f| f.id).collect::<Vec<_>>(),
        "samples": [sample.lock().unwrap().clone().unwrap_or(J::Null)],
    });
    rep.finish(
        cov,
        vec![
            "token starts are taken from R-LEX (columns in characters); a diagnostic in a file that R-LEX cannot lex is only required to lie inside the file".into(),
            "with faults in several layers only the first failing layer (schema parse < operation parse < schema resolve < schema check < operation import < operation check) is required to be reported, and 'every offending file' is required within the check layers".into(),
            "the human rendering is compared with the json diagnostics of an identical fresh copy of the project".into(),
            "histories: after every sequence of events between runs of `generate` the outputs must equal, byte for byte, what one run in a clean copy of the final inputs writes".into(),
            "front-end cases (no configuration file, arguments overriding it, usage errors): exit status, well-formed stdout, no panic and the written set are judged; a usage error has no file to locate".into(),
        ],
    )
}

/// The command-line front end itself: running without a configuration file, arguments overriding the
/// configuration, usage errors (unknown / missing command, no schema, unreadable configuration, two
/// introspection files, JSON mixed with SDL). Exit status, well-formed stdout and the file system are judged;
/// usage errors have no file to locate.
fn part_frontend(rep: &Reporter) -> J {
    const S: &str = "type Query { me: User }\ntype User { id: ID! name: String }\n";
    const Q: &str = "query Q { me { id } }\n";
    const Q_BAD: &str = "query Q { me { idd } }\n";
    const CFG: &str = "schema: ./schema/*.graphql\ndocuments: ./src/*.graphql\nextensions:\n  nitrogql:\n    generate:\n      schemaOutput: ./gen/s.d.ts\n";
    let intro = || {
        let doc = crate::rparse::parse_ts(S).unwrap();
        crate::introspect::introspection_json(&crate::schema::Sch::new(&doc.defs), crate::introspect::IntroOpts::default()).to_string()
    };
    let outs = ["gen/s.d.ts", "gen/s.d.ts.map", "src/q.d.graphql.ts", "src/q.d.graphql.ts.map"];
    // (name, files, args after --output-format <f>, expected exit, expected written files (None = not judged), file a located diagnostic must name)
    #[allow(clippy::type_complexity)]
    let cases: Vec<(&str, Vec<(&str, String)>, Vec<&str>, i32, Option<Vec<&str>>, Option<&str>)> = vec![
        ("arguments-only:valid", vec![("schema/s.graphql", S.into()), ("src/q.graphql", Q.into())], vec!["--schema", "./schema/*.graphql", "--operation", "./src/*.graphql", "--schema-output", "./gen/s.d.ts", "check", "generate"], 0, Some(outs.to_vec()), None),
        ("arguments-only:check", vec![("schema/s.graphql", S.into()), ("src/q.graphql", Q.into())], vec!["--schema", "./schema/*.graphql", "--operation", "./src/*.graphql", "check"], 0, Some(vec![]), None),
        ("arguments-only:faulty-operation", vec![("schema/s.graphql", S.into()), ("src/q.graphql", Q_BAD.into())], vec!["--schema", "./schema/*.graphql", "--operation", "./src/*.graphql", "--schema-output", "./gen/s.d.ts", "generate"], 1, Some(vec![]), Some("src/q.graphql")),
        ("arguments-override-the-configuration", vec![("graphql.config.yaml", CFG.replace("./schema/*.graphql", "./nowhere/*.graphql").replace("./src/*.graphql", "./nowhere/*.graphql")), ("schema/s.graphql", S.into()), ("src/q.graphql", Q.into())], vec!["--config-file", "graphql.config.yaml", "--schema", "./schema/*.graphql", "--operation", "./src/*.graphql", "generate"], 0, Some(outs.to_vec()), None),
        ("schema-output-argument-overrides", vec![("graphql.config.yaml", CFG.into()), ("schema/s.graphql", S.into()), ("src/q.graphql", Q.into())], vec!["--config-file", "graphql.config.yaml", "--schema-output", "./other/t.d.ts", "generate"], 0, Some(vec!["other/t.d.ts", "other/t.d.ts.map", "src/q.d.graphql.ts", "src/q.d.graphql.ts.map"]), None),
        ("unknown-command", vec![("graphql.config.yaml", CFG.into()), ("schema/s.graphql", S.into()), ("src/q.graphql", Q.into())], vec!["--config-file", "graphql.config.yaml", "frobnicate"], 1, Some(vec![]), None),
        ("unknown-command-after-check", vec![("graphql.config.yaml", CFG.into()), ("schema/s.graphql", S.into()), ("src/q.graphql", Q.into())], vec!["--config-file", "graphql.config.yaml", "check", "frobnicate"], 1, Some(vec![]), None),
        ("no-command", vec![("graphql.config.yaml", CFG.into()), ("schema/s.graphql", S.into()), ("src/q.graphql", Q.into())], vec!["--config-file", "graphql.config.yaml"], 1, Some(vec![]), None),
        ("no-schema-anywhere", vec![("graphql.config.yaml", "documents: ./src/*.graphql\n".into()), ("src/q.graphql", Q.into())], vec!["--config-file", "graphql.config.yaml", "check"], 1, Some(vec![]), None),
        ("configuration-file-missing", vec![("schema/s.graphql", S.into())], vec!["--config-file", "nowhere.yaml", "check"], 1, Some(vec![]), None),
        ("configuration-file-malformed", vec![("graphql.config.yaml", "schema: [\n".into()), ("schema/s.graphql", S.into())], vec!["--config-file", "graphql.config.yaml", "check"], 1, Some(vec![]), None),
        ("schema-pattern-matches-nothing", vec![("graphql.config.yaml", CFG.into()), ("src/q.graphql", Q.into())], vec!["--config-file", "graphql.config.yaml", "check"], 1, Some(vec![]), None),
        ("two-introspection-files", vec![("graphql.config.yaml", CFG.replace("./schema/*.graphql", "./schema/*.json")), ("schema/a.json", intro()), ("schema/b.json", intro()), ("src/q.graphql", Q.into())], vec!["--config-file", "graphql.config.yaml", "check"], 1, Some(vec![]), None),
        ("introspection-mixed-with-sdl", vec![("graphql.config.yaml", CFG.replace("./schema/*.graphql", "./schema/*")), ("schema/a.json", intro()), ("schema/s.graphql", "extend type User { age: Int }\n".into()), ("src/q.graphql", Q.into())], vec!["--config-file", "graphql.config.yaml", "check"], 1, Some(vec![]), None),
        ("one-introspection-file", vec![("graphql.config.yaml", CFG.replace("./schema/*.graphql", "./schema/*.json")), ("schema/a.json", intro()), ("src/q.graphql", Q.into())], vec!["--config-file", "graphql.config.yaml", "check", "generate"], 0, Some(outs.to_vec()), None),
        ("check-after-generate", vec![("graphql.config.yaml", CFG.into()), ("schema/s.graphql", S.into()), ("src/q.graphql", Q.into())], vec!["--config-file", "graphql.config.yaml", "generate", "check"], 1, None, None),
    ];
    // configuration discovery: every file name the search knows for YAML / JSON content, found without --config-file
    const CFG_JSON: &str = "{\"schema\": \"./schema/*.graphql\", \"documents\": \"./src/*.graphql\", \"extensions\": {\"nitrogql\": {\"generate\": {\"schemaOutput\": \"./gen/s.d.ts\"}}}}";
    let mut cases = cases;
    for (label, cfg_name, json) in [
        ("discovered:graphql.config.json", "graphql.config.json", true),
        ("discovered:graphql.config.yaml", "graphql.config.yaml", false),
        ("discovered:graphql.config.yml", "graphql.config.yml", false),
        ("discovered:.graphqlrc", ".graphqlrc", false),
        ("discovered:.graphqlrc.json", ".graphqlrc.json", true),
        ("discovered:.graphqlrc.yaml", ".graphqlrc.yaml", false),
        ("discovered:.graphqlrc.yml", ".graphqlrc.yml", false),
    ] {
        cases.push((label, vec![(cfg_name, if json { CFG_JSON.to_string() } else { CFG.to_string() }), ("schema/s.graphql", S.into()), ("src/q.graphql", Q.into())], vec!["check", "generate"], 0, Some(outs.to_vec()), None));
    }
    cases.push(("discovered:nothing-to-find", vec![("schema/s.graphql", S.into()), ("src/q.graphql", Q.into())], vec!["check"], 1, Some(vec![]), None));
    let mut runs = 0u64;
    let mut outcomes: BTreeMap<String, String> = BTreeMap::new();
    for (name, files, tail, want, want_written, must_name) in &cases {
        for fmt in FORMATS {
            let mut p = Project::default();
            for (k, v) in files {
                p.files.insert(k.to_string(), v.clone());
            }
            let dir = cli::thread_dir("c18");
            cli::materialize(&dir, &p);
            let mut a: Vec<String> = vec!["--output-format".into(), fmt.to_string()];
            a.extend(tail.iter().map(|x| x.to_string()));
            let r = cli::run(&dir, &a, &[], Duration::from_secs(60));
            runs += 1;
            let stderr = cli::strip_ansi(&r.stderr);
            let case = |extra: J| json!({"part": "frontend", "case": name, "format": fmt, "args": a, "files": p.files, "exit": r.code, "stdout": r.stdout.chars().take(3000).collect::<String>(), "stderr": stderr.chars().take(3000).collect::<String>(), "written": r.written(), "detail": extra});
            let v = |key: String, what: String| rep.report(Violation { key: format!("frontend.{key}"), what: format!("{name} [{fmt}]: {what}"), case: case(json!({})) });
            outcomes.insert(format!("{name}[{fmt}]"), format!("exit {:?}, {} files written", r.code, r.written().len()));
            if r.timed_out {
                v(format!("no_exit[{name}]"), "the CLI did not exit within 60 s".into());
                continue;
            }
            if stderr.contains("panicked at") {
                v(format!("panic[{name}]"), format!("the CLI panicked: {}", stderr.lines().find(|l| l.contains("panicked at")).unwrap_or("")));
            }
            if r.code != Some(*want) {
                v(format!("exit_status[{name}:want{want}]"), format!("exit status {:?}, expected {want}", r.code));
            }
            let mut named: BTreeSet<String> = BTreeSet::new();
            if fmt != "human" {
                match serde_json::from_str::<J>(r.stdout.trim_end_matches('\n')) {
                    Err(e) => v(format!("stdout_not_json[{fmt}:{name}]"), format!("stdout is not one JSON document: {e}: {:?}", r.stdout.chars().take(200).collect::<String>())),
                    Ok(doc) => {
                        let dir_s = dir.to_string_lossy().to_string();
                        for e in doc["check"]["errors"].as_array().into_iter().flatten() {
                            if let Some(pth) = e["file"]["path"].as_str() {
                                named.insert(rel(&dir_s, pth));
                            }
                        }
                        for e in doc["diagnostics"].as_array().into_iter().flatten() {
                            if let Some(pth) = e["location"]["path"].as_str() {
                                named.insert(rel(&dir_s, pth));
                            }
                        }
                        if let (Some(f), true) = (must_name, *want == 1) {
                            if !named.contains(*f) {
                                v(format!("fault_not_located[{fmt}:{name}]"), format!("no diagnostic names {f}; named: {named:?}"));
                            }
                        }
                        if *want == 0 && fmt == "json" {
                            if let Some(w) = want_written {
                                let listed: BTreeSet<String> = doc["generate"]["files"].as_array().into_iter().flatten().map(|f| rel(&dir_s, f["path"].as_str().unwrap_or(""))).collect();
                                let wanted: BTreeSet<String> = w.iter().map(|x| x.to_string()).collect();
                                if listed != wanted {
                                    v(format!("generated_set[{name}]"), format!("listed files {listed:?}, expected {wanted:?}"));
                                }
                            }
                        }
                    }
                }
            }
            if let Some(w) = want_written {
                let got: BTreeSet<String> = r.written().into_iter().collect();
                let wanted: BTreeSet<String> = w.iter().map(|x| x.to_string()).collect();
                if got != wanted {
                    v(format!("written_set[{name}]"), format!("files written {got:?}, expected {wanted:?}"));
                }
            }
        }
    }
    json!({"cases": cases.len(), "cli_runs": runs, "outcomes": outcomes})
}

/// Histories: `generate` run again after something happened to the directory - outputs (partly) deleted, inputs
/// edited so that tokens move, an operation broken and repaired. After the last run the directory must look as if
/// `generate` had run once in a clean copy of the final inputs: every listed file exists, byte for byte what a
/// fresh run writes.
fn part_history(args: &RunArgs, rep: &Reporter) -> J {
    #[derive(Clone, Copy, Debug, PartialEq)]
    enum Ev {
        DeleteMaps,
        DeleteDeclarations,
        DeleteAllOutputs,
        CommentLineOnInputs,
        BreakAnOperation,
        RepairTheOperation,
        TouchOneOutput,
        /// only the configuration file changes: the TypeScript type of a scalar
        EditTheConfiguration,
        /// the schema declaration file is edited by hand (it becomes newer than every input)
        TouchTheSchemaOutput,
        /// the configuration's schema pattern is pointed at other files that have been lying in the project all along
        /// (no schema file gets a newer modification time)
        PointTheSchemaPatternElsewhere,
    }
    use Ev::*;
    let alphabet = [DeleteMaps, DeleteDeclarations, DeleteAllOutputs, CommentLineOnInputs, BreakAnOperation, RepairTheOperation, TouchOneOutput, EditTheConfiguration, TouchTheSchemaOutput, PointTheSchemaPatternElsewhere];
    let depth = if args.quick() { 2 } else { 3 };
    let mut seqs: Vec<Vec<Ev>> = vec![];
    for len in 1..=depth {
        for code in 0..alphabet.len().pow(len as u32) {
            let mut x = code;
            seqs.push((0..len).map(|_| { let e = alphabet[x % alphabet.len()]; x /= alphabet.len(); e }).collect());
        }
    }
    let runs = AtomicU64::new(0);
    let compared = AtomicU64::new(0);
    let modes: Vec<usize> = if args.quick() { vec![0] } else { vec![0, 1, 2] };
    for mode in modes {
        let base_case = Case { faults: vec![], crlf: 0, command: 1, discover: false, mode, resolvers: true, server: true, runtime: false, specifier: false, deep_out: false, stale: false, hidden: false };
        let Some(b) = build(&base_case) else { continue };
        let mut cmd = b.args.clone();
        let i = cmd.iter().position(|a| a.is_empty()).unwrap();
        cmd[i] = "json".into();
        crate::explore::par_for(seqs.len(), args.threads, |si| {
            let seq = &seqs[si];
            let dir = cli::thread_dir("c18");
            let mut inputs = b.project.clone();
            // a second set of schema files, not matched by the configured pattern: the same schema plus one more type
            for (k, v) in b.project.files.iter().filter(|(k, _)| k.starts_with("schema/")) {
                let extra = if k.ends_with("main.graphql") { "\n\"only in the alternative schema\"\ntype AltOnly { x: Int }\n" } else { "" };
                inputs.files.insert(k.replacen("schema/", "alt/", 1), format!("{v}{extra}"));
            }
            cli::materialize(&dir, &inputs);
            let mut last = cli::run(&dir, &cmd, &[], Duration::from_secs(60));
            runs.fetch_add(1, Ordering::Relaxed);
            let is_output = |k: &str| b.expected_outputs.contains(k);
            let mut broken = false;
            for ev in seq {
                let tree = cli::snapshot(&dir);
                match ev {
                    DeleteMaps => tree.keys().filter(|k| is_output(k) && k.ends_with(".map")).for_each(|k| { let _ = std::fs::remove_file(dir.join(k)); }),
                    DeleteDeclarations => tree.keys().filter(|k| is_output(k) && !k.ends_with(".map")).for_each(|k| { let _ = std::fs::remove_file(dir.join(k)); }),
                    DeleteAllOutputs => tree.keys().filter(|k| is_output(k)).for_each(|k| { let _ = std::fs::remove_file(dir.join(k)); }),
                    CommentLineOnInputs => {
                        for (k, v) in inputs.files.iter_mut().filter(|(k, _)| k.ends_with(".graphql")) {
                            let _ = k;
                            *v = format!("# one more line\n{v}");
                        }
                        cli::overwrite(&dir, &inputs);
                    }
                    BreakAnOperation => {
                        if let Some(v) = inputs.files.get_mut(F_SIMPLE) {
                            *v = v.replace("{ id }", "{ idd }");
                        }
                        broken = true;
                        cli::overwrite(&dir, &inputs);
                    }
                    RepairTheOperation => {
                        if let Some(v) = inputs.files.get_mut(F_SIMPLE) {
                            *v = v.replace("{ idd }", "{ id }");
                        }
                        broken = false;
                        cli::overwrite(&dir, &inputs);
                    }
                    TouchOneOutput => {
                        if let Some(k) = tree.keys().find(|k| is_output(k) && k.ends_with(".d.ts")) {
                            let _ = std::fs::write(dir.join(k), "// edited by hand\n");
                        }
                    }
                    EditTheConfiguration => {
                        for (_, v) in inputs.files.iter_mut().filter(|(k, _)| k.ends_with(".yaml")) {
                            *v = if v.contains("Date: string\n") { v.replace("Date: string\n", "Date: \"Date | string\"\n") } else { v.replace("Date: \"Date | string\"\n", "Date: string\n") };
                        }
                        cli::overwrite(&dir, &inputs);
                    }
                    PointTheSchemaPatternElsewhere => {
                        for (_, v) in inputs.files.iter_mut().filter(|(k, _)| k.ends_with(".yaml")) {
                            *v = if v.contains("./schema/*.graphql") { v.replace("./schema/*.graphql", "./alt/*.graphql") } else { v.replace("./alt/*.graphql", "./schema/*.graphql") };
                        }
                        cli::overwrite(&dir, &inputs);
                    }
                    TouchTheSchemaOutput => {
                        if let Some(k) = tree.keys().find(|k| is_output(k) && k.ends_with("schema.d.ts")) {
                            let _ = std::fs::write(dir.join(k), "// edited by hand\n");
                        }
                    }
                }
                last = cli::run(&dir, &cmd, &[], Duration::from_secs(60));
                runs.fetch_add(1, Ordering::Relaxed);
            }
            let case = |extra: J| json!({"part": "history", "mode": MODES[mode].0, "events": format!("{seq:?}"), "args": cmd, "files": inputs.files, "exit": last.code, "stdout": last.stdout.chars().take(3000).collect::<String>(), "detail": extra});
            let v = |key: String, what: String, extra: J| rep.report(Violation { key: format!("history.{key}"), what: format!("after generate, {seq:?}, generate: {what}"), case: case(extra) });
            let want = if broken { 1 } else { 0 };
            if last.code != Some(want) {
                v(format!("exit_status[want{want}]"), format!("exit status {:?}", last.code), json!({}));
                return;
            }
            if broken {
                return;
            }
            // the reference: one run in a clean directory holding the final inputs
            let fresh_dir = std::path::PathBuf::from(format!("{}.fresh", dir.to_string_lossy()));
            cli::materialize(&fresh_dir, &inputs);
            let fresh = cli::run(&fresh_dir, &cmd, &[], Duration::from_secs(60));
            runs.fetch_add(1, Ordering::Relaxed);
            let _ = std::fs::remove_dir_all(format!("{}.io", fresh_dir.to_string_lossy()));
            let doc: J = serde_json::from_str(last.stdout.trim_end_matches('\n')).unwrap_or(J::Null);
            let dir_s = dir.to_string_lossy().to_string();
            let listed: BTreeSet<String> = doc["generate"]["files"].as_array().into_iter().flatten().map(|f| rel(&dir_s, f["path"].as_str().unwrap_or(""))).collect();
            if listed != b.expected_outputs {
                v("generated_set".into(), format!("listed files differ from the configured outputs: missing {:?}, extra {:?}", b.expected_outputs.difference(&listed).collect::<Vec<_>>(), listed.difference(&b.expected_outputs).collect::<Vec<_>>()), json!({}));
            }
            for k in &b.expected_outputs {
                compared.fetch_add(1, Ordering::Relaxed);
                match (last.after.get(k), fresh.after.get(k)) {
                    (None, _) => v(format!("listed_file_missing[{}]", if k.ends_with(".map") { "map" } else { "declaration" }), format!("{k} does not exist after the run"), json!({})),
                    (Some(a), Some(f)) if a != f => v(format!("stale_output[{}]", if k.ends_with(".map") { "map" } else { "declaration" }), format!("{k} differs from what one run on the same inputs in a clean directory writes"), json!({"in_the_history": String::from_utf8_lossy(a).chars().take(1500).collect::<String>(), "fresh": String::from_utf8_lossy(f).chars().take(1500).collect::<String>()})),
                    _ => {}
                }
            }
            let _ = std::fs::remove_dir_all(&fresh_dir);
        });
    }
    json!({"event_alphabet": alphabet.iter().map(|e| format!("{e:?}")).collect::<Vec<_>>(), "max_events": depth, "histories": seqs.len(), "cli_runs": runs.load(Ordering::Relaxed), "output_files_compared_with_a_fresh_run": compared.load(Ordering::Relaxed)})
}

pub fn replay(case: &J) -> i32 {
    // re-materialise the recorded project and run the recorded command line
    let dir = cli::thread_dir("c18-replay");
    let mut p = Project::default();
    for (k, v) in case["files"].as_object().cloned().unwrap_or_default() {
        p.files.insert(k, v.as_str().unwrap_or("").to_string());
    }
    cli::materialize(&dir, &p);
    let mut args: Vec<String> = case["args"].as_array().cloned().unwrap_or_default().iter().map(|a| a.as_str().unwrap_or("").to_string()).collect();
    if let Some(i) = args.iter().position(|a| a.is_empty()) {
        args[i] = case["format"].as_str().unwrap_or("json").to_string();
    }
    let r = cli::run(&dir, &args, &[], Duration::from_secs(60));
    println!("args: {args:?}\nexit: {:?}\nstdout:\n{}\nstderr:\n{}\nwritten: {:?}", r.code, r.stdout, cli::strip_ansi(&r.stderr), r.written());
    cli::cleanup("c18-replay");
    0
}
