//! Syntax-level generators (E1) for executable and type-system documents: cover every
//! grammar production; semantic validity is irrelevant here (used by C07/C08/C16).

use crate::explore::Chooser;
use crate::gql::*;
use crate::render::{Plan, StrStyle};
use crate::rparse::LOCATIONS;

pub const STRINGS: [&str; 20] = [
    "s",
    "",
    "a\"b",
    "back\\slash",
    "sl/ash",
    "\u{8}\u{c}",
    "line\nbreak",
    "cr\rtab\t",
    "é",
    "😀",
    "  indented\n    more",
    "\"\"\"",
    "trailing\\",
    "\u{1}",
    " lead",
    "a\n\n b",
    "q\"",
    "\\\"\"\"",
    // supplementary planes other than plane 1 (surrogate halves with more bits set)
    "\u{20000}\u{2FA1D}",
    "\u{10FFFF}",
];

/// `rich`: optional parts are present by default (deviation removes them); otherwise absent.
pub struct G<'a, 'b> {
    pub c: &'a mut Chooser<'b>,
    pub rich: bool,
}

impl G<'_, '_> {
    fn opt(&mut self, label: &'static str) -> bool {
        self.c.flag(label) ^ self.rich
    }
    fn count(&mut self, label: &'static str, rich_default: usize, max: usize) -> usize {
        // default count is rich_default (rich) or the minimum (0); alternatives rotate
        let base = if self.rich { rich_default } else { 0 };
        (base + self.c.choose(label, max + 1)) % (max + 1)
    }
    pub fn string(&mut self) -> String {
        STRINGS[self.c.choose("str.content", STRINGS.len())].to_string()
    }
    pub fn value(&mut self, depth: usize, constant: bool) -> Value {
        let p = P::default();
        let k = self.c.choose("value.kind", 9);
        match k {
            0 => Value::Int(p, ["1", "0", "-0", "-12", "9007199254740993"][self.c.choose("int.lexeme", 5)].to_string()),
            1 => {
                if constant {
                    Value::Int(p, "7".into())
                } else {
                    Value::Var(p, ["v", "on", "null"][self.c.choose("var.name", 3)].to_string())
                }
            }
            2 => Value::Float(
                p,
                ["1.5", "1e3", "1.0E-2", "-0.0e+10", "0.0"][self.c.choose("float.lexeme", 5)].to_string(),
            ),
            3 => Value::Str(p, self.string()),
            4 => Value::Bool(p, !self.c.flag("bool.false")),
            5 => Value::Null(p),
            6 => Value::Enum(p, ["E", "on", "query", "truee"][self.c.choose("enum.lexeme", 4)].to_string()),
            7 => {
                let n = if depth == 0 { 0 } else { self.c.choose("list.len", 3) };
                Value::List(p, (0..n).map(|_| self.value(depth - 1, constant)).collect())
            }
            _ => {
                let n = if depth == 0 { 0 } else { self.c.choose("obj.len", 3) };
                Value::Obj(
                    p,
                    (0..n)
                        .map(|i| (nm(["k", "on"][i % 2]), self.value(depth - 1, constant)))
                        .collect(),
                )
            }
        }
    }
    pub fn ty(&mut self) -> Ty {
        match self.c.choose("type.shape", 6) {
            0 => Ty::named("Int"),
            1 => Ty::nn(Ty::named("Int")),
            2 => Ty::list(Ty::named("T")),
            3 => Ty::nn(Ty::list(Ty::nn(Ty::named("T")))),
            4 => Ty::list(Ty::list(Ty::nn(Ty::named("T")))),
            _ => Ty::nn(Ty::list(Ty::nn(Ty::list(Ty::named("on"))))),
        }
    }
    fn args(&mut self, label: &'static str, constant: bool) -> Option<Args> {
        let n = self.count(label, 1, 2);
        if n == 0 {
            return None;
        }
        Some(Args {
            p: P::default(),
            items: (0..n)
                .map(|i| (nm(["x", "on"][i % 2]), self.value(2, constant)))
                .collect(),
        })
    }
    pub fn dirs(&mut self, label: &'static str, constant: bool) -> Vec<Dir> {
        let n = self.count(label, 1, 2);
        (0..n)
            .map(|i| Dir {
                p: P::default(),
                name: nm(["d", "skip"][i % 2]),
                args: self.args("dir.args", constant),
            })
            .collect()
    }
    fn selset(&mut self, depth: usize) -> SelSet {
        let n = 1 + self.count("sel.count-1", if depth > 0 { 2 } else { 0 }, 2);
        let mut items = vec![];
        for i in 0..n {
            // default kinds rotate so that the rich default shows field, spread and inline fragment
            let k = (self.c.choose("sel.kind", 3) + if self.rich { i } else { 0 }) % 3;
            items.push(match k {
                0 => Sel::Field {
                    alias: if self.opt("field.alias") {
                        Some(nm(["al", "on", "__typename"][self.c.choose("alias.name", 3)]))
                    } else {
                        None
                    },
                    name: nm(["f", "on", "query", "fragment", "true", "type", "__typename"][self.c.choose("field.name", 7)]),
                    args: self.args("field.args", false),
                    dirs: self.dirs("field.dirs", false),
                    sel: if depth > 0 && self.opt("field.sel") {
                        Some(self.selset(depth - 1))
                    } else {
                        None
                    },
                },
                1 => Sel::Spread {
                    p: P::default(),
                    name: nm(["F", "onn", "query"][self.c.choose("spread.name", 3)]),
                    dirs: self.dirs("spread.dirs", false),
                },
                _ => Sel::Inline {
                    p: P::default(),
                    cond: if self.opt("inline.cond") { Some(nm(["T", "on"][self.c.choose("cond.name", 2)])) } else { None },
                    dirs: self.dirs("inline.dirs", false),
                    sel: self.selset(depth.saturating_sub(1)),
                },
            });
        }
        selset(items)
    }
    fn op(&mut self) -> ExecDef {
        let kind = [OpKind::Query, OpKind::Mutation, OpKind::Subscription][self.c.choose("op.kind", 3)];
        let name = if self.opt("op.name") {
            Some(nm(["Q", "on", "query"][self.c.choose("op.name.lexeme", 3)]))
        } else {
            None
        };
        let nv = self.count("op.vars", 1, 2);
        let vars = if nv == 0 {
            None
        } else {
            Some((
                P::default(),
                (0..nv)
                    .map(|i| VarDef {
                        p: P::default(),
                        name: nm(["v", "on"][i % 2]),
                        ty: self.ty(),
                        default: if self.opt("var.default") { Some(self.value(2, true)) } else { None },
                        dirs: self.dirs("var.dirs", true),
                    })
                    .collect(),
            ))
        };
        ExecDef::Op {
            p: P::default(),
            kind,
            name,
            vars,
            dirs: self.dirs("op.dirs", false),
            sel: self.selset(2),
        }
    }
    fn frag(&mut self) -> ExecDef {
        ExecDef::Frag {
            p: P::default(),
            name: nm(["F", "onn", "query"][self.c.choose("frag.name", 3)]),
            cond: nm(["T", "on"][self.c.choose("frag.cond", 2)]),
            dirs: self.dirs("frag.dirs", false),
            sel: self.selset(1),
        }
    }
    fn import(&mut self) -> ExecDef {
        let targets: Vec<Option<Name>> = match self.c.choose("import.targets", 5) {
            0 => vec![Some(nm("A"))],
            1 => vec![None],
            2 => vec![Some(nm("A")), Some(nm("B"))],
            3 => vec![Some(nm("fromm")), Some(nm("import"))],
            _ => vec![Some(nm("A")), None],
        };
        ExecDef::Import {
            p: P::default(),
            targets,
            path: (P::default(), ["./x.graphql", "x", "../a b/é.graphql"][self.c.choose("import.path", 3)].to_string()),
        }
    }
    pub fn exec_doc(&mut self) -> ExecDoc {
        let mut defs = vec![];
        if self.rich {
            if !self.c.flag("doc.no_import") {
                defs.push(self.import());
            }
            defs.push(self.op());
            if !self.c.flag("doc.no_fragment") {
                defs.push(self.frag());
            }
            if self.c.flag("doc.second_op") {
                defs.push(self.op());
            }
        } else {
            let n = 1 + self.c.choose("doc.defs-1", 3);
            for _ in 0..n {
                let d = match self.c.choose("def.kind", 3) {
                    0 => self.op(),
                    1 => self.frag(),
                    _ => self.import(),
                };
                defs.push(d);
            }
        }
        ExecDoc { defs }
    }

    fn desc(&mut self, label: &'static str) -> Option<(P, String)> {
        if self.opt(label) {
            Some((P::default(), self.string()))
        } else {
            None
        }
    }
    fn ivd(&mut self, i: usize) -> InputValueDef {
        InputValueDef {
            p: P::default(),
            desc: self.desc("ivd.desc"),
            name: nm(["x", "on", "type"][i % 3]),
            ty: self.ty(),
            default: if self.opt("ivd.default") { Some(self.value(2, true)) } else { None },
            dirs: self.dirs("ivd.dirs", true),
        }
    }
    fn ivds(&mut self, label: &'static str, min: usize) -> Vec<InputValueDef> {
        let n = (min + self.count(label, 1, 2)).min(2).max(min);
        (0..n).map(|i| self.ivd(i)).collect()
    }
    fn fielddefs(&mut self) -> Vec<FieldDef> {
        let n = self.count("fields.count", 2, 2);
        (0..n)
            .map(|i| FieldDef {
                desc: self.desc("field.desc"),
                name: nm(["f", "on", "implements"][i % 3]),
                args: if self.opt("fielddef.args") { Some(self.ivds("fielddef.args.count", 1)) } else { None },
                ty: self.ty(),
                dirs: self.dirs("fielddef.dirs", true),
            })
            .collect()
    }
    pub fn tsdef(&mut self, kind: TsKind, ext: bool, idx: usize) -> TsDef {
        let mut d = TsDef::new(kind, None);
        d.ext = ext;
        let name = format!("{}{}", ["A", "on", "type", "B", "C", "D", "E", "G"][idx % 8], if idx >= 8 { "x" } else { "" });
        if kind != TsKind::Schema {
            d.name = Some(nm(&name));
        }
        if !ext {
            d.desc = self.desc("def.desc");
        }
        match kind {
            TsKind::Schema => {
                d.dirs = self.dirs("def.dirs", true);
                let n = self.count("roots.count", 2, 3);
                let kinds = [OpKind::Query, OpKind::Mutation, OpKind::Subscription];
                d.roots = (0..n).map(|i| (kinds[i], nm(["Q", "on", "M"][i]))).collect();
                if d.roots.is_empty() && (!ext || d.dirs.is_empty()) {
                    d.roots.push((OpKind::Query, nm("Q")));
                }
            }
            TsKind::Scalar => {
                d.dirs = self.dirs("def.dirs", true);
                if ext && d.dirs.is_empty() {
                    d.dirs = vec![dir("d", vec![])];
                }
            }
            TsKind::Object | TsKind::Interface => {
                let ni = self.count("implements.count", 2, 2);
                d.implements = (0..ni).map(|i| nm(["I", "on"][i])).collect();
                d.dirs = self.dirs("def.dirs", true);
                d.fields = self.fielddefs();
                if ext && d.implements.is_empty() && d.dirs.is_empty() && d.fields.is_empty() {
                    d.dirs = vec![dir("d", vec![])];
                }
            }
            TsKind::Union => {
                d.dirs = self.dirs("def.dirs", true);
                let n = self.count("members.count", 2, 3);
                d.members = (0..n).map(|i| nm(["M", "on", "N"][i])).collect();
                if ext && d.dirs.is_empty() && d.members.is_empty() {
                    d.members = vec![nm("M")];
                }
            }
            TsKind::Enum => {
                d.dirs = self.dirs("def.dirs", true);
                let n = self.count("values.count", 2, 2);
                d.values = (0..n)
                    .map(|i| EnumValDef {
                        desc: self.desc("value.desc"),
                        name: nm(["V", "on"][i]),
                        dirs: self.dirs("value.dirs", true),
                    })
                    .collect();
                if ext && d.dirs.is_empty() && d.values.is_empty() {
                    d.dirs = vec![dir("d", vec![])];
                }
            }
            TsKind::Input => {
                d.dirs = self.dirs("def.dirs", true);
                d.input_fields = self.ivds("inputfields.count", 0);
                if ext && d.dirs.is_empty() && d.input_fields.is_empty() {
                    d.dirs = vec![dir("d", vec![])];
                }
            }
            TsKind::Directive => {
                d.dir_args = if self.opt("dirdef.args") { Some(self.ivds("dirdef.args.count", 1)) } else { None };
                d.repeatable = self.opt("dirdef.repeatable");
                let n = 1 + self.count("locations.count-1", 1, 2);
                let first = self.c.choose("location.first", LOCATIONS.len());
                d.locations = (0..n).map(|i| nm(LOCATIONS[(first + i * 7) % LOCATIONS.len()])).collect();
            }
        }
        d
    }
    pub fn ts_doc(&mut self) -> TsDoc {
        let kinds = [
            TsKind::Schema,
            TsKind::Scalar,
            TsKind::Object,
            TsKind::Interface,
            TsKind::Union,
            TsKind::Enum,
            TsKind::Input,
            TsKind::Directive,
        ];
        let mut defs = vec![];
        if self.rich {
            // which half: definitions or extensions (keeps the number of trivia gaps manageable)
            let part = self.c.choose("doc.part", 2);
            if part == 0 {
                for (i, k) in kinds.iter().enumerate() {
                    defs.push(self.tsdef(*k, false, i));
                }
            } else {
                for (i, k) in kinds[..7].iter().enumerate() {
                    defs.push(self.tsdef(*k, true, i));
                }
            }
        } else {
            let n = 1 + self.c.choose("doc.defs-1", 2);
            for i in 0..n {
                let k = self.c.choose("def.kind", 15);
                if k < 8 {
                    defs.push(self.tsdef(kinds[k], false, i));
                } else {
                    defs.push(self.tsdef(kinds[k - 8], true, i));
                }
            }
        }
        TsDoc { defs }
    }
}

// every line terminator of the spec (LF, CRLF, a lone CR), also as the end of a comment
pub const TRIVIA: [&str; 12] = [" ", "\n", ",", "\t", " # c\n", "\u{FEFF}", "\r\n", "", "\r", " # c\r", " # c\r\n", "#\r#\n"];
pub const TAILS: [&str; 6] = ["\n", "", " # c", "\n\n", " ,", "\u{FEFF}"];
pub const HEADS: [&str; 5] = ["", "\u{FEFF}", "# c\n", "\n", "#\n"];
pub const STYLES: [StrStyle; 6] = [
    StrStyle::Normal,
    StrStyle::U4,
    StrStyle::UBrace,
    StrStyle::ShortEsc,
    StrStyle::Block,
    StrStyle::BlockIndented,
];

/// Trivia / spelling plan driven by the chooser. Records what it did for classification.
pub struct ChooserPlan<'a, 'b> {
    pub c: &'a mut Chooser<'b>,
    pub used_trivia: Vec<&'static str>,
    pub used_styles: Vec<StrStyle>,
    pub used_shorthand: bool,
    pub used_lead: bool,
    pub tail: &'static str,
    pub head: &'static str,
}
impl<'a, 'b> ChooserPlan<'a, 'b> {
    pub fn new(c: &'a mut Chooser<'b>) -> Self {
        ChooserPlan {
            c,
            used_trivia: vec![],
            used_styles: vec![],
            used_shorthand: false,
            used_lead: false,
            tail: "\n",
            head: "",
        }
    }
}
impl Plan for ChooserPlan<'_, '_> {
    fn gap(&mut self, required: bool) -> &'static str {
        let t = TRIVIA[self.c.choose("trivia", TRIVIA.len())];
        if t != " " {
            self.used_trivia.push(t);
        }
        if t.is_empty() && required { "  " } else { t }
    }
    fn string_style(&mut self, _content: &str) -> StrStyle {
        let s = STYLES[self.c.choose("str.style", STYLES.len())];
        if s != StrStyle::Normal {
            self.used_styles.push(s);
        }
        s
    }
    fn lead_sep(&mut self) -> bool {
        let b = self.c.flag("lead_sep");
        self.used_lead |= b;
        b
    }
    fn shorthand(&mut self) -> bool {
        // default: shorthand where possible would make the minimal document `{ f }`; keep the
        // explicit form as default and the shorthand as the deviation
        let b = self.c.flag("shorthand");
        self.used_shorthand |= b;
        b
    }
    fn tail(&mut self) -> &'static str {
        self.tail = TAILS[self.c.choose("tail", TAILS.len())];
        self.tail
    }
    fn head(&mut self) -> &'static str {
        self.head = HEADS[self.c.choose("head", HEADS.len())];
        self.head
    }
}
