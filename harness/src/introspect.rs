//! Reference renderer: schema model -> JSON result of the standard introspection query
//! (graphql-js `getIntrospectionQuery` shape), written from the spec's `__Schema` family
//! (October 2021 §4.2). Shares no code with /repo. The optional-key spellings real servers differ
//! in (explicit null vs absent key, `isRepeatable`, deprecation keys on input values,
//! `specifiedByURL`, meta types listed or not, order of `types`) are explicit options so that a
//! check can enumerate them.

use crate::gql::*;
use crate::render::value_text;
use crate::rparse::parse_ts;
use crate::schema::{BUILTIN_SCALARS, Sch, builtin_directives};
use serde_json::{Map, Value as J, json};

#[derive(Clone, Copy, Debug, PartialEq, Eq)]
pub struct IntroOpts {
    /// false: every key of the standard query is present (null where it has no value), as graphql-js
    /// answers; true: keys without a value are left out (servers answering a trimmed query)
    pub omit_nulls: bool,
    /// list `__Schema`, `__Type`, ... among `types` (every conforming server does)
    pub meta_types: bool,
    /// `isRepeatable` present on directives (absent on pre-2021 servers; only legal to drop when
    /// no directive is repeatable, the caller decides)
    pub repeatable_key: bool,
    /// `isDeprecated` / `deprecationReason` on arguments and input fields (2021 addition)
    pub input_deprecation: bool,
    /// order of `types`: 0 = model order then built-in scalars then meta types, 1 = built-ins and
    /// meta types first, 2 = reversed
    pub order: u8,
}

impl Default for IntroOpts {
    fn default() -> Self {
        IntroOpts { omit_nulls: false, meta_types: true, repeatable_key: true, input_deprecation: true, order: 0 }
    }
}

pub const META_SDL: &str = r#"
type __Schema { description: String types: [__Type!]! queryType: __Type! mutationType: __Type subscriptionType: __Type directives: [__Directive!]! }
type __Type { kind: __TypeKind! name: String description: String specifiedByURL: String fields(includeDeprecated: Boolean = false): [__Field!] interfaces: [__Type!] possibleTypes: [__Type!] enumValues(includeDeprecated: Boolean = false): [__EnumValue!] inputFields(includeDeprecated: Boolean = false): [__InputValue!] ofType: __Type }
enum __TypeKind { SCALAR OBJECT INTERFACE UNION ENUM INPUT_OBJECT LIST NON_NULL }
type __Field { name: String! description: String args(includeDeprecated: Boolean = false): [__InputValue!]! type: __Type! isDeprecated: Boolean! deprecationReason: String }
type __InputValue { name: String! description: String type: __Type! defaultValue: String isDeprecated: Boolean! deprecationReason: String }
type __EnumValue { name: String! description: String isDeprecated: Boolean! deprecationReason: String }
type __Directive { name: String! description: String isRepeatable: Boolean! locations: [__DirectiveLocation!]! args(includeDeprecated: Boolean = false): [__InputValue!]! }
enum __DirectiveLocation { QUERY MUTATION SUBSCRIPTION FIELD FRAGMENT_DEFINITION FRAGMENT_SPREAD INLINE_FRAGMENT VARIABLE_DEFINITION SCHEMA SCALAR OBJECT FIELD_DEFINITION ARGUMENT_DEFINITION INTERFACE UNION ENUM ENUM_VALUE INPUT_OBJECT INPUT_FIELD_DEFINITION }
"#;

struct R<'a> {
    sch: &'a Sch,
    o: IntroOpts,
}

fn put(m: &mut Map<String, J>, o: &IntroOpts, key: &str, v: J) {
    if v.is_null() && o.omit_nulls {
        return;
    }
    m.insert(key.to_string(), v);
}

impl R<'_> {
    fn kind_of(&self, name: &str) -> &'static str {
        match self.sch.kind(name) {
            Some(TsKind::Object) => "OBJECT",
            Some(TsKind::Interface) => "INTERFACE",
            Some(TsKind::Union) => "UNION",
            Some(TsKind::Enum) => "ENUM",
            Some(TsKind::Input) => "INPUT_OBJECT",
            Some(TsKind::Scalar) => "SCALAR",
            _ => {
                // meta types
                match name {
                    "__TypeKind" | "__DirectiveLocation" => "ENUM",
                    n if n.starts_with("__") => "OBJECT",
                    _ => "SCALAR",
                }
            }
        }
    }
    fn type_ref(&self, t: &Ty) -> J {
        let mut m = Map::new();
        match t {
            Ty::Named(n) => {
                m.insert("kind".into(), json!(self.kind_of(&n.s)));
                m.insert("name".into(), json!(n.s));
                put(&mut m, &self.o, "ofType", J::Null);
            }
            Ty::List(_, inner) => {
                m.insert("kind".into(), json!("LIST"));
                put(&mut m, &self.o, "name", J::Null);
                m.insert("ofType".into(), self.type_ref(inner));
            }
            Ty::NonNull(inner) => {
                m.insert("kind".into(), json!("NON_NULL"));
                put(&mut m, &self.o, "name", J::Null);
                m.insert("ofType".into(), self.type_ref(inner));
            }
        }
        J::Object(m)
    }
    fn desc(d: &Option<(P, String)>) -> J {
        match d {
            Some((_, s)) => json!(s),
            None => J::Null,
        }
    }
    /// (isDeprecated, deprecationReason) from an `@deprecated` application
    fn deprecation(dirs: &[Dir]) -> (bool, J) {
        match dirs.iter().find(|d| d.name.s == "deprecated") {
            None => (false, J::Null),
            Some(d) => {
                let reason = d.args.as_ref().and_then(|a| a.items.iter().find(|(n, _)| n.s == "reason")).map(|(_, v)| v.clone());
                match reason {
                    Some(Value::Str(_, s)) => (true, json!(s)),
                    Some(Value::Null(_)) => (true, J::Null),
                    _ => (true, json!("No longer supported")),
                }
            }
        }
    }
    fn input_value(&self, v: &InputValueDef) -> J {
        let mut m = Map::new();
        m.insert("name".into(), json!(v.name.s));
        put(&mut m, &self.o, "description", Self::desc(&v.desc));
        m.insert("type".into(), self.type_ref(&v.ty));
        put(&mut m, &self.o, "defaultValue", v.default.as_ref().map_or(J::Null, |d| json!(value_text(d))));
        if self.o.input_deprecation {
            let (dep, reason) = Self::deprecation(&v.dirs);
            m.insert("isDeprecated".into(), json!(dep));
            put(&mut m, &self.o, "deprecationReason", reason);
        }
        J::Object(m)
    }
    fn field(&self, f: &FieldDef) -> J {
        let mut m = Map::new();
        m.insert("name".into(), json!(f.name.s));
        put(&mut m, &self.o, "description", Self::desc(&f.desc));
        m.insert("args".into(), J::Array(f.args.iter().flatten().map(|a| self.input_value(a)).collect()));
        m.insert("type".into(), self.type_ref(&f.ty));
        let (dep, reason) = Self::deprecation(&f.dirs);
        m.insert("isDeprecated".into(), json!(dep));
        put(&mut m, &self.o, "deprecationReason", reason);
        J::Object(m)
    }
    fn named_ref(&self, n: &str) -> J {
        self.type_ref(&Ty::named(n))
    }
    fn type_def(&self, d: &TsDef) -> J {
        let name = d.name_str();
        let mut m = Map::new();
        let kind = match d.kind {
            TsKind::Object => "OBJECT",
            TsKind::Interface => "INTERFACE",
            TsKind::Union => "UNION",
            TsKind::Enum => "ENUM",
            TsKind::Input => "INPUT_OBJECT",
            _ => "SCALAR",
        };
        m.insert("kind".into(), json!(kind));
        m.insert("name".into(), json!(name));
        put(&mut m, &self.o, "description", Self::desc(&d.desc));
        let url = d.dirs.iter().find(|x| x.name.s == "specifiedBy").and_then(|x| x.args.as_ref()).and_then(|a| a.items.iter().find(|(n, _)| n.s == "url")).map(|(_, v)| v.clone());
        put(&mut m, &self.o, "specifiedByURL", match url {
            Some(Value::Str(_, s)) => json!(s),
            _ => J::Null,
        });
        let has_fields = matches!(d.kind, TsKind::Object | TsKind::Interface);
        put(&mut m, &self.o, "fields", if has_fields { J::Array(d.fields.iter().map(|f| self.field(f)).collect()) } else { J::Null });
        put(&mut m, &self.o, "inputFields", if d.kind == TsKind::Input { J::Array(d.input_fields.iter().map(|f| self.input_value(f)).collect()) } else { J::Null });
        put(&mut m, &self.o, "interfaces", if has_fields { J::Array(d.implements.iter().map(|i| self.named_ref(&i.s)).collect()) } else { J::Null });
        put(
            &mut m,
            &self.o,
            "enumValues",
            if d.kind == TsKind::Enum {
                J::Array(
                    d.values
                        .iter()
                        .map(|v| {
                            let mut e = Map::new();
                            e.insert("name".into(), json!(v.name.s));
                            put(&mut e, &self.o, "description", Self::desc(&v.desc));
                            let (dep, reason) = Self::deprecation(&v.dirs);
                            e.insert("isDeprecated".into(), json!(dep));
                            put(&mut e, &self.o, "deprecationReason", reason);
                            J::Object(e)
                        })
                        .collect(),
                )
            } else {
                J::Null
            },
        );
        let possible: J = match d.kind {
            TsKind::Union => J::Array(d.members.iter().map(|x| self.named_ref(&x.s)).collect()),
            TsKind::Interface => J::Array(self.sch.possible_types(name).iter().map(|x| self.named_ref(x)).collect()),
            _ => J::Null,
        };
        put(&mut m, &self.o, "possibleTypes", possible);
        J::Object(m)
    }
    fn directive(&self, d: &TsDef) -> J {
        let mut m = Map::new();
        m.insert("name".into(), json!(d.name_str()));
        put(&mut m, &self.o, "description", Self::desc(&d.desc));
        if self.o.repeatable_key {
            m.insert("isRepeatable".into(), json!(d.repeatable));
        }
        m.insert("locations".into(), J::Array(d.locations.iter().map(|l| json!(l.s)).collect()));
        m.insert("args".into(), J::Array(d.dir_args.iter().flatten().map(|a| self.input_value(a)).collect()));
        J::Object(m)
    }
}

/// Every named type a definition refers to (for deciding which built-in scalars a server lists).
fn referenced(sch: &Sch) -> std::collections::BTreeSet<String> {
    let mut out = std::collections::BTreeSet::new();
    let mut iv = |v: &InputValueDef, out: &mut std::collections::BTreeSet<String>| {
        out.insert(v.ty.base().to_string());
    };
    for d in sch.types.values().chain(sch.directives.values()) {
        for f in &d.fields {
            out.insert(f.ty.base().to_string());
            for a in f.args.iter().flatten() {
                iv(a, &mut out);
            }
        }
        for f in &d.input_fields {
            iv(f, &mut out);
        }
        for a in d.dir_args.iter().flatten() {
            iv(a, &mut out);
        }
    }
    out
}

/// built-in scalars a conforming server lists: those reachable from the schema (String and Boolean always are)
pub fn listed_builtin_scalars(sch: &Sch) -> Vec<&'static str> {
    let refd = referenced(sch);
    BUILTIN_SCALARS.iter().copied().filter(|b| *b == "String" || *b == "Boolean" || refd.contains(*b)).collect()
}

/// The introspection result of the schema whose merged definitions are `sch`.
pub fn introspection_json(sch: &Sch, o: IntroOpts) -> J {
    let r = R { sch, o };
    let mut types: Vec<J> = vec![];
    let user: Vec<J> = sch.order.iter().map(|n| r.type_def(&sch.types[n])).collect();
    // String and Boolean are always reachable (through the meta types and @skip/@include)
    let builtins: Vec<J> = listed_builtin_scalars(sch).iter().map(|b| r.type_def(&TsDef::new(TsKind::Scalar, Some(b)))).collect();
    let meta: Vec<J> = if o.meta_types {
        let meta_doc = parse_ts(META_SDL).unwrap_or_else(|e| crate::report::machinery(&format!("META_SDL: {e}")));
        let msch = Sch::new(&meta_doc.defs);
        let mr = R { sch: &msch, o };
        meta_doc.defs.iter().map(|d| mr.type_def(d)).collect()
    } else {
        vec![]
    };
    match o.order {
        0 => {
            types.extend(user);
            types.extend(builtins);
            types.extend(meta);
        }
        1 => {
            types.extend(builtins);
            types.extend(meta);
            types.extend(user);
        }
        _ => {
            types.extend(user);
            types.extend(builtins);
            types.extend(meta);
            types.reverse();
        }
    }
    // directives: built-in ones first (graphql-js order), then the schema's own
    let bnames: Vec<String> = builtin_directives().iter().map(|d| d.name_str().to_string()).collect();
    let mut directives: Vec<J> = builtin_directives().iter().map(|d| r.directive(d)).collect();
    let mut custom: Vec<&TsDef> = sch.directives.values().filter(|d| !bnames.iter().any(|b| b == d.name_str())).collect();
    custom.sort_by_key(|d| d.name_str().to_string());
    directives.extend(custom.into_iter().map(|d| r.directive(d)));
    let mut s = Map::new();
    put(&mut s, &o, "description", sch.schema_def.as_ref().map_or(J::Null, |d| R::desc(&d.desc)));
    let root = |k: OpKind| sch.root(k).map_or(J::Null, |n| json!({"name": n}));
    s.insert("queryType".into(), root(OpKind::Query));
    put(&mut s, &o, "mutationType", root(OpKind::Mutation));
    put(&mut s, &o, "subscriptionType", root(OpKind::Subscription));
    s.insert("types".into(), J::Array(types));
    s.insert("directives".into(), J::Array(directives));
    json!({"__schema": J::Object(s)})
}
