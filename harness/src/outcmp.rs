//! Semantic comparison of what `generate` emitted for two presentations of one schema (C15: SDL vs
//! introspection JSON; C17: a base arrangement vs a rearrangement of the same definitions).
//!
//! Each output set is reduced to a `Digest`: item id -> canonical value, where items are every
//! exported type alias of the schema / resolvers / operation declaration files (R-TS canonical
//! form, alias expansion depth 4), `ResolverOutput<T>` instantiated at every type name, every
//! `Resolvers<Context>` entry argument by argument, exported runtime values, and the definitions,
//! root types and directive definitions a server would build from the emitted server schema
//! (own template evaluator + R-PARSE; component order, directive applications and default-value
//! literals removed). Declaration order never matters.

use crate::gql::*;
use crate::rts::{Decl, T, Te, World, parse_module, show_t};
use crate::schema::Sch;
use std::collections::{BTreeMap, BTreeSet};

/// what one route produced for (schema, one operation file)
#[derive(Debug, Clone, Default)]
pub struct Out {
    /// None = accepted; Some(kinds) = rejected with these diagnostic kinds (stage:kind)
    pub rejected: Option<Vec<String>>,
    pub schema_dts: String,
    pub resolvers_dts: String,
    pub op_dts: String,
    /// the `serverGraphqlOutput` module
    pub server: String,
}

#[derive(Debug)]
pub struct Diff {
    pub key: String,
    pub what: String,
}

#[derive(Clone, Debug, PartialEq)]
pub enum Repr {
    Ty(T),
    Text(String),
    /// the item exists but could not be evaluated
    Broken(String),
}

impl Repr {
    fn show(&self) -> String {
        clip(&match self {
            Repr::Ty(t) => show_t(t),
            Repr::Text(s) => s.clone(),
            Repr::Broken(e) => format!("<cannot be evaluated: {e}>"),
        })
    }
}

#[derive(Clone, Debug)]
pub struct Item {
    /// class of a difference at this item (becomes the violation key)
    pub class: String,
    /// name used for "only in one side" keys
    pub only_class: String,
    pub what: String,
    pub repr: Repr,
}

#[derive(Clone, Debug, Default)]
pub struct Digest {
    pub items: BTreeMap<String, Item>,
    /// a whole part could not be read: (part, error)
    pub unreadable: Vec<(String, String)>,
    pub server_defs: BTreeMap<(TsKind, String), TsDef>,
}

fn collect_exports(w: &World, scope: usize, prefix: &mut Vec<String>, out: &mut BTreeSet<Vec<String>>) {
    for name in w.scopes[scope].exports.keys() {
        let mut p = prefix.clone();
        p.push(name.clone());
        out.insert(p);
    }
    for (ns, id) in &w.scopes[scope].namespaces {
        prefix.push(ns.clone());
        collect_exports(w, *id, prefix, out);
        prefix.pop();
    }
}

pub fn load_world(schema: &str, resolvers: &str, op: &str) -> Result<World, String> {
    let mut w = World::new();
    w.load("schema", schema, &BTreeMap::new()).map_err(|e| format!("schema: {e}"))?;
    let mut imports = BTreeMap::new();
    imports.insert("./schema.js".to_string(), "schema".to_string());
    imports.insert("./schema".to_string(), "schema".to_string());
    if !resolvers.is_empty() {
        w.load("resolvers", resolvers, &imports).map_err(|e| format!("resolvers: {e}"))?;
    }
    if !op.is_empty() {
        w.load("op", op, &imports).map_err(|e| format!("op: {e}"))?;
    }
    Ok(w)
}

fn kind_tag(sch: &Sch, name: &str) -> String {
    match sch.kind(name) {
        Some(k) => format!("{k:?}"),
        None => "other".into(),
    }
}

fn is_meta(n: &str) -> bool {
    n.starts_with("__") && crate::introspect::META_SDL.contains(&format!(" {n} {{"))
}

fn clip(s: &str) -> String {
    if s.chars().count() > 400 { format!("{}…", s.chars().take(400).collect::<String>()) } else { s.to_string() }
}

fn repr_of(r: Result<T, String>) -> Repr {
    match r {
        Ok(t) => Repr::Ty(t),
        Err(e) => Repr::Broken(e),
    }
}

/// value-level exports (enum runtime objects): name -> initializer
fn value_table(text: &str) -> Result<BTreeMap<String, String>, String> {
    let mut out = BTreeMap::new();
    for d in parse_module(text)? {
        if let Decl::Const { name, init, init_tpl, exported: true, .. } = d {
            out.insert(name, format!("{}|{}", init.map(|j| j.to_string()).unwrap_or_default(), init_tpl.unwrap_or_default()));
        }
    }
    Ok(out)
}

/// The schema a server would build from the emitted `serverGraphqlOutput` module, reduced to what
/// introspection carries and made order-free.
fn server_model(module: &str) -> Result<(BTreeMap<(TsKind, String), TsDef>, [Option<String>; 3]), String> {
    let decls = parse_module(module)?;
    let raw = decls
        .iter()
        .find_map(|d| match d {
            Decl::Const { name, init_tpl: Some(t), exported: true, .. } if name == "schema" => Some(t.clone()),
            _ => None,
        })
        .ok_or("no `export const schema = `...``")?;
    let sdl = crate::c16::eval_template(&raw)?;
    let doc = crate::rparse::parse_ts(&sdl).map_err(|e| format!("{e:?}"))?;
    let sch = Sch::from_doc(&doc)?;
    let roots = [sch.root(OpKind::Query), sch.root(OpKind::Mutation), sch.root(OpKind::Subscription)];
    let mut m = BTreeMap::new();
    let strip_iv = |v: &mut InputValueDef| {
        v.dirs.clear();
        if v.default.is_some() {
            v.default = Some(Value::Null(P::default()));
        }
    };
    for d in crate::schema::merge_extensions(&doc)? {
        let mut d = d;
        if d.kind == TsKind::Schema {
            continue;
        }
        d.dirs.clear();
        for f in d.fields.iter_mut() {
            f.dirs.clear();
            f.args.iter_mut().flatten().for_each(strip_iv);
            if f.args.as_ref().is_some_and(|a| a.is_empty()) {
                f.args = None;
            }
        }
        d.input_fields.iter_mut().for_each(strip_iv);
        d.dir_args.iter_mut().flatten().for_each(strip_iv);
        if d.dir_args.as_ref().is_some_and(|a| a.is_empty()) {
            d.dir_args = None;
        }
        d.values.iter_mut().for_each(|v| v.dirs.clear());
        // the order of components is not part of the schema a server builds
        d.fields.sort_by(|a, b| a.name.s.cmp(&b.name.s));
        d.values.sort_by(|a, b| a.name.s.cmp(&b.name.s));
        d.members.sort_by(|a, b| a.s.cmp(&b.s));
        d.input_fields.sort_by(|a, b| a.name.s.cmp(&b.name.s));
        d.implements.sort_by(|a, b| a.s.cmp(&b.s));
        d.locations.sort_by(|a, b| a.s.cmp(&b.s));
        m.insert((d.kind, d.name_str().to_string()), d);
    }
    Ok((m, roots))
}

fn first_diff_field(x: &TsDef, y: &TsDef) -> &'static str {
    if x.desc != y.desc {
        "description"
    } else if x.implements != y.implements {
        "implements"
    } else if x.fields != y.fields {
        "fields"
    } else if x.members != y.members {
        "members"
    } else if x.values != y.values {
        "values"
    } else if x.input_fields != y.input_fields {
        "input_fields"
    } else if x.dir_args != y.dir_args {
        "arguments"
    } else if x.locations != y.locations {
        "locations"
    } else if x.repeatable != y.repeatable {
        "repeatable"
    } else {
        "other"
    }
}

/// Reduce one output set to its digest. Names with no counterpart by construction are left out:
/// the `__Schema` family (reserved names; only an introspection JSON lists them) and built-in
/// scalars the schema never mentions (only the SDL route adds those).
pub fn digest(sch: &Sch, o: &Out) -> Digest {
    let mut d = Digest::default();
    let listed = crate::introspect::listed_builtin_scalars(sch);
    let unlisted_builtin = |n: &str| crate::schema::BUILTIN_SCALARS.contains(&n) && !listed.contains(&n);
    let w = match load_world(&o.schema_dts, &o.resolvers_dts, &o.op_dts) {
        Ok(w) => Some(w),
        Err(e) => {
            d.unreadable.push((e.split(':').next().unwrap_or("").to_string(), e));
            None
        }
    };
    if let Some(w) = &w {
        for module in ["schema", "resolvers", "op"] {
            let Some(&scope) = w.modules.get(module) else { continue };
            let mut ex = BTreeSet::new();
            collect_exports(w, scope, &mut vec![], &mut ex);
            for p in ex {
                let last = p.last().unwrap().clone();
                if is_meta(&last) || unlisted_builtin(&last) {
                    continue;
                }
                let path: Vec<&str> = p.iter().map(|s| s.as_str()).collect();
                let id = format!("alias:{module}:{}", p.join("."));
                let kind = kind_tag(sch, &last);
                let only = format!("alias_only_in_@:{module}:{kind}");
                // generic aliases: the prelude's helpers as syntax; ResolverOutput<T> instantiated; Resolvers<Context> below
                if let Ok(T::Ref(s1, n1)) = w.exported(module, &path)
                    && let Some((params, body)) = w.scopes[s1].types.get(&n1)
                    && !params.is_empty()
                {
                    if last == "Resolvers" {
                        d.items.insert(id, Item { class: "generic_alias_differs:resolvers".into(), only_class: only, what: format!("{module}: {}", p.join(".")), repr: Repr::Text("<compared entry by entry>".into()) });
                    } else if module == "resolvers" && params.len() == 1 {
                        d.items.insert(id, Item { class: "generic_alias_differs:resolvers".into(), only_class: only, what: format!("{module}: {}", p.join(".")), repr: Repr::Text("<instantiated at every type name>".into()) });
                        let names: Vec<String> = sch.order.iter().filter(|n| sch.kind(n) != Some(TsKind::Input)).cloned().chain(listed.iter().map(|s| s.to_string())).collect();
                        for n in names {
                            let app = Te::Ref(vec![last.clone()], vec![Te::Lit(n.clone())]);
                            let r = w.eval_in(scope, &app).and_then(|t| w.canon(&t, 4));
                            d.items.insert(format!("resolver_output:{n}"), Item { class: format!("resolver_output_differs:{}", kind_tag(sch, &n)), only_class: format!("resolver_output_only_in_@:{}", kind_tag(sch, &n)), what: format!("{last}<\"{n}\">"), repr: repr_of(r) });
                        }
                    } else {
                        d.items.insert(id, Item { class: format!("generic_alias_differs:{module}"), only_class: only, what: format!("{module}: generic alias {}", p.join(".")), repr: Repr::Text(format!("<{}> = {:?}", params.join(", "), body)) });
                    }
                    continue;
                }
                let ns = if p.len() > 1 { p[0].clone() } else { "top".into() };
                let r = w.exported(module, &path).and_then(|t| w.canon(&t, 4));
                d.items.insert(id, Item { class: format!("alias_differs:{module}:{ns}:{kind}"), only_class: only, what: format!("{module}: {}", p.join(".")), repr: repr_of(r) });
            }
        }
        // resolver entries (function types are opaque to the canonical form: compare their arguments)
        if !o.resolvers_dts.is_empty() {
            match resolver_items(sch, w, &o.resolvers_dts, &mut d) {
                Ok(()) => {}
                Err(e) => d.unreadable.push(("resolver-table".into(), e)),
            }
        }
        match value_table(&o.schema_dts) {
            Ok(vt) => {
                for (k, v) in vt {
                    if is_meta(&k) {
                        continue;
                    }
                    d.items.insert(format!("value:{k}"), Item { class: "schema_runtime_value_differs".into(), only_class: "schema_runtime_value_only_in_@".into(), what: format!("exported value {k}"), repr: Repr::Text(v) });
                }
            }
            Err(e) => d.unreadable.push(("schema-values".into(), e)),
        }
    }
    if !o.server.is_empty() {
        match server_model(&o.server) {
            Err(e) => d.unreadable.push(("server-schema".into(), e)),
            Ok((m, roots)) => {
                d.items.insert("server:root_types".into(), Item { class: "server_schema:root_types_differ".into(), only_class: "server_schema:root_types_only_in_@".into(), what: "server schema: root operation types".into(), repr: Repr::Text(format!("{roots:?}")) });
                for (k, def) in m {
                    if is_meta(&k.1) || (k.0 == TsKind::Scalar && crate::schema::BUILTIN_SCALARS.contains(&k.1.as_str())) {
                        continue;
                    }
                    let kind = if k.0 == TsKind::Directive { "Directive".to_string() } else { kind_tag(sch, &k.1) };
                    d.items.insert(
                        format!("server:{} {}", k.0.kw(), k.1),
                        Item { class: format!("server_schema:definition_differs:{kind}"), only_class: format!("server_schema:definition_only_in_@:{kind}"), what: format!("server schema: {} {}", k.0.kw(), k.1), repr: Repr::Text(format!("{def:?}")) },
                    );
                    d.server_defs.insert((k.0, k.1.clone()), def);
                }
            }
        }
    }
    d
}

fn resolver_items(sch: &Sch, w: &World, text: &str, d: &mut Digest) -> Result<(), String> {
    let decls = parse_module(text)?;
    let Some(Decl::Type { body: Te::Obj(types), .. }) = decls.iter().find(|d| matches!(d, Decl::Type { name, .. } if name == "Resolvers")) else {
        return Err("no `Resolvers` object type".into());
    };
    let scope = w.modules["resolvers"];
    const SLOTS: [&str; 5] = ["kind", "parent", "args", "context", "result"];
    for tp in types {
        if is_meta(&tp.key) {
            continue;
        }
        let tkind = kind_tag(sch, &tp.key);
        let Te::Obj(fields) = &tp.ty else {
            let r = w.eval_in(scope, &tp.ty).and_then(|t| w.canon(&t, 4));
            d.items.insert(format!("resolver:{}", tp.key), Item { class: "resolver_differs:shape".into(), only_class: format!("resolver_only_in_@:{tkind}"), what: format!("resolver entry {}", tp.key), repr: repr_of(r) });
            continue;
        };
        for f in fields {
            let key = format!("{}.{}{}", tp.key, f.key, if f.optional { "?" } else { "" });
            // presence of the entry
            d.items.insert(format!("resolver:{key}"), Item { class: "resolver_differs:kind".into(), only_class: format!("resolver_only_in_@:{tkind}"), what: format!("resolver entry {key}"), repr: Repr::Text(match &f.ty { Te::Ref(p, _) => p.join("."), _ => "<type>".into() }) });
            match &f.ty {
                Te::Ref(path, args) if path.len() == 1 && path[0].starts_with("__") => {
                    // __Resolver<Parent, Args, Context, Result> / __TypeResolver<Obj, Context, Result>
                    let names: &[&str] = if args.len() == 4 { &SLOTS[1..] } else { &["parent", "context", "result"] };
                    for (i, a) in args.iter().enumerate() {
                        let slot = names.get(i).copied().unwrap_or("?");
                        let r = if *a == Te::Ref(vec!["Context".into()], vec![]) { Ok(T::Opaque("Context".into())) } else { w.eval_in(scope, a).and_then(|t| w.canon(&t, 4)) };
                        d.items.insert(format!("resolver:{key}:{slot}"), Item { class: format!("resolver_differs:{slot}"), only_class: format!("resolver_slot_only_in_@:{slot}"), what: format!("resolver entry {key}: {slot}"), repr: repr_of(r) });
                    }
                }
                other => {
                    let r = w.eval_in(scope, other).and_then(|t| w.canon(&t, 4));
                    d.items.insert(format!("resolver:{key}:type"), Item { class: "resolver_differs:shape".into(), only_class: "resolver_slot_only_in_@:type".into(), what: format!("resolver entry {key}"), repr: repr_of(r) });
                }
            }
        }
    }
    Ok(())
}

/// Differences between a reference digest `a` (labelled `la`) and another digest `b` (labelled `lb`).
/// Err = the reference side itself cannot be read (not this comparison's subject).
pub fn diff_digests(a: &Digest, b: &Digest, la: &str, lb: &str) -> Result<(Vec<Diff>, u64), String> {
    if let Some((part, e)) = a.unreadable.iter().find(|(p, _)| p != "server-schema") {
        return Err(format!("the {la} output is not readable ({part}): {e}"));
    }
    let mut diffs = vec![];
    for (part, e) in &b.unreadable {
        if a.unreadable.iter().any(|(p, _)| p == part) {
            continue; // unreadable on both sides: another property's subject (C10 / C16)
        }
        diffs.push(Diff { key: format!("{lb}_output_unreadable:{part}"), what: format!("the {lb} output's {part} cannot be read back while the {la} one can: {e}") });
    }
    let server_a_ok = !a.unreadable.iter().any(|(p, _)| p == "server-schema");
    let mut compared = 0u64;
    let keys: BTreeSet<&String> = a.items.keys().chain(b.items.keys()).collect();
    for k in keys {
        let is_server = k.starts_with("server:");
        if is_server && (!server_a_ok || b.unreadable.iter().any(|(p, _)| p == "server-schema")) {
            continue;
        }
        // items of a part that is unreadable on side b were reported once above
        if !is_server && !b.unreadable.is_empty() && b.unreadable.iter().any(|(p, _)| p != "server-schema") {
            continue;
        }
        compared += 1;
        match (a.items.get(k), b.items.get(k)) {
            (Some(x), Some(y)) => {
                if x.repr != y.repr {
                    if let Repr::Broken(e) = &x.repr {
                        return Err(format!("R-TS cannot evaluate {} of the {la} output: {e}", x.what));
                    }
                    let class = if is_server && k != "server:root_types" {
                        let field = match (a.server_defs.iter().find(|(kk, _)| format!("server:{} {}", kk.0.kw(), kk.1) == **k), b.server_defs.iter().find(|(kk, _)| format!("server:{} {}", kk.0.kw(), kk.1) == **k)) {
                            (Some((_, p)), Some((_, q))) => first_diff_field(p, q),
                            _ => "other",
                        };
                        format!("{}:{field}", x.class)
                    } else if matches!(y.repr, Repr::Broken(_)) {
                        format!("{lb}_output_unevaluable:{}", x.class.split(':').nth(1).unwrap_or(""))
                    } else {
                        x.class.clone()
                    };
                    diffs.push(Diff { key: class, what: format!("{} is {} for {la} but {} for {lb}", x.what, x.repr.show(), y.repr.show()) });
                }
            }
            (Some(x), None) => diffs.push(Diff { key: x.only_class.replace('@', la), what: format!("{} exists only for {la}", x.what) }),
            (None, Some(y)) => diffs.push(Diff { key: y.only_class.replace('@', lb), what: format!("{} exists only for {lb}", y.what) }),
            (None, None) => {}
        }
    }
    Ok((diffs, compared))
}

/// C15's comparison: SDL route (reference) vs introspection-JSON route.
pub fn compare_outputs(sch: &Sch, a: &Out, b: &Out) -> Result<(Vec<Diff>, u64), String> {
    diff_digests(&digest(sch, a), &digest(sch, b), "sdl", "json")
}
