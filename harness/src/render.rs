//! Renderer: R-MODEL -> GraphQL text under a trivia / spelling plan.

use crate::gql::*;
use crate::rparse::{Tok, lex};

#[derive(Clone, Copy, Debug, PartialEq, Eq)]
pub enum StrStyle {
    Normal,
    /// every character as \uXXXX (surrogate pairs for astral characters)
    U4,
    /// every character as \u{X}
    UBrace,
    /// short escapes wherever one exists, including \/
    ShortEsc,
    Block,
    BlockIndented,
}

pub trait Plan {
    /// trivia to put before the next token; `required` = the two tokens would fuse without a separator
    fn gap(&mut self, _required: bool) -> &'static str {
        " "
    }
    fn string_style(&mut self, _content: &str) -> StrStyle {
        StrStyle::Normal
    }
    /// optional leading `|` / `&`
    fn lead_sep(&mut self) -> bool {
        false
    }
    /// render an anonymous query without variables/directives as `{ ... }`
    fn shorthand(&mut self) -> bool {
        false
    }
    /// text after the last token
    fn tail(&mut self) -> &'static str {
        "\n"
    }
    /// text before the first token
    fn head(&mut self) -> &'static str {
        ""
    }
}

pub struct DefaultPlan;
impl Plan for DefaultPlan {}

#[derive(Clone, Copy, PartialEq)]
enum Last {
    None,
    Wordy,
    Str,
    Punct,
}

pub struct R<'a> {
    pub out: String,
    last: Last,
    plan: &'a mut dyn Plan,
}

fn esc_normal(s: &str, out: &mut String) {
    out.push('"');
    for c in s.chars() {
        match c {
            '"' => out.push_str("\\\""),
            '\\' => out.push_str("\\\\"),
            '\n' => out.push_str("\\n"),
            '\r' => out.push_str("\\r"),
            '\t' => out.push_str("\\t"),
            '\u{8}' => out.push_str("\\b"),
            '\u{c}' => out.push_str("\\f"),
            c if (c as u32) < 0x20 => out.push_str(&format!("\\u{:04X}", c as u32)),
            c => out.push(c),
        }
    }
    out.push('"');
}

pub fn spell_string(s: &str, style: StrStyle) -> String {
    let mut out = String::new();
    match style {
        StrStyle::Normal => esc_normal(s, &mut out),
        StrStyle::ShortEsc => {
            out.push('"');
            for c in s.chars() {
                match c {
                    '/' => out.push_str("\\/"),
                    '"' => out.push_str("\\\""),
                    '\\' => out.push_str("\\\\"),
                    '\n' => out.push_str("\\n"),
                    '\r' => out.push_str("\\r"),
                    '\t' => out.push_str("\\t"),
                    '\u{8}' => out.push_str("\\b"),
                    '\u{c}' => out.push_str("\\f"),
                    c if (c as u32) < 0x20 => out.push_str(&format!("\\u{:04x}", c as u32)),
                    c => out.push(c),
                }
            }
            out.push('"');
        }
        StrStyle::U4 => {
            out.push('"');
            for c in s.chars() {
                let mut buf = [0u16; 2];
                for u in c.encode_utf16(&mut buf) {
                    out.push_str(&format!("\\u{:04X}", u));
                }
            }
            out.push('"');
        }
        StrStyle::UBrace => {
            out.push('"');
            for c in s.chars() {
                out.push_str(&format!("\\u{{{:X}}}", c as u32));
            }
            out.push('"');
        }
        StrStyle::Block | StrStyle::BlockIndented => {
            let raw = s.replace("\"\"\"", "\\\"\"\"");
            let cand = if style == StrStyle::Block {
                format!("\"\"\"{raw}\"\"\"")
            } else {
                let body: Vec<String> = raw.split('\n').map(|l| if l.is_empty() { String::new() } else { format!("    {l}") }).collect();
                format!("\"\"\"\n{}\n  \"\"\"", body.join("\n"))
            };
            // only if the block spelling denotes exactly `s` (checked with the reference lexer)
            let ok = matches!(lex(&cand), Ok(toks) if toks.len() == 2 && toks[0].t == Tok::Str(s.to_string(), true));
            if ok {
                out = cand;
            } else {
                esc_normal(s, &mut out);
            }
        }
    }
    out
}

impl<'a> R<'a> {
    pub fn new(plan: &'a mut dyn Plan) -> Self {
        let head = plan.head();
        R {
            out: head.to_string(),
            last: Last::None,
            plan,
        }
    }
    fn tok(&mut self, s: &str) {
        let first = s.chars().next().unwrap();
        let kind = if first == '"' {
            Last::Str
        } else if first.is_ascii_alphanumeric() || first == '_' || first == '-' {
            Last::Wordy
        } else {
            Last::Punct
        };
        if self.last != Last::None {
            let required = (self.last == Last::Wordy && (kind == Last::Wordy || first == '.'))
                || (self.last == Last::Str && kind == Last::Str);
            let g = self.plan.gap(required);
            if g.is_empty() && required {
                self.out.push_str("  ");
            } else {
                self.out.push_str(g);
            }
        }
        self.out.push_str(s);
        self.last = kind;
    }
    fn string(&mut self, s: &str) {
        let st = self.plan.string_style(s);
        let sp = spell_string(s, st);
        self.tok(&sp);
    }
    pub fn value(&mut self, v: &Value) {
        match v {
            Value::Var(_, n) => {
                self.tok("$");
                self.tok(n);
            }
            Value::Int(_, s) | Value::Float(_, s) | Value::Enum(_, s) => self.tok(s),
            Value::Str(_, s) => self.string(s),
            Value::Bool(_, b) => self.tok(if *b { "true" } else { "false" }),
            Value::Null(_) => self.tok("null"),
            Value::List(_, xs) => {
                self.tok("[");
                xs.iter().for_each(|x| self.value(x));
                self.tok("]");
            }
            Value::Obj(_, fs) => {
                self.tok("{");
                for (k, x) in fs {
                    self.tok(&k.s);
                    self.tok(":");
                    self.value(x);
                }
                self.tok("}");
            }
        }
    }
    pub fn ty(&mut self, t: &Ty) {
        match t {
            Ty::Named(n) => self.tok(&n.s),
            Ty::List(_, t) => {
                self.tok("[");
                self.ty(t);
                self.tok("]");
            }
            Ty::NonNull(t) => {
                self.ty(t);
                self.tok("!");
            }
        }
    }
    fn args(&mut self, a: &Option<Args>) {
        if let Some(a) = a {
            self.tok("(");
            for (k, v) in &a.items {
                self.tok(&k.s);
                self.tok(":");
                self.value(v);
            }
            self.tok(")");
        }
    }
    fn dirs(&mut self, ds: &[Dir]) {
        for d in ds {
            self.tok("@");
            self.tok(&d.name.s);
            self.args(&d.args);
        }
    }
    fn selset(&mut self, s: &SelSet) {
        self.tok("{");
        for it in &s.items {
            match it {
                Sel::Field {
                    alias,
                    name,
                    args,
                    dirs,
                    sel,
                } => {
                    if let Some(a) = alias {
                        self.tok(&a.s);
                        self.tok(":");
                    }
                    self.tok(&name.s);
                    self.args(args);
                    self.dirs(dirs);
                    if let Some(s) = sel {
                        self.selset(s);
                    }
                }
                Sel::Spread { name, dirs, .. } => {
                    self.tok("...");
                    self.tok(&name.s);
                    self.dirs(dirs);
                }
                Sel::Inline { cond, dirs, sel, .. } => {
                    self.tok("...");
                    if let Some(c) = cond {
                        self.tok("on");
                        self.tok(&c.s);
                    }
                    self.dirs(dirs);
                    self.selset(sel);
                }
            }
        }
        self.tok("}");
    }
    pub fn exec(&mut self, d: &ExecDoc) {
        for def in &d.defs {
            match def {
                ExecDef::Op {
                    kind,
                    name,
                    vars,
                    dirs,
                    sel,
                    ..
                } => {
                    let can_short =
                        *kind == OpKind::Query && name.is_none() && vars.is_none() && dirs.is_empty();
                    if !(can_short && self.plan.shorthand()) {
                        self.tok(kind.kw());
                        if let Some(n) = name {
                            self.tok(&n.s);
                        }
                        if let Some((_, vs)) = vars {
                            self.tok("(");
                            for v in vs {
                                self.tok("$");
                                self.tok(&v.name.s);
                                self.tok(":");
                                self.ty(&v.ty);
                                if let Some(d) = &v.default {
                                    self.tok("=");
                                    self.value(d);
                                }
                                self.dirs(&v.dirs);
                            }
                            self.tok(")");
                        }
                        self.dirs(dirs);
                    }
                    self.selset(sel);
                }
                ExecDef::Frag {
                    name, cond, dirs, sel, ..
                } => {
                    self.tok("fragment");
                    self.tok(&name.s);
                    self.tok("on");
                    self.tok(&cond.s);
                    self.dirs(dirs);
                    self.selset(sel);
                }
                ExecDef::Import { targets, path, .. } => {
                    // fixed spelling on a line of its own
                    if !self.out.is_empty() && !self.out.ends_with('\n') {
                        self.out.push('\n');
                    }
                    let ts: Vec<String> = targets
                        .iter()
                        .map(|t| t.as_ref().map_or("*".to_string(), |n| n.s.clone()))
                        .collect();
                    self.out.push_str(&format!("#import {} from ", ts.join(", ")));
                    esc_normal(&path.1, &mut self.out);
                    self.out.push('\n');
                    self.last = Last::None;
                }
            }
        }
    }
    fn desc(&mut self, d: &Option<(P, String)>) {
        if let Some((_, s)) = d {
            self.string(s);
        }
    }
    fn ivd(&mut self, v: &InputValueDef) {
        self.desc(&v.desc);
        self.tok(&v.name.s);
        self.tok(":");
        self.ty(&v.ty);
        if let Some(d) = &v.default {
            self.tok("=");
            self.value(d);
        }
        self.dirs(&v.dirs);
    }
    pub fn ts(&mut self, d: &TsDoc) {
        for def in &d.defs {
            self.tsdef(def);
        }
    }
    pub fn tsdef(&mut self, def: &TsDef) {
        self.desc(&def.desc);
        if def.ext {
            self.tok("extend");
        }
        self.tok(def.kind.kw());
        match def.kind {
            TsKind::Schema => {
                self.dirs(&def.dirs);
                if !def.roots.is_empty() {
                    self.tok("{");
                    for (k, n) in &def.roots {
                        self.tok(k.kw());
                        self.tok(":");
                        self.tok(&n.s);
                    }
                    self.tok("}");
                }
            }
            TsKind::Directive => {
                self.tok("@");
                self.tok(def.name_str());
                if let Some(a) = &def.dir_args {
                    self.tok("(");
                    a.iter().for_each(|v| self.ivd(v));
                    self.tok(")");
                }
                if def.repeatable {
                    self.tok("repeatable");
                }
                self.tok("on");
                let lead = self.plan.lead_sep();
                for (i, l) in def.locations.iter().enumerate() {
                    if i > 0 || lead {
                        self.tok("|");
                    }
                    self.tok(&l.s);
                }
            }
            _ => {
                self.tok(def.name_str());
                if !def.implements.is_empty() {
                    self.tok("implements");
                    let lead = self.plan.lead_sep();
                    for (i, n) in def.implements.iter().enumerate() {
                        if i > 0 || lead {
                            self.tok("&");
                        }
                        self.tok(&n.s);
                    }
                }
                self.dirs(&def.dirs);
                if !def.fields.is_empty() {
                    self.tok("{");
                    for f in &def.fields {
                        self.desc(&f.desc);
                        self.tok(&f.name.s);
                        if let Some(a) = &f.args {
                            self.tok("(");
                            a.iter().for_each(|v| self.ivd(v));
                            self.tok(")");
                        }
                        self.tok(":");
                        self.ty(&f.ty);
                        self.dirs(&f.dirs);
                    }
                    self.tok("}");
                }
                if !def.members.is_empty() {
                    self.tok("=");
                    let lead = self.plan.lead_sep();
                    for (i, n) in def.members.iter().enumerate() {
                        if i > 0 || lead {
                            self.tok("|");
                        }
                        self.tok(&n.s);
                    }
                }
                if !def.values.is_empty() {
                    self.tok("{");
                    for v in &def.values {
                        self.desc(&v.desc);
                        self.tok(&v.name.s);
                        self.dirs(&v.dirs);
                    }
                    self.tok("}");
                }
                if !def.input_fields.is_empty() {
                    self.tok("{");
                    def.input_fields.iter().for_each(|v| self.ivd(v));
                    self.tok("}");
                }
            }
        }
    }
    pub fn finish(self) -> String {
        let mut out = self.out;
        out.push_str(self.plan.tail());
        out
    }
}

pub fn render_exec(d: &ExecDoc, plan: &mut dyn Plan) -> String {
    let mut r = R::new(plan);
    r.exec(d);
    r.finish()
}
pub fn render_ts(d: &TsDoc, plan: &mut dyn Plan) -> String {
    let mut r = R::new(plan);
    r.ts(d);
    r.finish()
}
pub fn exec_text(d: &ExecDoc) -> String {
    render_exec(d, &mut DefaultPlan)
}
pub fn ts_text(d: &TsDoc) -> String {
    render_ts(d, &mut DefaultPlan)
}
pub fn value_text(v: &Value) -> String {
    let mut p = DefaultPlan;
    let mut r = R::new(&mut p);
    r.value(v);
    r.out
}
